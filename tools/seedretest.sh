#!/bin/bash
# usage: tools/seedretest.sh <seed-name>...   re-runs the repository's unedited suite (private netns, the IPv6-only test that
# fails there on the unchanged source deselected) on a scratch copy of /repo with the seed's patch; records the exit status
# in seeded/<name>/meta.json (confirmed.tests_exit_patched, tests_run)
for NAME in "$@"; do
  W=$(mktemp -d /tmp/seedre.XXXXXX)
  mkdir -p $W/repo && cp -r /repo/src /repo/tests /repo/pyproject.toml $W/repo/ 2>/dev/null; cp /repo/setup.cfg /repo/conftest.py $W/repo/ 2>/dev/null
  (cd $W/repo && git init -q . && git add -A >/dev/null 2>&1 && git -c user.email=x@x -c user.name=x commit -qm base >/dev/null && git apply /verif/seeded/$NAME/patch.diff) || { echo "$NAME PATCH-FAILS"; rm -rf $W; continue; }
  rc=$(cd $W/repo && unshare -n bash -c "ip link set lo up; ip route add 224.0.0.0/4 dev lo; PYTHONPATH=$W/repo/src timeout 1200 /venv/bin/python -m pytest -q -p no:cacheprovider --timeout=300 --deselect tests/services/test_types.py::test_integration_with_listener_ipv6 tests" > $W/tests.out 2>&1; echo $?)
  tail -1 $W/tests.out | cut -c1-120
  python3 - "$NAME" "$rc" <<'PY'
import json,sys
n,rc=sys.argv[1:3]
p="/verif/seeded/%s/meta.json"%n; m=json.load(open(p))
m["confirmed"]["tests_run"]="tests (whole suite; tests/services/test_types.py::test_integration_with_listener_ipv6 deselected: it fails on the unchanged source inside a private network namespace)"
m["confirmed"]["tests_exit_patched"]=rc
json.dump(m,open(p,"w"),indent=1)
print(n,"tests rc",rc)
PY
  rm -rf $W
done
