#!/venv/bin/python
"""Source pins of the function-level translator (tools/gen_fn.py): facts about the *library as a whole* that a spec type asserts and that
no translated body can show.  Each is evaluated on the AST of the source at stage T; a violated pin is a translation failure of the
area whose spec declares it (fail closed).

SOURCE_PINS entries (in a tools/fnspecs/<area>.py):
  {"kind": "paired_attrs", "attrs": (A, B), "sites": {(file, Class): [(expr_A, expr_B), ...]}}
      every assignment to `<obj>.A` anywhere in the library is `self.A = expr_A` inside one of the listed classes, immediately followed
      by `self.B = expr_B` with that pair listed; `.B` is assigned nowhere else; neither name is a property / a method of those classes.
  {"kind": "dominated_calls", "file": F, "receiver": "self.registry", "methods": [...], "guard": "set_server_if_missing",
   "from_registry": ["async_get_service_infos"]}
      in file F — and nowhere else in the library — every call `self.registry.<method>(x)` has a plain name `x` as its only argument,
      and earlier in the *same function body, at its top level* (not under a condition) either `x.<guard>()` is called and `x` is not
      re-bound in between, or `x` was bound from `self.registry.<from_registry>()`.

`check_truthy(repo, common)`: every Python class a spec maps to an opaque type marked `always_truthy` — its ancestors and descendants
inside the library too — defines neither `__bool__` nor `__len__`."""
import ast
import pathlib


class PinFail(Exception):
    pass


def _modules(repo):
    src = pathlib.Path(repo) / "src" / "zeroconf"
    for q in sorted(src.rglob("*.py")):
        yield str(q.relative_to(src)), ast.parse(q.read_text())


def _class_of(tree):
    """node -> enclosing ClassDef name (None at module level / in a plain function)"""
    owner = {}

    def walk(n, cls):
        for ch in ast.iter_child_nodes(n):
            c2 = ch.name if isinstance(ch, ast.ClassDef) else cls
            owner[ch] = c2
            walk(ch, c2)

    walk(tree, None)
    return owner


def _blocks(tree):
    for n in ast.walk(tree):
        for f in ("body", "orelse", "finalbody"):
            b = getattr(n, f, None)
            if isinstance(b, list) and b and isinstance(b[0], ast.stmt):
                yield b
        if isinstance(n, ast.Try):
            for h in n.handlers:
                yield h.body


def check_paired_attrs(repo, pin):
    a, b = pin["attrs"]
    sites = {(f, c): [tuple(p) for p in pairs] for (f, c), pairs in pin["sites"].items()}
    for rel, tree in _modules(repo):
        owner = _class_of(tree)
        # no property / method of these names in the listed classes
        for n in ast.walk(tree):
            if isinstance(n, ast.ClassDef) and (rel, n.name) in sites:
                for m in n.body:
                    if isinstance(m, (ast.FunctionDef, ast.AsyncFunctionDef)) and m.name in (a, b):
                        raise PinFail("%s: class %s defines `%s` as a method/property (line %d)" % (rel, n.name, m.name, m.lineno))
            if isinstance(n, ast.Call) and isinstance(n.func, ast.Name) and n.func.id in ("setattr", "delattr") and len(n.args) >= 2 \
                    and isinstance(n.args[1], ast.Constant) and n.args[1].value in (a, b):
                raise PinFail("%s:%d: setattr/delattr of `%s`" % (rel, n.lineno, n.args[1].value))
        seen_b = set()
        for block in _blocks(tree):
            for i, st in enumerate(block):
                tg = st.targets if isinstance(st, ast.Assign) else ([st.target] if isinstance(st, (ast.AnnAssign, ast.AugAssign)) else [])
                for t in tg:
                    for sub in ast.walk(t):
                        if isinstance(sub, ast.Attribute) and sub.attr == a and isinstance(sub.ctx, ast.Store):
                            key = (rel, owner.get(st))
                            if key not in sites or not (isinstance(st, ast.Assign) and len(st.targets) == 1 and ast.unparse(st.targets[0]) == "self." + a):
                                raise PinFail("%s:%d: `%s` is assigned outside the pinned sites: %s" % (rel, st.lineno, a, ast.unparse(st)[:80]))
                            nxt = block[i + 1] if i + 1 < len(block) else None
                            if not (isinstance(nxt, ast.Assign) and len(nxt.targets) == 1 and ast.unparse(nxt.targets[0]) == "self." + b):
                                raise PinFail("%s:%d: `self.%s = …` is not followed by `self.%s = …`" % (rel, st.lineno, a, b))
                            pair = (ast.unparse(st.value), ast.unparse(nxt.value))
                            if pair not in sites[key]:
                                raise PinFail("%s:%d: `self.%s = %s; self.%s = %s` is not one of the pinned pairs" % (rel, st.lineno, a, pair[0], b, pair[1]))
                            seen_b.add(id(nxt))
        for block in _blocks(tree):
            for st in block:
                tg = st.targets if isinstance(st, ast.Assign) else ([st.target] if isinstance(st, (ast.AnnAssign, ast.AugAssign)) else [])
                for t in tg:
                    for sub in ast.walk(t):
                        if isinstance(sub, ast.Attribute) and sub.attr == b and isinstance(sub.ctx, ast.Store) and id(st) not in seen_b \
                                and (rel, ast.unparse(st)) not in [tuple(x) for x in pin.get("b_also", [])]:
                            raise PinFail("%s:%d: `%s` is assigned without `%s` right before it: %s" % (rel, st.lineno, b, a, ast.unparse(st)[:80]))


def check_dominated_calls(repo, pin):
    recv, methods, guard = pin["receiver"], set(pin["methods"]), pin["guard"]
    attr = recv.split(".")[-1]
    for rel, tree in _modules(repo):
        for fn in ast.walk(tree):
            if not isinstance(fn, (ast.FunctionDef, ast.AsyncFunctionDef)):
                continue
            for call in ast.walk(fn):
                if not (isinstance(call, ast.Call) and isinstance(call.func, ast.Attribute) and call.func.attr in methods
                        and isinstance(call.func.value, ast.Attribute) and call.func.value.attr == attr):
                    continue
                if any(call in ast.walk(g) for g in ast.walk(fn) if isinstance(g, (ast.FunctionDef, ast.AsyncFunctionDef, ast.Lambda)) and g is not fn):
                    continue  # belongs to a nested function: handled when that one is visited
                where = "%s:%d (%s)" % (rel, call.lineno, fn.name)
                if rel != pin["file"] or ast.unparse(call.func.value) != recv:
                    raise PinFail("%s: a call of %s.%s outside %s" % (where, attr, call.func.attr, pin["file"]))
                if len(call.args) != 1 or call.keywords or not isinstance(call.args[0], ast.Name):
                    raise PinFail("%s: the argument of %s is not a plain name" % (where, call.func.attr))
                x = call.args[0].id
                top = [i for i, st in enumerate(fn.body) if call in ast.walk(st)]
                if len(top) != 1:
                    raise PinFail("%s: cannot locate the statement of the call" % where)
                ok = False
                for st in fn.body[:top[0]]:
                    names = [t.id for t in getattr(st, "targets", []) if isinstance(t, ast.Name)] if isinstance(st, ast.Assign) else []
                    if isinstance(st, (ast.AnnAssign, ast.AugAssign)) and isinstance(st.target, ast.Name):
                        names = [st.target.id]
                    if x in names:
                        v = st.value
                        ok = isinstance(v, ast.Call) and isinstance(v.func, ast.Attribute) and v.func.attr in pin.get("from_registry", []) \
                            and ast.unparse(v.func.value) == recv and not v.args
                        continue
                    if any(isinstance(sub, (ast.Name)) and sub.id == x and isinstance(sub.ctx, ast.Store) for sub in ast.walk(st)):
                        ok = False  # re-bound somewhere inside a compound statement
                        continue
                    if isinstance(st, ast.Expr) and isinstance(st.value, ast.Call) and ast.unparse(st.value) == "%s.%s()" % (x, guard):
                        ok = True
                if not ok:
                    raise PinFail("%s: `%s.%s(%s)` is not dominated by `%s.%s()` in the same function" % (where, recv, call.func.attr, x, x, guard))


def check_guard_body(repo, pin):
    """{"kind": "method_body", "file", "class", "method", "body": "<unparsed statements>"}: the guard does what the pins assume"""
    for rel, tree in _modules(repo):
        if rel != pin["file"]:
            continue
        for n in ast.walk(tree):
            if isinstance(n, ast.ClassDef) and n.name == pin["class"]:
                hits = [m for m in n.body if isinstance(m, (ast.FunctionDef, ast.AsyncFunctionDef)) and m.name == pin["method"]]
                if len(hits) != 1:
                    raise PinFail("%s: %s.%s is defined %d times" % (rel, pin["class"], pin["method"], len(hits)))
                body = [s for s in hits[0].body if not (isinstance(s, ast.Expr) and isinstance(s.value, ast.Constant) and isinstance(s.value.value, str))]
                got = "\n".join(ast.unparse(s) for s in body)
                if got != pin["body"]:
                    raise PinFail("%s:%d: the body of %s.%s changed:\n%s" % (rel, hits[0].lineno, pin["class"], pin["method"], got))
                return
    raise PinFail("%s: class %s not found" % (pin["file"], pin["class"]))


KINDS = {"paired_attrs": check_paired_attrs, "dominated_calls": check_dominated_calls, "method_body": check_guard_body}


def check_spec(repo, spec):
    for pin in getattr(spec, "SOURCE_PINS", []):
        KINDS[pin["kind"]](repo, pin)


def check_truthy(repo, common, used=None):
    classes = {}
    for rel, tree in _modules(repo):
        for n in ast.walk(tree):
            if isinstance(n, ast.ClassDef):
                classes.setdefault(n.name, []).append((rel, [ast.unparse(b).split(".")[-1] for b in n.bases],
                                                       {m.name for m in n.body if isinstance(m, (ast.FunctionDef, ast.AsyncFunctionDef))}
                                                       | {t.id for m in n.body if isinstance(m, ast.Assign) for t in m.targets if isinstance(t, ast.Name)}))
    mapped = {}
    for py, opq in getattr(common, "PYTYPES", {}).items():
        if opq in common.OPAQUE and common.OPAQUE[opq].get("always_truthy") and (used is None or opq in used):
            mapped.setdefault(opq, set()).add(py)
    for opq, sp in common.OPAQUE.items():
        if sp.get("always_truthy") and (used is None or opq in used):
            mapped.setdefault(opq, set()).update(sp.get("py_classes", []))
    for opq, pys in mapped.items():
        todo, seen = [p for p in pys if p in classes], set()
        while todo:
            c = todo.pop()
            if c in seen:
                continue
            seen.add(c)
            for rel, bases, names in classes[c]:
                bad = names & {"__bool__", "__len__"}
                if bad:
                    raise PinFail("%s: class %s defines %s: objects typed `%s` (always truthy in the specs) may be falsy" % (rel, c, ", ".join(sorted(bad)), opq))
                todo += [b for b in bases if b in classes]
            todo += [d for d, defs in classes.items() if any(c in bs for _r, bs, _n in defs)]


if __name__ == "__main__":
    import sys

    sys.path.insert(0, str(pathlib.Path(__file__).resolve().parent))
    import gen_fn

    repo = sys.argv[1] if len(sys.argv) > 1 else "/repo"
    common, specs = gen_fn.load_specs()
    try:
        check_truthy(repo, common)
        for sp in specs:
            check_spec(repo, sp)
    except PinFail as e:
        print("PIN FAILED:", e)
        sys.exit(1)
    print("pins ok")
