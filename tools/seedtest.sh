#!/bin/bash
# usage: tools/seedtest.sh <PROP> <seed-dir-with patch.diff/demo.py> <name> [test files...]
# (the one IPv6-only test that fails on the unchanged source inside a private network namespace is deselected)
# Confirms a seeded defect in a scratch copy of /repo (never touches /repo), runs the property's quick check
# against it, and files it under seeded/<name>/.
set -u
PROP=$1; SRC=$2; NAME=$3; shift 3
TESTS="$@"
W=$(mktemp -d /tmp/seedrun.XXXXXX)
mkdir -p $W/repo && cp -r /repo/src /repo/tests /repo/pyproject.toml $W/repo/ 2>/dev/null
cp /repo/setup.cfg /repo/conftest.py $W/repo/ 2>/dev/null
cd $W/repo && git init -q . && git add -A >/dev/null 2>&1 && git -c user.email=x@x -c user.name=x commit -qm base >/dev/null
clean_demo=$(cd $W && PYTHONPATH=$W/repo/src PYTHONDONTWRITEBYTECODE=1 timeout 120 /venv/bin/python $SRC/demo.py > $W/demo_clean.out 2>&1; echo $?)
cd $W/repo && git apply $SRC/patch.diff || { echo "PATCH DOES NOT APPLY"; rm -rf $W; exit 3; }
patched_demo=$(cd $W && PYTHONPATH=$W/repo/src PYTHONDONTWRITEBYTECODE=1 timeout 120 /venv/bin/python $SRC/demo.py > $W/demo_patched.out 2>&1; echo $?)
tests_rc=skipped
if [ -n "$TESTS" ]; then
  tests_rc=$(cd $W/repo && unshare -n bash -c "ip link set lo up; ip route add 224.0.0.0/4 dev lo; PYTHONPATH=$W/repo/src timeout 900 /venv/bin/python -m pytest -q -p no:cacheprovider --timeout=300 --deselect tests/services/test_types.py::test_integration_with_listener_ipv6 $TESTS" > $W/tests.out 2>&1; echo $?)
fi
cd ${VERIF_HOME:-/verif}
out=$(VERIF_REPO=$W/repo ./check $PROP quick 2>&1)
rc=$?
echo "$out" | grep -E "^\[T\]|^\[P\]|^\[C\]|^\[O\]|VIOLATION|exit" | cut -c1-230
vline=$(echo "$out" | grep "^VIOLATION" | head -1)
replay=$(echo "$vline" | sed -n 's/.*replay=\([^ ]*\).*/\1/p')
sig=""
[ -n "$replay" ] && sig=$(python3 -c "import json,sys; b=json.load(open('$replay')); print((b.get('sig') or b.get('stage') or '') + ' | ' + str(b.get('what') or b.get('broken'))[:200])")
mkdir -p seeded/$NAME
cp $SRC/patch.diff $SRC/demo.py seeded/$NAME/
[ -f $SRC/notes.md ] && cp $SRC/notes.md seeded/$NAME/
python3 - "$PROP" "$NAME" "$clean_demo" "$patched_demo" "$tests_rc" "$rc" "$vline" "$sig" "$TESTS" <<'PY'
import json, sys
prop, name, cd, pd, trc, rc, vline, sig, tests = sys.argv[1:10]
conf = {"demo_exit_clean": int(cd), "demo_exit_patched": int(pd), "tests_run": tests, "tests_exit_patched": trc}
try:  # a re-run without test files keeps the record of the first confirmation
    prev = json.load(open("seeded/%s/meta.json" % name)).get("confirmed", {})
    if trc == "skipped" and prev.get("tests_exit_patched") not in (None, "skipped"):
        conf["tests_run"], conf["tests_exit_patched"] = prev["tests_run"], prev["tests_exit_patched"]
        conf["tests_note"] = "test files run when the seed was first confirmed (the later re-run only repeated demo and check)"
except (OSError, ValueError):
    pass
meta = {"property": prop, "name": name,
        "confirmed": conf,
        "what_i_ran": "scratch copy of /repo HEAD; demo.py on the clean copy and on the patched copy; the listed test files on the patched copy inside a private network namespace; VERIF_REPO=<patched copy> ./check %s quick" % prop,
        "check": {"exit": int(rc), "violation_line": vline, "replay_summary": sig},
        "detected": int(rc) == 1}
json.dump(meta, open("seeded/%s/meta.json" % name, "w"), indent=1)
print("demo clean=%s patched=%s tests=%s check_exit=%s detected=%s" % (cd, pd, trc, rc, int(rc) == 1))
PY
rm -rf $W
# the generated files now describe the patched copy: put the committed ones (generated from /repo) back
git -C "${VERIF_HOME:-/verif}" checkout -- lean/Zc/Gen lean/Zc/GenFn 2>/dev/null
# ... and a Gen module that exists only for the patched copy must not stay behind untracked
git -C "${VERIF_HOME:-/verif}" clean -fdq lean/Zc/Gen lean/Zc/GenFn 2>/dev/null
