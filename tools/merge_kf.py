#!/usr/bin/env python3
"""union of known_findings.json entries from HEAD and a branch (merge helper)"""
import json, subprocess, sys
br = sys.argv[1]
ours = json.loads(subprocess.check_output(['git', 'show', 'HEAD:known_findings.json']))
theirs = json.loads(subprocess.check_output(['git', 'show', br + ':known_findings.json']))
seen = {(e['property'], e['sig'], e['kind']) for e in ours['entries']}
for e in theirs['entries']:
    if (e['property'], e['sig'], e['kind']) not in seen:
        ours['entries'].append(e)
json.dump(ours, open('known_findings.json', 'w'), indent=1)
print(len(ours['entries']), 'entries')
