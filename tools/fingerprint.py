#!/venv/bin/python
"""Per-function fingerprints of the library source (DESIGN §2.1, "source drift").

    tools/fingerprint.py [repo]            print the drift of <repo> against tools/fingerprints.json
    tools/fingerprint.py --write [repo]    rewrite the baseline from <repo>

A fingerprint is the sha1 of `ast.dump` of one function/method (docstrings and positions removed), or of the
module-level statements that are not function/class definitions.  The baseline is the tree the hand-written models
were last validated against.  Drift is *not* a verdict: `check` uses it only to widen the correspondence and oracle
search (a tree that differs from the validated one is searched harder), and records it in the evidence.
"""
import ast
import hashlib
import json
import pathlib
import sys

sys.path.insert(0, str(pathlib.Path(__file__).resolve().parent))

ROOT = pathlib.Path(__file__).resolve().parent.parent
BASE = ROOT / "tools" / "fingerprints.json"


def _strip_doc(node):
    body = getattr(node, "body", None)
    if isinstance(body, list) and body and isinstance(body[0], ast.Expr) and isinstance(getattr(body[0], "value", None), ast.Constant) \
            and isinstance(body[0].value.value, str):
        node.body = body[1:] or [ast.Pass()]


def _h(nodes):
    return hashlib.sha1("\n".join(ast.dump(n, annotate_fields=True, include_attributes=False) for n in nodes).encode()).hexdigest()[:16]


def fingerprints(repo):
    out = {}
    src = pathlib.Path(repo) / "src" / "zeroconf"
    for p in sorted(src.rglob("*.py")):
        rel = str(p.relative_to(src))
        try:
            tree = ast.parse(p.read_text())
        except (SyntaxError, UnicodeDecodeError, OSError) as ex:
            out[rel + "::<unparsable>"] = hashlib.sha1(repr(ex).encode()).hexdigest()[:16]
            continue
        try:  # renames of local variables are not drift (tools/alpha.py)
            import alpha

            alpha.normalise(tree, rel)
        except ImportError:
            pass
        for n in ast.walk(tree):
            _strip_doc(n)

        def visit(body, prefix):
            rest = []
            for n in body:
                if isinstance(n, (ast.FunctionDef, ast.AsyncFunctionDef)):
                    out["%s::%s%s" % (rel, prefix, n.name)] = _h([n])
                elif isinstance(n, ast.ClassDef):
                    visit(n.body, prefix + n.name + ".")
                    rest.append(ast.Expr(ast.Constant("class %s(%s)" % (n.name, ",".join(ast.dump(b) for b in n.bases)))))
                else:
                    rest.append(n)
            out["%s::%s<body>" % (rel, prefix)] = _h(rest)

        visit(tree.body, "")
    return out


def drift(repo):
    """sorted list of 'file::qualname' whose fingerprint differs from / is missing in / is new against the baseline;
    None when there is no baseline"""
    if not BASE.exists():
        return None
    base = json.loads(BASE.read_text())["functions"]
    cur = fingerprints(repo)
    return sorted(k for k in set(base) | set(cur) if base.get(k) != cur.get(k))


if __name__ == "__main__":
    args = [a for a in sys.argv[1:] if not a.startswith("--")]
    repo = args[0] if args else "/repo"
    if "--write" in sys.argv:
        fp = fingerprints(repo)
        BASE.write_text(json.dumps({"comment": "per-function fingerprints of the tree the models were validated against "
                                               "(tools/fingerprint.py --write); drift only widens the search",
                                    "functions": fp}, indent=0, sort_keys=True))
        print("%d fingerprints written" % len(fp))
        import alpha

        print("%d baseline functions written" % alpha.write(repo))
    else:
        d = drift(repo)
        print("no baseline" if d is None else ("no drift" if not d else "\n".join(d)))
