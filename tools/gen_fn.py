#!/usr/bin/env python3
"""gen_fn.py -- statement-level translation of whole Python function bodies of /repo/src/zeroconf into
Lean 4 `do`-notation (lean/Zc/GenFn/<Area>.lean).

Like gen_lean.py it only *parses* the working tree (python `ast`), never imports or executes it, and it fails
closed: a statement, expression, type or aliasing pattern outside the subset below is a translation failure
("translation broke at <file>:<line>: ...", exit status 3) -- never a guess.

The translation is typed and driven by specs (tools/fnspecs/<area>.py): every class lists its fields with
types, every function its parameter and return types; locals are inferred.  Type language:
  Num (Int: milliseconds / plain ints)  Nat  Bool  Str  Bytes  None
  Optional[T]  List[T]  Dict[K, V]  Set[T]  Tuple[A, B, ...]
  <spec'd class> (-> Lean structure)    <opaque model type> (Rec, Question, Svc: attributes/methods mapped in
  tools/fnspecs/_common.py to existing Lean definitions)

Semantics kept explicit:
  * mutation: a parameter (incl. `self`) that is mutated becomes `let mut p := p` and is returned next to the
    result; a local that aliases a sub-container (`names = index[key]`) is tracked as an lvalue path and written back
    after every mutating statement; an alias whose base is changed by another route is dead (any later use fails).
  * raise sites: `d[k]`, `del d[k]`, `l.remove(x)`, `s.remove(x)`, `assert`, `raise`, attribute reads that exist only
    on a subclass -- each is an `Except PyExc` action of lean/Zc/Py/Runtime.lean.  A function with no raise site is a
    pure definition (`Id.run do`).
  * truthiness by type; `x is None` tests become `let some x := x | ...` / `match`.
Usage: gen_fn.py [--repo /repo] [--out lean/Zc/GenFn]
"""
from __future__ import annotations

import argparse
import ast
import importlib.util
import pathlib
import sys

HERE = pathlib.Path(__file__).resolve().parent
ROOT = HERE.parent
sys.path.insert(0, str(HERE))

import gen_lean  # noqa: E402
from gen_lean import Fail, Tr  # noqa: E402

# --------------------------------------------------------------------------------------
# types


class T:
    """a type of the translated subset"""

    __slots__ = ("k", "a")

    def __init__(self, k, *a):
        self.k, self.a = k, tuple(a)

    def __eq__(self, o):
        return isinstance(o, T) and self.k == o.k and self.a == o.a

    def __hash__(self):
        return hash((self.k, self.a))

    def __repr__(self):
        if self.k in ("Class", "Opaque", "Ref"):
            return self.a[0]
        if not self.a:
            return self.k
        return "%s[%s]" % (self.k, ", ".join(map(repr, self.a)))


NUM, NAT, BOOL, STR, BYTES, NONE = T("Num"), T("Nat"), T("Bool"), T("Str"), T("Bytes"), T("None")
PRIMS = {"Num": NUM, "Nat": NAT, "Bool": BOOL, "Str": STR, "Bytes": BYTES, "None": NONE}
IMMUTABLE = ("Num", "Nat", "Bool", "Str", "Bytes", "None")


def parse_ty(s, classes, opaque):
    s = s.strip()
    node = ast.parse(s, mode="eval").body

    def go(n):
        if isinstance(n, ast.Name):
            if n.id in PRIMS:
                return PRIMS[n.id]
            if n.id.startswith("Frac") and n.id[4:].isdigit():
                return T("Frac", int(n.id[4:]))
            if n.id in classes:
                return T("Ref", n.id) if classes[n.id].get("identity") else T("Class", n.id)
            if n.id in opaque:
                return T("Opaque", n.id)
            raise Fail("unknown type %s in spec" % n.id)
        if isinstance(n, ast.Constant) and n.value is None:
            return NONE
        if isinstance(n, ast.Subscript) and isinstance(n.value, ast.Name):
            args = n.slice.elts if isinstance(n.slice, ast.Tuple) else [n.slice]
            args = [go(a) for a in args]
            h = n.value.id
            if h == "ByValue" and len(args) == 1 and args[0].k == "Ref":
                return T("Class", args[0].a[0])  # an object of an identity class itself (inside its own methods, in the store)
            if h == "Optional" and len(args) == 1:
                return T("Opt", args[0])
            if h == "List" and len(args) == 1:
                return T("List", args[0])
            if h == "Set" and len(args) == 1:
                return T("Set", args[0])
            if h == "Dict" and len(args) == 2:
                return T("Dict", *args)
            if h == "Tuple" and len(args) >= 2:
                return T("Tuple", *args)
        raise Fail("bad type in spec: " + s)

    return go(node)


IMMUTABLE_OPAQUE = set()  # opaque types declared `"immutable": True` in the spec (stateless handles)


def is_mutable_ty(t):
    """can an object of this type be changed in place (so that aliases matter)?"""
    if t.k == "Opaque" and t.a[0] in IMMUTABLE_OPAQUE:
        return False
    return t.k in ("List", "Dict", "Set", "Class", "Opaque")


# --------------------------------------------------------------------------------------
# lvalue paths


class Path:
    """root variable + steps; a step is ("f", field, lean_field) or ("k", lean key text, key eq text)"""

    __slots__ = ("root", "steps")

    def __init__(self, root, steps=()):
        self.root, self.steps = root, tuple(steps)

    def extend(self, step):
        return Path(self.root, self.steps + (step,))

    def overlaps(self, o):
        if self.root != o.root:
            return False
        for a, b in zip(self.steps, o.steps):
            if a[0] == "f" and b[0] == "f" and a[1] != b[1]:
                return False
            if a[0] != b[0]:
                return True  # cannot happen for well-typed paths; be conservative
        return True

    def __repr__(self):
        return self.root + "".join("." + s[1] if s[0] == "f" else "[%s]" % s[1] for s in self.steps)

    def key_names(self):
        out = set()
        for s in self.steps:
            if s[0] in ("k", "i"):
                out |= set(s[3])
        return out


class Val:
    """a translated expression: Lean text, type, the lvalue path it denotes (if any), may it raise"""

    __slots__ = ("text", "ty", "path", "raises", "fresh", "view")

    def __init__(self, text, ty, path=None, raises=False, fresh=False, view=False):
        self.text, self.ty, self.path, self.raises = text, ty, path, raises
        self.fresh = fresh  # a newly built object (literal, comprehension, copy, constructor): nobody else holds it
        self.view = view    # a live dict view (`d.keys()`): may only be iterated at once


class Var:
    __slots__ = ("name", "ty", "aliases", "dead", "reassigned", "token", "is_param", "narrowed", "loopvar", "reads", "untracked")

    def __init__(self, name, ty, token=None, is_param=False):
        self.name, self.ty, self.token, self.is_param = name, ty, token, is_param
        self.aliases = []  # paths this variable's object is also reachable through
        self.dead = None  # reason, when the Lean value may be stale
        self.reassigned = False
        self.narrowed = False
        self.loopvar = False
        self.reads = 0
        self.untracked = None  # reason: the variable holds an object that is also reachable elsewhere, by a route the translator does not track


class FnInfo:
    """what a call site needs to know about a translated function"""

    def __init__(self, lean, params, ret, has_self, cls):
        self.lean, self.params, self.ret, self.has_self, self.cls = lean, params, ret, has_self, cls
        self.mutated = []  # parameter names returned next to the result
        self.effects = False  # returns the list of effects it caused (spec EFFECTS) as its last component
        self.monadic = False
        self.uses_lower = False


LEAN_KEYWORDS = {"from", "at", "end", "fun", "in", "let", "do", "then", "else", "if", "match", "with", "open", "type", "where",
                 "have", "show", "by", "def", "theorem", "instance", "structure", "class", "for", "return", "mut", "namespace",
                 "section", "variable", "import", "lower", "this", "some", "none", "true", "false", "Type", "Prop", "Sort", "matches", "nomatch",
                 "nofun", "try", "catch", "finally", "unless", "break", "continue", "suffices", "calc", "private", "protected", "partial",
                 "unsafe", "mutual", "macro", "syntax", "notation", "deriving", "extends", "export", "universe", "attribute", "local",
                 "scoped", "noncomputable", "example", "abbrev", "axiom", "inductive", "opaque", "using", "throw", "pure", "bind", "id",
                 "self_", "L", "Zc", "Py"}


def balanced(t):
    d = 0
    for ch in t:
        if ch in "([{":
            d += 1
        elif ch in ")]}":
            d -= 1
            if d < 0:
                return False
    return d == 0


def strip_outer(t):
    """drop one pair of parentheses around the whole text"""
    if t.startswith("(") and t.endswith(")") and not t.startswith("(←") and balanced(t[1:-1]):
        return t[1:-1]
    return t


def atom(t):
    """the text as a function argument"""
    if " " not in t or ((t[0] + t[-1]) in ("()", "[]", "{}") and balanced(t[1:-1])) or (t.startswith('"') and t.endswith('"') and t.count('"') == 2):
        return t
    return "(%s)" % t


def names_in(node):
    """the variables an expression mentions (an alias whose key text mentions a variable dies when that variable changes)"""
    return frozenset(n.id for n in ast.walk(node) if isinstance(n, ast.Name))


def neg(t):
    """Lean text of the negation of the Bool text t"""
    if t.startswith("(!") and t.endswith(")"):
        inner = t[2:-1]
        depth = 0
        ok = True
        for ch in inner:
            if ch == "(":
                depth += 1
            elif ch == ")":
                depth -= 1
                if depth < 0:
                    ok = False
                    break
        if ok and depth == 0:
            return inner
    if t == "true":
        return "false"
    if t == "false":
        return "true"
    return "(!%s)" % t


def lean_local(name):
    if name in LEAN_KEYWORDS:
        return name + "'"
    return name


# --------------------------------------------------------------------------------------
# area context


class Area:
    def __init__(self, spec, common, tree, consts, rel):
        self.spec, self.common, self.tree, self.consts, self.rel = spec, common, tree, consts, rel
        self.opaque = common.OPAQUE
        IMMUTABLE_OPAQUE.update(k for k, v in common.OPAQUE.items() if v.get("immutable"))
        self.classes = {c["py"]: c for c in spec.CLASSES}
        self.fields = {}  # class -> {pyfield: (leanfield, T)}
        for c in spec.CLASSES:
            fs = {}
            seen = set()
            for fname, fty in c["fields"]:
                lf = fname.lstrip("_")
                if lf in seen or lf in LEAN_KEYWORDS:
                    raise Fail("class %s: field name %s collides after stripping underscores" % (c["py"], fname))
                seen.add(lf)
                fs[fname] = (lf, self.ty(fty))
            self.fields[c["py"]] = fs
        for c in spec.CLASSES:
            if c.get("identity"):
                owner = c["identity"]["owner"]
                if "store" in [v[0] for v in self.fields[owner].values()]:
                    raise Fail("class %s already has a field called store" % owner)
                self.fields[owner]["⟨store⟩"] = ("store", T("Store", c["py"]))
        self.inits = {}  # class -> [(param, type)] of its translated __init__
        self.fns = {}  # key: (cls or None, pyname) -> FnInfo
        self.pytypes = dict(common.PYTYPES)
        self.pytypes.update(getattr(spec, "PYTYPES", {}))
        self.exc = dict(common.EXCEPTIONS)

    def ty(self, s):
        return parse_ty(s, {k: v for k, v in self.classes.items() if not v.get("opaque")}, self.opaque)

    def deref(self, fx, v, node):
        """Lean text of the object behind the id `v` (type Ref): a raise site"""
        owner, lf = self.store_of(v.ty.a[0])
        if fx.cls != owner:
            fx.fail("an object of the identity class %s is used outside the methods of its owner %s" % (v.ty.a[0], owner), node)
        fx.read_var("self", node)
        fx.monadic()
        return "(← PyStore.get self.%s %s)" % (lf, v.text)

    def cls_lean(self, cls):
        """Lean name of the structure of a spec'd class"""
        return self.classes[cls].get("lean") or cls.lstrip("_")

    def store_of(self, cls):
        """(owner class, lean field) of the store in which the objects of the identity class `cls` live"""
        return self.classes[cls]["identity"]["owner"], "store"

    def self_ty(self, cls):
        """the type of `self` in the methods of a spec'd class: its structure, or the opaque model type that stands for it"""
        c = self.classes[cls]
        return T("Opaque", c["opaque"]) if c.get("opaque") else T("Class", cls)

    def lean_ty(self, t):
        k = t.k
        if k == "Num":
            return "Int"
        if k == "Nat":
            return "Nat"
        if k == "Bool":
            return "Bool"
        if k == "Str":
            return "String"
        if k == "Bytes":
            return "Bytes"
        if k == "None":
            return "Unit"
        if k == "Opt":
            return "(Option %s)" % self.lean_ty(t.a[0])
        if k == "List":
            return "(List %s)" % self.lean_ty(t.a[0])
        if k == "Set":
            return "(PySet %s)" % self.lean_ty(t.a[0])
        if k == "Dict":
            return "(PyDict %s %s)" % (self.lean_ty(t.a[0]), self.lean_ty(t.a[1]))
        if k == "Tuple":
            return "(" + " × ".join(self.lean_ty(x) for x in t.a) + ")"
        if k == "Class":
            return self.cls_lean(t.a[0])
        if k == "Ref":
            return "Nat"
        if k == "Opaque":
            return self.opaque[t.a[0]]["lean"]
        if k == "Frac":
            return "Int"
        if k == "Store":
            return "(PyStore %s)" % self.cls_lean(t.a[0])
        raise Fail("no Lean type for %r" % t)

    def eq_of(self, t, fx=None):
        """the Lean key equality for values of type t"""
        if t.k == "Str":
            return "strEq"
        if t.k in ("Num", "Nat", "Bool"):
            return "(fun a b => decide (a = b))"
        if t.k == "Opaque":
            e = self.opaque[t.a[0]].get("eq")
            if e is None:
                raise Fail("type %r has no spec'd equality" % t)
            if "lower" in e and fx is not None:
                fx.info.uses_lower = True
            return e
        raise Fail("no key equality for type %r" % t)

    def annot_ty(self, n):
        """a Python annotation -> type (names through the spec's PYTYPES table)"""
        if isinstance(n, ast.Name):
            if n.id in self.pytypes:
                return self.ty(self.pytypes[n.id])
            raise Fail("annotation %s is not in the spec's PYTYPES" % n.id, n)
        if isinstance(n, ast.Subscript) and isinstance(n.value, ast.Name):
            args = n.slice.elts if isinstance(n.slice, ast.Tuple) else [n.slice]
            args = [self.annot_ty(a) for a in args]
            h = n.value.id
            if h == "Optional":
                return T("Opt", args[0])
            if h in ("List", "Iterable"):
                return T("List", args[0])
            if h == "Set":
                return T("Set", args[0])
            if h == "Dict":
                return T("Dict", *args)
            if h == "Tuple":
                return T("Tuple", *args)
        raise Fail("unsupported annotation: " + ast.unparse(n), n)


# --------------------------------------------------------------------------------------
# numeric sub-expressions: gen_lean.Tr with leaves translated by the typed translator


class FnTr(Tr):
    def __init__(self, fx):
        super().__init__(fx.area.consts, {}, nat=False, file=fx.area.rel)
        self.fx = fx

    def num(self, e):
        if isinstance(e, ast.Name) and e.id in self.env and self.fx.lookup(e.id) is None:
            return super().num(e)
        if isinstance(e, (ast.IfExp, ast.BoolOp)):
            self.guard += 1
            try:
                return super().num(e)
            finally:
                self.guard -= 1
        if isinstance(e, ast.Call) and isinstance(e.func, ast.Name) and e.func.id in getattr(self.fx.area.spec, "NUMFUNCS", {}) and len(e.args) == 1:
            kind, k = self.fx.area.spec.NUMFUNCS[e.func.id]
            n, d = self.num(e.args[0])
            if kind != "div":
                self.fail("unknown numeric helper kind", e)
            return n, d * k
        is_cast = isinstance(e, ast.Call) and isinstance(e.func, ast.Name) and e.func.id in ("int", "float", "_int", "_float", "min", "max")
        if isinstance(e, (ast.Name, ast.Attribute, ast.Subscript)) or (isinstance(e, ast.Call) and not is_cast):
            v = self.fx.expr(e)
            if v.raises and self.guard > 0:
                self.fx.raising_subexpr(e)
            if v.ty == NUM:
                return v.text, 1
            if v.ty == NAT:
                return "(%s : Int)" % v.text, 1
            if v.ty.k == "Frac":
                return v.text, v.ty.a[0]
            self.fail("expected a number, found %r: %s" % (v.ty, ast.unparse(e)), e)
        return super().num(e)

    def boolean(self, e):
        return self.fx.cond(e)

    guard = 0


# --------------------------------------------------------------------------------------
# one function


class Fx:
    def __init__(self, area, info, fn, spec, cls):
        self.area, self.info, self.fn, self.spec, self.cls = area, info, fn, spec, cls
        self.scopes = [{}]
        self.lines = []
        self.ind = 1
        self.tmp = 0
        self.tokens = {}  # token -> Var
        self.ret = info.ret
        self.params = []
        self.loop_depth = 0
        self.local_types = {k: area.ty(v) for k, v in spec.get("locals", {}).items()}
        self.env_calls = {e[0]: [area.ty(e[1]), False] for e in spec.get("env", []) if len(e) == 2}
        # environment *functions* (`RAND_INT(lo, hi)`): a parameter of function type, applied to the translated arguments
        self.env_fns = {e[0]: ([area.ty(t) for t in e[2]], area.ty(e[1])) for e in spec.get("env", []) if len(e) == 3}
        self.env_used = set()
        # an explicit spec assumption (stated in the generated docstring): the consumer of the result does not depend on the order in
        # which a `set` is iterated, so the runtime's insertion order stands for CPython's hash order
        if spec.get("set_order") == "insertion":
            self.set_order_ok = 1
        self.reads_log = []  # stack of sets (variables read inside the loops being translated)
        self.kill_log = []

    # ---- plumbing
    def fail(self, msg, node=None):
        raise Fail("%s: %s" % (self.info.lean, msg), node, self.area.rel)

    def emit(self, s):
        self.lines.append("  " * self.ind + s)

    def fresh(self, base):
        self.tmp += 1
        return "%s_%d" % (base, self.tmp)

    def lookup(self, name):
        for sc in reversed(self.scopes):
            if name in sc:
                return sc[name]
        return None

    def declare(self, name, ty, is_param=False):
        tok = "⟪%s#%d⟫" % (name, len(self.tokens))
        v = Var(name, ty, tok, is_param)
        self.tokens[tok] = v
        self.scopes[-1][name] = v
        return v

    def all_vars(self):
        seen = {}
        for sc in self.scopes:
            for k, v in sc.items():
                seen[k] = v
        return seen.values()

    def monadic(self):
        self.info.monadic = True

    def raising_subexpr(self, node):
        """a raising sub-expression in a position whose evaluation Lean's `(← …)` lifting would reorder"""
        self.fail("a raising sub-expression under a short-circuit / conditional / numeric operator is outside the subset: " + ast.unparse(node), node)

    # ---- reading variables
    def read_var(self, name, node):
        v = self.lookup(name)
        if v is None:
            return None
        if v.dead:
            self.fail("variable %s is used after the object it aliases was changed by another route (%s)" % (name, v.dead), node)
        v.reads += 1
        for s in self.reads_log:
            s.add(v)
        return v

    # ---- expressions
    def expr(self, e, want=None):
        cache = self.__dict__.setdefault("_once", {})
        key = (id(e), repr(want))
        if key in cache:
            return cache[key]
        if any(k[0] == id(e) for k in cache):
            self.fail("an operand with effects would be evaluated twice: " + ast.unparse(e), e)
        n0 = len(self.lines)
        v = self.coerce(self.expr0(e, want), want, e)
        if len(self.lines) != n0:
            cache[key] = v  # it emitted statements (a call, popleft, …): a second translation must reuse the bound result
            self.__dict__.setdefault("_once_keep", []).append(e)  # keep the node alive: ids must not be reused
        return v

    def coerce(self, v, want, node):
        if want is None or v.ty == want:
            return v
        if want == NUM and v.ty.k == "Frac" and self.spec.get("floor_frac_args"):
            # a float that the spec declares integral where it is stored (see the spec's comment): its floor
            return Val("(Int.fdiv %s %d)" % (v.text, v.ty.a[0]), NUM, None, v.raises)
        if want.k == "Frac" and v.ty in (NUM, NAT):
            return Val("(%s * %d)" % (v.text, want.a[0]), want, None, v.raises)
        if want.k == "Opt" and v.ty == want.a[0]:
            return Val("(some %s)" % v.text, want, None, v.raises)
        if want == NUM and v.ty == NAT:
            return Val("(%s : Int)" % v.text, NUM, None, v.raises)
        self.fail("type mismatch: expected %r, found %r in `%s`" % (want, v.ty, ast.unparse(node)), node)

    def empty_of(self, t, node):
        if t.k == "List":
            return "[]"
        if t.k == "Dict":
            return "PyDict.empty"
        if t.k == "Set":
            return "PySet.empty"
        self.fail("no empty literal of type %r" % t, node)

    def expr0(self, e, want=None):
        A = self.area
        if isinstance(e, ast.Constant):
            c = e.value
            if c is None:
                if want is not None and want.k == "Opt":
                    return Val("none", want)
                if want == NONE or want is None:
                    return Val("()", NONE)
                self.fail("None where %r is expected" % want, e)
            if isinstance(c, bool):
                return Val("true" if c else "false", BOOL)
            if isinstance(c, float) and c == int(c):
                c = int(c)
            if isinstance(c, int):
                if want == NAT and c >= 0:
                    return Val(str(c), NAT)
                return Val(str(c) if c >= 0 else "(%d)" % c, NUM)
            if isinstance(c, str):
                return Val(gen_lean.lean_str(c), STR)
            self.fail("unsupported constant %r" % (c,), e)
        if isinstance(e, ast.Name):
            v = self.read_var(e.id, e)
            if v is not None:
                p = Path(e.id) if is_mutable_ty(v.ty) else None
                return Val(lean_local(e.id), v.ty, p)
            if e.id in A.consts and isinstance(A.consts[e.id], float) and want is not None and want.k == "Frac":
                n = A.consts[e.id] * want.a[0]
                if abs(n - round(n)) > 1e-9:
                    self.fail("constant %s is not a multiple of 1/%d" % (e.id, want.a[0]), e)
                return Val(str(int(round(n))), want)
            if e.id in A.consts and isinstance(A.consts[e.id], (int, float)) and not isinstance(A.consts[e.id], bool):
                c = A.consts[e.id]
                if isinstance(c, float):
                    if c != int(c):
                        self.fail("non-integral constant " + e.id, e)
                    c = int(c)
                if want == NAT and c >= 0:
                    return Val(str(c), NAT)
                return Val(str(c) if c >= 0 else "(%d)" % c, NUM)
            if isinstance(A.consts.get(e.id), tuple) and len(A.consts[e.id]) >= 2 and all(isinstance(x, int) and not isinstance(x, bool) for x in A.consts[e.id]):
                # a module-level tuple of integers (`_TC_DELAY_RANDOM_INTERVAL`): its value as evaluated from the source
                tup = A.consts[e.id]
                return Val("(" + ", ".join(str(c) if c >= 0 else "(%d)" % c for c in tup) + ")", T("Tuple", *[NUM for _ in tup]))
            self.fail("unknown name " + e.id, e)
        if isinstance(e, (ast.List, ast.Dict, ast.Set)) and not (e.elts if not isinstance(e, ast.Dict) else e.keys):
            if want is None:
                self.fail("cannot infer the type of an empty literal (annotate it or give `locals` in the spec)", e)
            t = want.a[0] if want.k == "Opt" else want
            if (isinstance(e, ast.List) and t.k != "List") or (isinstance(e, ast.Dict) and t.k not in ("Dict",)) or isinstance(e, ast.Set):
                self.fail("empty literal %s where %r is expected" % (ast.unparse(e), want), e)
            return Val(self.empty_of(t, e), t, fresh=True)
        if isinstance(e, ast.List):
            if want is not None and want.k != "List":
                self.fail("list literal where %r is expected" % want, e)
            et = want.a[0] if want is not None else None
            vs = [self.expr(x, et) for x in e.elts]
            et = et or vs[0].ty
            if any(v.ty != et for v in vs):
                self.fail("list literal with mixed element types", e)
            return Val("[" + ", ".join(v.text for v in vs) + "]", T("List", et), None, any(v.raises for v in vs), fresh=True)
        if isinstance(e, ast.Tuple):
            wants = want.a if (want is not None and want.k == "Tuple" and len(want.a) == len(e.elts)) else [None] * len(e.elts)
            vs = [self.expr(x, w) for x, w in zip(e.elts, wants)]
            if len(vs) < 2:
                self.fail("tuple of fewer than two elements", e)
            return Val("(" + ", ".join(v.text for v in vs) + ")", T("Tuple", *[v.ty for v in vs]), None, any(v.raises for v in vs))
        if isinstance(e, ast.Attribute):
            return self.attribute(e)
        if isinstance(e, ast.Subscript):
            if isinstance(e.slice, ast.Slice):
                self.fail("slices are outside the subset", e)
            if isinstance(e.value, ast.Name) and self.lookup(e.value.id) is None and isinstance(A.consts.get(e.value.id), tuple) \
                    and isinstance(e.slice, ast.Constant) and isinstance(e.slice.value, int):
                tup = A.consts[e.value.id]
                if not (-len(tup) <= e.slice.value < len(tup)) or not isinstance(tup[e.slice.value], int):
                    self.fail("subscript of the constant %s" % e.value.id, e)
                c = tup[e.slice.value]
                return Val(str(c) if c >= 0 else "(%d)" % c, NAT if (want == NAT and c >= 0) else NUM)
            base = self.expr(e.value)
            idx = e.slice.value if isinstance(e.slice, ast.Constant) else (-(e.slice.operand.value) if isinstance(e.slice, ast.UnaryOp) and isinstance(e.slice.op, ast.USub) and isinstance(e.slice.operand, ast.Constant) else None)
            if base.ty.k == "List" and idx in (0, -1):
                which = "first" if idx == 0 else "last"
                self.monadic()
                path = base.path.extend(("i", which, "", frozenset())) if base.path is not None else None
                return Val("(← PyList.%s %s)" % (which, base.text), base.ty.a[0], path, True)
            if base.ty.k == "Dict":
                k = self.expr(e.slice, base.ty.a[0])
                self.monadic()
                eq = A.eq_of(base.ty.a[0], self)
                path = base.path.extend(("k", k.text, eq, names_in(e.slice))) if base.path is not None and not k.raises else None
                return Val("(← PyDict.getItem %s %s %s)" % (eq, base.text, k.text), base.ty.a[1], path, True)
            self.fail("subscript on %r is outside the subset" % base.ty, e)
        if isinstance(e, ast.Call):
            return self.call(e, want)
        if isinstance(e, (ast.BoolOp, ast.Compare)) or (isinstance(e, ast.UnaryOp) and isinstance(e.op, ast.Not)):
            if isinstance(e, ast.BoolOp) and isinstance(e.op, ast.Or) and len(e.values) == 2:
                v = self.or_default(e, want)
                if v is not None:
                    return v
            return Val(self.cond(e), BOOL)
        if isinstance(e, ast.IfExp):
            st = self.static_cond(e.test)
            if st is not None:
                return self.expr0(e.body if st else e.orelse, want)
            c = self.cond(e.test)
            n0 = len(self.lines)
            a = self.expr(e.body, want)
            b = self.expr(e.orelse, want or a.ty)
            if a.raises or b.raises or len(self.lines) != n0:
                self.raising_subexpr(e)
            if a.ty != b.ty:
                a = self.coerce(a, b.ty, e) if b.ty.k == "Opt" else a
                b = self.coerce(b, a.ty, e)
            return Val("(if %s then %s else %s)" % (c, a.text, b.text), a.ty)
        if isinstance(e, ast.BinOp):
            if isinstance(e.op, ast.Sub):
                l = self.try_expr(e.left)
                if l is not None and l.ty.k == "Set":
                    r = self.expr(e.right, l.ty)
                    return Val("(PySet.diff %s %s %s)" % (A.eq_of(l.ty.a[0], self), l.text, r.text), l.ty, None, l.raises or r.raises, fresh=True)
            if isinstance(e.op, ast.Add):
                l = self.try_expr(e.left)
                if l is not None and l.ty.k == "List":
                    r = self.expr(e.right, l.ty)
                    return Val("(%s ++ %s)" % (l.text, r.text), l.ty, None, l.raises or r.raises, fresh=True)
            return self.numeric(e, want)
        if isinstance(e, ast.UnaryOp) and isinstance(e.op, ast.USub):
            return self.numeric(e, want)
        if isinstance(e, (ast.ListComp, ast.SetComp)):
            return self.comprehension(e, want)
        if isinstance(e, ast.DictComp):
            return self.dict_comprehension(e, want)
        self.fail("expression outside the subset: " + ast.unparse(e), e)

    def static_cond(self, e):
        """`isinstance(x, list)` & co. are decided by the spec type of x (a parameter of union type is translated once per
        variant); -> True / False / None (not static)"""
        if isinstance(e, ast.Name) and e.id == "TYPE_CHECKING" and self.lookup(e.id) is None:
            return False  # typing.TYPE_CHECKING is False at run time
        if isinstance(e, ast.Compare) and len(e.ops) == 1 and isinstance(e.ops[0], ast.Is) and isinstance(e.left, ast.Call) \
                and isinstance(e.left.func, ast.Name) and e.left.func.id == "type" and len(e.left.args) == 1 and isinstance(e.comparators[0], ast.Name):
            v = self.try_expr(e.left.args[0])
            if v is not None and v.ty.k in ("Class", "Ref"):
                return v.ty.a[0] == e.comparators[0].id  # the spec type is the exact class
            return None
        if isinstance(e, ast.Call) and isinstance(e.func, ast.Name) and e.func.id == "isinstance" and len(e.args) == 2 \
                and isinstance(e.args[1], ast.Name) and e.args[1].id == "float":
            v = self.try_expr(e.args[0])
            if v is not None and v.ty in (NAT,):
                return False  # a value the spec types as a natural number is an int
            return None
        if isinstance(e, ast.UnaryOp) and isinstance(e.op, ast.Not):
            st = self.static_cond(e.operand)
            return None if st is None else not st
        if isinstance(e, ast.Call) and isinstance(e.func, ast.Name) and e.func.id == "isinstance" and len(e.args) == 2 \
                and isinstance(e.args[1], ast.Name) and e.args[1].id in ("list", "dict", "set", "tuple"):
            v = self.try_expr(e.args[0])
            if v is None:
                return None
            return v.ty.k == {"list": "List", "dict": "Dict", "set": "Set", "tuple": "Tuple"}[e.args[1].id]
        return None

    def try_expr(self, e, want=None):
        """translate, or None when it is not typable this way; state changes are rolled back on failure"""
        snap = (list(self.lines), self.info.monadic, self.info.uses_lower, self.tmp)
        try:
            return self.expr(e, want)
        except Fail:
            self.lines, self.info.monadic, self.info.uses_lower, self.tmp = snap
            self.__dict__.get("_once", {}).clear()
            return None

    def numeric(self, e, want):
        n, d = FnTr(self).num(e)
        if want is not None and want.k == "Frac" and want.a[0] % d == 0:
            return Val(n if d == want.a[0] else "(%s * %d)" % (n, want.a[0] // d), want)
        if d != 1:
            if want is None:
                # python float division by a constant, carried exactly: the Lean value is the numerator over the denominator d
                return Val(n, T("Frac", d))
            self.fail("fractional value without a rounding rule: " + ast.unparse(e), e)
        return Val(n, NUM)

    def or_default(self, e, want):
        """`E or {}` / `E or []` with E : Optional[container]"""
        a, b = e.values
        if isinstance(b, (ast.Dict, ast.List)) and not (b.keys if isinstance(b, ast.Dict) else b.elts):
            av = self.try_expr(a)
            if av is not None and av.ty.k == "Opt" and av.ty.a[0].k in ("Dict", "List", "Set"):
                t = av.ty.a[0]
                if isinstance(b, ast.Dict) != (t.k == "Dict"):
                    self.fail("`or` default of the wrong container kind", e)
                return Val("(pyOrEmpty %s)" % av.text, t, None, av.raises)
        return None

    def unwrap(self, v, node):
        """attribute access on an Optional value: `None.x` raises AttributeError"""
        if v.ty.k == "Opt":
            self.monadic()
            return Val("(← pyUnwrap %s)" % v.text, v.ty.a[0], None, True)
        return v

    def attribute(self, e):
        A = self.area
        base = self.unwrap(self.expr(e.value), e)
        if base.ty.k == "Ref":
            fs = A.fields[base.ty.a[0]]
            if e.attr not in fs:
                self.fail("class %s has no spec'd field %s" % (base.ty.a[0], e.attr), e)
            lf, ft = fs[e.attr]
            return Val("%s.%s" % (A.deref(self, base, e), lf), ft, None, True)
        if base.ty.k == "Class":
            fs = A.fields[base.ty.a[0]]
            if e.attr not in fs:
                self.fail("class %s has no spec'd field %s" % (base.ty.a[0], e.attr), e)
            lf, ft = fs[e.attr]
            path = base.path.extend(("f", e.attr, lf)) if base.path is not None else None
            return Val("%s.%s" % (base.text, lf), ft, path, base.raises)
        if base.ty.k == "Opaque":
            sp = A.opaque[base.ty.a[0]]
            if e.attr not in sp["attrs"]:
                self.fail("opaque type %s has no mapped attribute %s" % (base.ty.a[0], e.attr), e)
            ent = sp["attrs"][e.attr]
            ty, tmpl = A.ty(ent[0]), ent[1]
            raises = len(ent) > 2 and ent[2] == "raises"
            if "lower" in tmpl:
                self.info.uses_lower = True
            if raises:
                self.monadic()
            return Val(tmpl.format(base.text), ty, None, base.raises or raises)
        self.fail("attribute %s of a value of type %r" % (e.attr, base.ty), e)

    # ---- iterables
    def iterable(self, e):
        """-> (lean list text, element type, path of the container iterated (None for a copy), raises)"""
        A = self.area
        if isinstance(e, ast.Call) and isinstance(e.func, ast.Name) and e.func.id == "list" and len(e.args) == 1 and not e.keywords:
            t, et, _p, r = self.iterable(e.args[0])
            return t, et, None, r
        if isinstance(e, ast.Call) and isinstance(e.func, ast.Name) and e.func.id == "reversed" and len(e.args) == 1 and not e.keywords:
            t, et, p, r = self.iterable(e.args[0])
            return "(List.reverse %s)" % t, et, p, r
        if isinstance(e, ast.Call) and isinstance(e.func, ast.Attribute) and e.func.attr in ("items", "values", "keys") and not e.args and not e.keywords:
            b = self.expr(e.func.value)
            if b.ty.k != "Dict":
                self.fail(".%s() on %r" % (e.func.attr, b.ty), e)
            if e.func.attr == "items":
                return "(PyDict.items %s)" % b.text, T("Tuple", b.ty.a[0], b.ty.a[1]), b.path, b.raises
            if e.func.attr == "values":
                return "(PyDict.values %s)" % b.text, b.ty.a[1], b.path, b.raises
            return "(PyDict.keys %s)" % b.text, b.ty.a[0], b.path, b.raises
        if (isinstance(e, ast.Call) and isinstance(e.func, ast.Attribute) and e.func.attr == "get" and len(e.args) == 2 and not e.keywords
                and isinstance(e.args[1], (ast.List, ast.Dict)) and not (e.args[1].elts if isinstance(e.args[1], ast.List) else e.args[1].keys)):
            # `d.get(k, [])` / `d.get(k, {})` iterated: the keys of the stored container, nothing when absent
            b = self.expr(e.func.value)
            if b.ty.k == "Dict" and b.ty.a[1].k in ("Dict", "List", "Set"):
                k = self.expr(e.args[0], b.ty.a[0])
                inner = b.ty.a[1]
                got = "(PyDict.getD %s %s %s %s)" % (A.eq_of(b.ty.a[0], self), b.text, k.text, self.empty_of(inner, e))
                p = b.path.extend(("k", k.text, "", names_in(e.args[0]))) if b.path is not None else None
                if inner.k == "Dict":
                    return "(PyDict.keys %s)" % got, inner.a[0], p, b.raises or k.raises
                return got, inner.a[0], p, b.raises or k.raises
        v = self.expr(e)
        if v.ty.k == "List":
            return v.text, v.ty.a[0], v.path, v.raises
        if v.ty.k == "Set":
            if not getattr(self, "set_order_ok", 0):
                self.fail("iteration over a set: CPython's order is hash order, the runtime's is insertion order (only len(), set(), membership "
                          "and effects taking the set as a whole are in the subset)", e)
            return "(PySet.toList %s)" % v.text, v.ty.a[0], v.path, v.raises
        if v.ty.k == "Dict":
            return "(PyDict.keys %s)" % v.text, v.ty.a[0], v.path, v.raises
        self.fail("cannot iterate over a value of type %r" % v.ty, e)

    def bind_target(self, tgt, ty, node):
        """a `for`/comprehension/unpacking target -> Lean pattern; declares the names in the current scope"""
        if isinstance(tgt, ast.Name):
            if tgt.id == "_":
                return "_"
            v = self.declare(tgt.id, ty)
            v.token = None
            v.loopvar = True
            return lean_local(tgt.id)
        if isinstance(tgt, ast.Tuple) and ty.k == "Tuple" and len(ty.a) == len(tgt.elts):
            return "(" + ", ".join(self.bind_target(x, t, node) for x, t in zip(tgt.elts, ty.a)) + ")"
        self.fail("unsupported binding target `%s` for a value of type %r" % (ast.unparse(tgt), ty), node)

    def dict_comprehension(self, e, want):
        """`{k: f(k, v) for k, v in d.items() if c}`: the key expression must be the key variable of one `.items()` iteration, so
        that no two items of the result share a key (a general dict comprehension overwrites: outside the subset)"""
        A = self.area
        if len(e.generators) != 1 or e.generators[0].is_async:
            self.fail("dict comprehension with several generators", e)
        g = e.generators[0]
        it = g.iter
        if isinstance(g.target, ast.Name) and isinstance(e.key, ast.Name) and e.key.id == g.target.id and not g.ifs:
            # `{r: f(r) for r in s}` over a set (its elements are distinct, so are the keys of the result); `f(r)` may raise
            # (`d[r]`): a monadic map, left to right
            src, et, _p, raises = self.iterable(it)
            srcv = self.expr(it)
            if srcv.ty.k != "Set":
                self.fail("dict comprehension `{k: … for k in xs}` over something that is not a set (keys could repeat)", e)
            self.scopes.append({})
            try:
                pat = self.bind_target(g.target, et, e)
                n0 = len(self.lines)
                val = self.expr(e.value, want.a[1] if (want is not None and want.k == "Dict") else None)
                if len(self.lines) != n0:
                    self.fail("an effectful part inside a dict comprehension is outside the subset", e)
            finally:
                self.scopes.pop()
            if val.raises:
                self.monadic()
                r = self.fresh("dc")
                self.emit("let %s ← List.mapM (fun %s => do return (%s, %s)) %s" % (r, pat, pat, val.text, src))
                return Val(r, T("Dict", et, val.ty), None, False, fresh=True)
            return Val("(List.map (fun %s => (%s, %s)) %s)" % (pat, pat, val.text, src), T("Dict", et, val.ty), None, raises, fresh=True)
        if not (isinstance(it, ast.Call) and isinstance(it.func, ast.Attribute) and it.func.attr == "items" and not it.args
                and isinstance(g.target, ast.Tuple) and len(g.target.elts) == 2 and all(isinstance(x, ast.Name) for x in g.target.elts)
                and isinstance(e.key, ast.Name) and e.key.id == g.target.elts[0].id):
            self.fail("dict comprehension that is not `{k: … for k, v in d.items() …}`", e)
        src, et, _p, raises = self.iterable(it)
        self.scopes.append({})
        try:
            pat = self.bind_target(g.target, et, e)
            n0 = len(self.lines)
            conds = [self.cond_val(c) for c in g.ifs]
            val = self.expr(e.value, want.a[1] if (want is not None and want.k == "Dict") else None)
            if len(self.lines) != n0 or val.raises or any(c.raises for c in conds):
                self.fail("a raising / effectful part inside a dict comprehension is outside the subset", e)
        finally:
            self.scopes.pop()
        k = lean_local(e.key.id)
        if conds:
            text = "(List.filterMap (fun %s => if %s then some (%s, %s) else none) %s)" % (pat, " && ".join(c.text for c in conds), k, val.text, src)
        else:
            text = "(List.map (fun %s => (%s, %s)) %s)" % (pat, k, val.text, src)
        return Val(text, T("Dict", et.a[0], val.ty), None, raises, fresh=True)

    def comprehension(self, e, want):
        A = self.area
        is_set = isinstance(e, ast.SetComp)
        gens = e.generators
        if any(g.is_async for g in gens):
            self.fail("async comprehension", e)
        self.scopes.append({})
        try:
            parts = []
            for g in gens:
                src, et, _p, raises = self.iterable(g.iter)
                if raises and parts:
                    self.raising_subexpr(g.iter)
                pat = self.bind_target(g.target, et, e)
                n0 = len(self.lines)
                conds = [self.cond_val(c) for c in g.ifs]
                if len(self.lines) != n0:
                    self.fail("a call with effects inside a comprehension is outside the subset", e)
                if any(c.raises for c in conds):
                    self.raising_subexpr(e)
                parts.append((src, pat, [c.text for c in conds]))
            n0 = len(self.lines)
            elt = self.expr(e.elt, want.a[0] if (want is not None and want.k in ("List", "Set")) else None)
            if len(self.lines) != n0:
                self.fail("a call with effects inside a comprehension is outside the subset", e)
        finally:
            self.scopes.pop()
        # innermost generator first
        src, pat, conds = parts[-1]
        c = " && ".join(conds)
        elt_is_var = isinstance(e.elt, ast.Name) and pat == lean_local(e.elt.id)
        if elt.raises:
            if conds or len(parts) > 1:
                self.fail("a raising element under a filtered / nested comprehension is outside the subset", e)
            t = elt.text
            if t.startswith("(← ") and t.endswith(")") and t.count("(← ") == 1:
                text = "(← List.mapM (fun %s => %s) %s)" % (pat, t[3:-1], src)
            else:
                # `(← x)` inside the lambda's own `do` block is lifted there: evaluation order is that of the Python loop
                text = "(← List.mapM (fun %s => do pure %s) %s)" % (pat, t, src)
            self.monadic()
        elif conds and elt_is_var:
            text = "(List.filter (fun %s => %s) %s)" % (pat, c, src)
        elif conds:
            text = "(List.filterMap (fun %s => if %s then some %s else none) %s)" % (pat, c, elt.text, src)
        elif elt_is_var:
            text = src
        else:
            text = "(List.map (fun %s => %s) %s)" % (pat, elt.text, src)
        for src, pat, conds in reversed(parts[:-1]):
            if conds:
                text = "(List.flatMap (fun %s => if %s then %s else []) %s)" % (pat, " && ".join(conds), text, src)
            else:
                text = "(List.flatMap (fun %s => %s) %s)" % (pat, text, src)
        if is_set:
            return Val("(PySet.ofList %s %s)" % (A.eq_of(elt.ty, self), text), T("Set", elt.ty), None, elt.raises, fresh=True)
        return Val(text, T("List", elt.ty), None, elt.raises, fresh=True)

    # ---- conditions
    def cond_val(self, e, top=False):
        t = self.cond(e, top)
        return Val(t, BOOL, None, "(← " in t)

    def truthy(self, v, node):
        t = v.ty
        if t == BOOL:
            return v.text
        if t.k in ("Num", "Nat"):
            return "(decide (%s ≠ 0))" % v.text
        if t.k == "List":
            return neg("(List.isEmpty %s)" % v.text)
        if t.k == "Dict":
            return neg("(PyDict.isEmpty %s)" % v.text)
        if t.k == "Set":
            return neg("(PySet.isEmpty %s)" % v.text)
        if t.k == "Str":
            return "(!(String.isEmpty %s))" % v.text
        if t.k == "Opt" and (t.a[0].k in ("Tuple", "Class", "Ref") or (t.a[0].k == "Opaque" and self.area.opaque[t.a[0].a[0]].get("always_truthy"))):
            return "(Option.isSome %s)" % v.text
        self.fail("truthiness of a value of type %r is outside the subset" % t, node)

    def cond(self, e, top=False):
        """Python expression in a boolean position -> Lean Bool text.  `top`: the test of an `if`/`assert` statement, where a
        short-circuit chain whose later operands may raise becomes a nested `do` block that returns as soon as it is decided"""
        A = self.area
        if isinstance(e, ast.Constant) and isinstance(e.value, bool):
            return "true" if e.value else "false"
        if isinstance(e, ast.BoolOp):
            parts = []
            for i, v in enumerate(e.values):
                n0 = len(self.lines)
                parts.append(self.cond_val(v))
                if i > 0 and len(self.lines) != n0:
                    self.fail("a call with effects under a short-circuit operator is outside the subset: " + ast.unparse(v), v)
            if any(p.raises for p in parts[1:]):
                if not top:
                    self.raising_subexpr(e)
                is_and = isinstance(e.op, ast.And)
                name = self.fresh("c")
                self.emit("let %s ← (do" % name)
                for p in parts[:-1]:
                    self.emit("  if %s then return %s" % (neg(p.text) if is_and else p.text, "false" if is_and else "true"))
                self.emit("  return %s)" % parts[-1].text)
                self.monadic()
                return name
            op = " && " if isinstance(e.op, ast.And) else " || "
            return "(" + op.join(p.text for p in parts) + ")"
        if isinstance(e, ast.UnaryOp) and isinstance(e.op, ast.Not):
            return neg(self.cond(e.operand))
        if isinstance(e, ast.Compare):
            if len(e.ops) != 1:
                # a < b < c: the conjunction of the neighbouring comparisons (b is pure here: no statement may be emitted for it)
                n0 = len(self.lines)
                items = [e.left] + list(e.comparators)
                parts = [self.cond(ast.Compare(left=items[i], ops=[e.ops[i]], comparators=[items[i + 1]])) for i in range(len(e.ops))]
                if len(self.lines) != n0:
                    self.fail("a chained comparison with effects", e)
                return "(" + " && ".join(parts) + ")"
            op, l, r = e.ops[0], e.left, e.comparators[0]
            if isinstance(op, (ast.Is, ast.IsNot)):
                if not (isinstance(r, ast.Constant) and r.value is None):
                    self.fail("identity test against something other than None", e)
                lv = self.expr(l)
                if lv.ty.k == "Opt":
                    s = "(Option.isNone %s)" % lv.text
                else:
                    s = "false"  # a value of a non-Optional spec type is never None
                return s if isinstance(op, ast.Is) else neg(s)
            if isinstance(op, (ast.In, ast.NotIn)):
                if isinstance(r, (ast.Tuple, ast.List, ast.Set)):
                    lv = self.expr(l)
                    alts = [self.eq_text(lv, self.expr(x, lv.ty), e) for x in r.elts]
                    s = "(" + " || ".join(alts) + ")" if alts else "false"
                elif isinstance(r, ast.Name) and self.lookup(r.id) is None and isinstance(A.consts.get(r.id), tuple) \
                        and all(isinstance(x, int) and not isinstance(x, bool) for x in A.consts[r.id]):
                    # membership in a module-level constant collection of integers (`_RESPOND_IMMEDIATE_TYPES`): its value, as
                    # `gen_lean.module_consts` evaluates it from the source, is expanded
                    lv = self.expr(l)
                    if lv.ty.k not in ("Num", "Nat"):
                        self.fail("membership of a %r in a constant collection of integers" % lv.ty, e)
                    alts = ["(decide (%s = %d))" % (lv.text, x) for x in A.consts[r.id]]
                    s = "(" + " || ".join(alts) + ")" if alts else "false"
                else:
                    rv = self.expr(r)
                    if rv.ty.k == "Dict":
                        lv = self.expr(l, rv.ty.a[0])
                        s = "(PyDict.contains %s %s %s)" % (A.eq_of(rv.ty.a[0], self), rv.text, lv.text)
                    elif rv.ty.k == "Set":
                        lv = self.expr(l, rv.ty.a[0])
                        s = "(PySet.contains %s %s %s)" % (A.eq_of(rv.ty.a[0], self), rv.text, lv.text)
                    elif rv.ty.k == "List":
                        lv = self.expr(l, rv.ty.a[0])
                        s = "(PyList.contains %s %s %s)" % (A.eq_of(rv.ty.a[0], self), rv.text, lv.text)
                    else:
                        self.fail("`in` against a value of type %r" % rv.ty, e)
                return s if isinstance(op, ast.In) else neg(s)
            lv, rv = self.try_expr(l), self.try_expr(r)
            if lv is not None and rv is not None and lv.ty == NAT and rv.ty == NUM:
                rv = self.try_expr(r, NAT) or rv
            if lv is not None and rv is not None and rv.ty == NAT and lv.ty == NUM:
                lv = self.try_expr(l, NAT) or lv
            if lv is not None and rv is not None and isinstance(op, (ast.Eq, ast.NotEq)) and not (lv.ty.k in ("Num", "Nat") and rv.ty.k in ("Num", "Nat") and lv.ty != rv.ty):
                if lv.ty != rv.ty:
                    self.fail("comparison of %r with %r" % (lv.ty, rv.ty), e)
                s = self.eq_text(lv, rv, e)
                return s if isinstance(op, ast.Eq) else neg(s)
            if lv is not None and rv is not None and lv.ty == NAT and rv.ty == NAT:
                sym = {ast.LtE: "≤", ast.Lt: "<", ast.GtE: "≥", ast.Gt: ">"}[type(op)]
                return "(decide (%s %s %s))" % (lv.text, sym, rv.text)
            tr = FnTr(self)
            return tr.cmp(tr.num(l), op, tr.num(r))
        if isinstance(e, ast.Call) and isinstance(e.func, ast.Name) and e.func.id == "bool" and len(e.args) == 1:
            return self.cond(e.args[0])
        v = self.expr(e)
        return self.truthy(v, e)

    def eq_text(self, a, b, node):
        """`a == b` (Python calls a.__eq__(b))"""
        t = a.ty
        if t.k in ("Num", "Nat", "Str", "Bool", "Bytes"):
            return "(decide (%s = %s))" % (a.text, b.text)
        if t.k == "Opaque":
            return "(%s %s %s)" % (self.area.eq_of(t, self), a.text, b.text)
        self.fail("`==` on values of type %r is outside the subset" % t, node)

    # ---- calls
    def call(self, e, want=None):
        A = self.area
        f = e.func
        if e.keywords:
            self.fail("keyword arguments are outside the subset: " + ast.unparse(e), e)
        if isinstance(f, ast.Attribute) and ast.unparse(f) in self.env_fns:
            f = ast.Name(id=ast.unparse(f), ctx=ast.Load())
        if isinstance(f, ast.Name):
            n = f.id
            if n == "bool" and len(e.args) == 1:
                return Val(self.cond(e.args[0]), BOOL)
            if n in ("list", "reversed") and len(e.args) == 1:
                t, et, _p, r = self.iterable(e)
                return Val(t, T("List", et), None, r, fresh=True)
            if n == "set" and not e.args and want is not None and want.k == "Set":
                return Val("PySet.empty", want, fresh=True)
            if n == "set" and len(e.args) == 1:
                t, et, _p, r = self.iterable(e.args[0])
                return Val("(PySet.ofList %s %s)" % (A.eq_of(et, self), t), T("Set", et), None, r, fresh=True)
            if n == "len" and len(e.args) == 1:
                self.set_order_ok = getattr(self, "set_order_ok", 0) + 1
                try:
                    t, et, _p, r = self.iterable(e.args[0])
                finally:
                    self.set_order_ok -= 1
                return Val("(List.length %s)" % t, NAT, None, r)
            if n == "isinstance" and len(e.args) == 2:
                st = self.static_cond(e)
                if st is not None:
                    return Val("true" if st else "false", BOOL)
                v = self.expr(e.args[0])
                return Val(self.isinstance_text(v, e.args[1], e), BOOL, None, v.raises)
            if n == "cast" and len(e.args) == 2:
                return self.expr(e.args[1], want)
            if n in ("int", "_int") and len(e.args) == 1:
                av = self.try_expr(e.args[0])
                if av is not None and av.ty == NAT:
                    return av
            if n in ("int", "float", "_int", "_float", "min", "max") or n in getattr(A.spec, "NUMFUNCS", {}):
                return self.numeric(e, want)
            if n in self.env_calls and not e.args:
                if self.env_calls[n][1]:
                    self.fail("%s() is called twice: two readings of the environment cannot share one parameter" % n, e)
                self.env_calls[n][1] = True
                return Val(lean_local(n), self.env_calls[n][0])
            if n in A.classes and not A.classes[n].get("opaque") and n in A.inits:
                ips = A.inits[n]
                if len(ips) != len(e.args):
                    self.fail("%s(...) with %d arguments (its __init__ has %d)" % (n, len(e.args), len(ips)), e)
                args = [self.expr(a, t) for a, (_n, t) in zip(e.args, ips)]
                ctor = "(%s.init%s)" % (A.cls_lean(n), "".join(" " + atom(a.text) for a in args))
                if A.classes[n].get("identity"):
                    owner, sf = A.store_of(n)
                    if self.cls != owner:
                        self.fail("an object of the identity class %s is created outside its owner %s" % (n, owner), e)
                    r = self.fresh("new")
                    self.emit("let %s := PyStore.alloc self.%s %s" % (r, sf, ctor))
                    self.assign_path(Path("self", (("f", "⟨store⟩", sf),)), "%s.2" % r, e)
                    return Val("%s.1" % r, T("Ref", n), None, False)
                return Val(ctor, T("Class", n), None, any(a.raises for a in args), fresh=True)
            if n == "heappop" and len(e.args) == 1:
                b = self.expr(e.args[0])
                if b.ty.k != "List" or b.path is None:
                    self.fail("heappop on something that is not a list lvalue", e)
                r = self.fresh("hp")
                self.monadic()
                self.emit("let %s ← PyHeap.pop %s" % (r, b.text))
                self.assign_path(b.path, "%s.2" % r, e)
                return Val("%s.1" % r, b.ty.a[0], fresh=True)
            if n == "deque" and not e.args:
                if want is None or want.k != "List":
                    self.fail("deque() where %r is expected" % want, e)
                return Val("[]", want, fresh=True)
            if n in self.env_fns:
                ptys, rty = self.env_fns[n]
                if len(e.args) == 1 and isinstance(e.args[0], ast.Starred):
                    tv = self.expr(e.args[0].value)
                    if tv.ty.k != "Tuple" or list(tv.ty.a) != ptys:
                        self.fail("*%s does not supply the arguments of %s" % (ast.unparse(e.args[0].value), n), e)
                    projs = [tv.text + "".join(".2" for _ in range(i)) + (".1" if i < len(ptys) - 1 else "") for i in range(len(ptys))]
                    return Val("(%s%s)" % (lean_local(n.replace(".", "_")), "".join(" " + p for p in projs)), rty, None, tv.raises)
                if len(ptys) != len(e.args):
                    self.fail("%s expects %d arguments" % (n, len(ptys)), e)
                args = [self.expr(a, t) for a, t in zip(e.args, ptys)]
                return Val("(%s%s)" % (lean_local(n.replace(".", "_")), "".join(" " + atom(a.text) for a in args)), rty, None, any(a.raises for a in args))
            key = (None, n)
            if key in A.fns:
                return self.call_translated(A.fns[key], None, e.args, e)
            self.fail("call of unknown function " + n, e)
        if isinstance(f, ast.Attribute):
            m = f.attr
            # methods of the translated classes
            if isinstance(f.value, ast.Name) and f.value.id == "self" and self.cls is not None and (self.cls, m) in A.fns:
                return self.call_translated(A.fns[(self.cls, m)], f.value, e.args, e)
            if m == "__eq__" and len(e.args) == 1:
                a = self.expr(f.value)
                b = self.expr(e.args[0], a.ty)
                return Val(self.eq_text(a, b, e), BOOL, None, a.raises or b.raises)
            if m == "lower" and not e.args:
                b = self.expr(f.value)
                if b.ty != STR:
                    self.fail(".lower() on %r" % b.ty, e)
                self.info.uses_lower = True
                return Val("(lower %s)" % b.text, STR, None, b.raises)
            if m in ("items", "values", "keys") and not e.args:
                t, et, _p, r = self.iterable(e)
                return Val(t, T("List", et), None, r, view=True)
            ent = self.try_effect(e, e)
            if ent:
                if "returns" not in ent:
                    self.fail("the effect %s has no value" % m, e)
                return Val(ent["returns"][1].format(*self.last_effect_vals), A.ty(ent["returns"][0]))
            b = self.unwrap(self.expr(f.value), e)
            if b.ty.k == "Dict":
                eq = A.eq_of(b.ty.a[0], self)
                if m == "get" and len(e.args) in (1, 2):
                    k = self.expr(e.args[0], b.ty.a[0])
                    if len(e.args) == 1 or (isinstance(e.args[1], ast.Constant) and e.args[1].value is None):
                        return Val("(PyDict.get? %s %s %s)" % (eq, b.text, k.text), T("Opt", b.ty.a[1]), None, b.raises or k.raises)
                    d = self.expr(e.args[1], b.ty.a[1])
                    return Val("(PyDict.getD %s %s %s %s)" % (eq, b.text, k.text, d.text), b.ty.a[1], None, b.raises or k.raises or d.raises)
                if m == "copy" and not e.args:
                    return Val(b.text, b.ty, None, b.raises, fresh=True)
                if m == "pop" and len(e.args) == 2 and isinstance(e.args[1], ast.Constant) and e.args[1].value is None and b.path is not None:
                    k = self.expr(e.args[0], b.ty.a[0])
                    r = self.fresh("pp")
                    self.emit("let %s := PyDict.popD %s %s %s" % (r, eq, b.text, k.text))
                    self.assign_path(b.path, "%s.2" % r, e)
                    return Val("%s.1" % r, T("Opt", b.ty.a[1]), fresh=True)
                if m == "pop" and len(e.args) == 2 and b.path is not None and b.ty.a[1].k in ("List", "Dict", "Set") \
                        and isinstance(e.args[1], (ast.List, ast.Dict)) and not getattr(e.args[1], "elts", None) and not getattr(e.args[1], "keys", None):
                    # `d.pop(k, [])`: the stored container leaves the dict (no alias remains), or a new empty one
                    k = self.expr(e.args[0], b.ty.a[0])
                    r = self.fresh("pp")
                    self.emit("let %s := PyDict.popD %s %s %s" % (r, eq, b.text, k.text))
                    self.assign_path(b.path, "%s.2" % r, e)
                    return Val("(%s.1.getD %s)" % (r, self.empty_of(b.ty.a[1], e)), b.ty.a[1], fresh=True)
                if m == "pop" and len(e.args) == 1 and b.path is not None:
                    k = self.expr(e.args[0], b.ty.a[0])
                    r = self.fresh("pp")
                    self.monadic()
                    self.emit("let %s ← PyDict.pop %s %s %s" % (r, eq, b.text, k.text))
                    self.assign_path(b.path, "%s.2" % r, e)
                    return Val("%s.1" % r, b.ty.a[1], fresh=True)
                if m == "setdefault" and len(e.args) == 2:
                    return self.setdefault(b, e, eq)
            if b.ty.k in ("List", "Set") and m == "copy" and not e.args:
                return Val(b.text, b.ty, None, b.raises, fresh=True)
            if b.ty.k == "List" and m == "popleft" and not e.args:
                if b.path is None:
                    self.fail("popleft on something that is not an lvalue", e)
                r = self.fresh("pl")
                self.monadic()
                self.emit("let %s ← PyList.popleft %s" % (r, b.text))
                self.assign_path(b.path, "%s.2" % r, e)
                return Val("%s.1" % r, b.ty.a[0], fresh=True)
            if b.ty.k == "Opaque":
                sp = A.opaque[b.ty.a[0]]
                if m in sp.get("methods", {}):
                    ptys, rty, tmpl = sp["methods"][m][:3]
                    if len(ptys) != len(e.args):
                        self.fail("method %s expects %d arguments" % (m, len(ptys)), e)
                    args = [self.expr(a, A.ty(t)) for a, t in zip(e.args, ptys)]
                    if "lower" in tmpl:
                        self.info.uses_lower = True
                    return Val(tmpl.format(b.text, *[a.text for a in args]), A.ty(rty), None, b.raises or any(a.raises for a in args))
            self.fail("call of method %s on a value of type %r is outside the subset (as an expression)" % (m, b.ty), e)
        self.fail("unsupported call: " + ast.unparse(e), e)

    def isinstance_text(self, v, clsnode, node):
        if v.ty.k != "Opaque":
            self.fail("isinstance on a value of type %r" % v.ty, node)
        table = self.area.opaque[v.ty.a[0]].get("isinstance", {})
        names = None
        if isinstance(clsnode, ast.Name):
            if clsnode.id in table:
                names = [clsnode.id]
            else:
                # a module-level tuple of classes
                for n in self.area.tree.body:
                    if isinstance(n, ast.Assign) and len(n.targets) == 1 and isinstance(n.targets[0], ast.Name) and n.targets[0].id == clsnode.id \
                            and isinstance(n.value, ast.Tuple) and all(isinstance(x, ast.Name) for x in n.value.elts):
                        names = [x.id for x in n.value.elts]
        elif isinstance(clsnode, ast.Tuple) and all(isinstance(x, ast.Name) for x in clsnode.elts):
            names = [x.id for x in clsnode.elts]
        if not names or any(n not in table for n in names):
            self.fail("isinstance against an unmapped class: " + ast.unparse(clsnode), node)
        parts = [table[n].format(v.text) for n in names]
        return parts[0] if len(parts) == 1 else "(" + " || ".join(parts) + ")"

    def setdefault(self, b, e, eq):
        """`P.setdefault(k, dflt)` as an expression: mutates P, yields (an alias of) P[k]"""
        if b.path is None:
            self.fail("setdefault on something that is not an lvalue", e)
        k = self.expr(e.args[0], b.ty.a[0])
        d = self.expr(e.args[1], b.ty.a[1])
        if d.raises or b.raises:
            self.raising_subexpr(e)
        if k.raises:
            kn = self.fresh("key")
            self.emit("let %s := %s" % (kn, k.text))
            k = Val(kn, k.ty)
        r = self.fresh("sd")
        self.emit("let %s := PyDict.setdefault %s %s %s %s" % (r, eq, b.text, k.text, d.text))
        self.assign_path(b.path, "%s.2" % r, e)
        return Val("%s.1" % r, b.ty.a[1], b.path.extend(("k", k.text, eq, names_in(e.args[0]))))

    def call_translated(self, fi, selfnode, argnodes, node):
        A = self.area
        params = list(fi.params)
        args = []
        if fi.has_self:
            sv = self.expr(selfnode)
            args.append((("self", sv.ty), sv))
        envargs = ""
        if getattr(fi, "env", None):
            # environment *functions* (pure in their arguments) are handed on: the caller must declare the very same entry.
            # A *reading* of the environment (clock, `zc.done`) cannot be shared between two calls: outside the subset.
            for ent in fi.env:
                if len(ent) != 3:
                    self.fail("call of %s, which reads the environment (%s): outside the subset" % (fi.lean, ent[0]), node)
                mine = self.env_fns.get(ent[0])
                if mine is None or mine != ([A.ty(t) for t in ent[2]], A.ty(ent[1])):
                    self.fail("call of %s, which uses the environment function %s: the caller's spec must declare the same entry" % (fi.lean, ent[0]), node)
                self.env_used.add(ent[0])
                envargs += " " + lean_local(ent[0].replace(".", "_"))
        if len(argnodes) != len(params):
            self.fail("call of %s with %d arguments (spec has %d)" % (fi.lean, len(argnodes), len(params)), node)
        for (pn, pt), an in zip(params, argnodes):
            args.append(((pn, pt), self.expr(an, pt)))
        if any(a.raises for _p, a in args):
            self.monadic()  # `(← …)` arguments are lifted left to right in front of the call: Python's order
        # mutated parameters need an lvalue to write the new object back to
        wb = []
        for (pn, pt), a in args:
            if pn in fi.mutated:
                if a.path is None:
                    self.fail("argument for the mutated parameter %s of %s is not an lvalue" % (pn, fi.lean), node)
                wb.append((pn, a.path))
        for i in range(len(wb)):
            for j in range(i + 1, len(wb)):
                if wb[i][1].overlaps(wb[j][1]):
                    self.fail("two mutated arguments of %s may be the same object" % fi.lean, node)
        if fi.uses_lower:
            self.info.uses_lower = True
        text = "%s%s %s%s" % (fi.lean, " lower" if fi.uses_lower else "", " ".join(a.text for _p, a in args), envargs)
        comps = ([] if fi.ret == NONE else ["ret"]) + list(fi.mutated) + (["⟨effects⟩"] if fi.effects else [])
        if not fi.monadic and not fi.mutated and not fi.effects and fi.ret != NONE:
            # a pure function: an ordinary application (usable under `and` / `or` and inside comprehensions)
            return Val("(%s)" % text, fi.ret, None, any(a.raises for _p, a in args))
        r = self.fresh("r")
        if fi.monadic:
            self.monadic()
            self.emit("let %s ← %s" % (r, text))
        else:
            self.emit("let %s := %s" % (r, text))

        def comp(i):
            if len(comps) == 1:
                return r
            return r + "".join(".2" for _ in range(i)) + (".1" if i < len(comps) - 1 else "")

        for pn, path in wb:
            self.assign_path(path, comp(comps.index(pn)), node, via="mutate")
        if fi.effects:
            self.info.effects = True
            self.emit("effects := effects ++ %s" % comp(len(comps) - 1))
        if fi.ret == NONE:
            return Val("()", NONE)
        return Val(comp(0), fi.ret)

    # ---- mutation
    def kill_overlapping(self, path, except_var=None, why=""):
        for v in self.all_vars():
            if v.dead:
                continue
            if any(st[0] == "k" and path.root in st[3] for p in v.aliases for st in p.steps):
                v.dead = "%s, which the key of its alias path mentions, changed at %s" % (path.root, why)
                for s in self.kill_log:
                    s.add(v)
                continue
            if v is except_var:
                continue
            if any(p.overlaps(path) for p in v.aliases):
                if len(v.aliases) > 1:
                    self.fail("the object held by %s is stored in several places (%s) and is changed through one of them" %
                              (v.name, ", ".join(map(repr, v.aliases))), None)
                v.dead = "%s changed at %s" % (path, why)
                for s in self.kill_log:
                    s.add(v)

    def root_var(self, path, node):
        v = self.lookup(path.root)
        if v is None:
            self.fail("mutation of unknown variable " + path.root, node)
        if v.dead:
            self.fail("mutation through the stale alias %s (%s)" % (path.root, v.dead), node)
        if v.loopvar:
            self.fail("mutation of (an object reached through) the loop variable %s: its container would need a write-back" % path.root, node)
        if v.narrowed:
            self.fail("assignment to the narrowed variable " + path.root, node)
        if v.untracked:
            self.fail("%s may be an alias of an object held elsewhere (%s): changing it is outside the subset" % (path.root, v.untracked), node)
        return v

    def build_update(self, path, newtext, node):
        """Lean text of the root's new value when the object at `path` becomes `newtext`.
        `newtext` may mention the placeholder ⟦cur⟧ for the current value at the path."""
        A = self.area
        cur = lean_local(path.root)
        # current-value texts along the path
        curs = [cur]
        for st in path.steps:
            if st[0] == "f":
                curs.append("%s.%s" % (curs[-1], st[2]))
            elif st[0] == "i":
                curs.append("(← PyList.%s %s)" % (st[1], curs[-1]))
            else:
                curs.append("(← PyDict.getItem %s %s %s)" % (st[2], curs[-1], st[1]))
        if "⟦cur⟧" in newtext:
            if "(← " in curs[-1]:
                self.monadic()
            newtext = newtext.replace("⟦cur⟧", curs[-1])
        text = newtext
        for i in range(len(path.steps) - 1, -1, -1):
            st = path.steps[i]
            if st[0] == "f":
                text = "{ %s with %s := %s }" % (curs[i], st[2], text)
            elif st[0] == "i":
                text = "(PyList.set%s %s %s)" % (st[1].capitalize(), atom(curs[i]), atom(text))
                if "(← " in curs[i]:
                    self.monadic()
            else:
                text = "(PyDict.set %s %s %s %s)" % (st[2], curs[i], st[1], atom(text))
                if "(← " in curs[i]:
                    self.monadic()
        return text

    def assign_path(self, path, newtext, node, via=None):
        """the object at `path` becomes `newtext`; write-backs to everything the root aliases; kills stale aliases"""
        v = self.root_var(path, node)
        text = self.build_update(path, newtext, node)
        if "(← " in text:
            self.monadic()
        self.emit("%s := %s" % (lean_local(path.root), strip_outer(text)))
        v.reassigned = True
        if v.is_param and path.root not in self.info.mutated:
            self.info.mutated.append(path.root)
        self.kill_overlapping(path, except_var=v, why="line %s" % getattr(node, "lineno", "?"))
        # the root itself is an alias of other places: write the changed object back
        if path.steps or via == "mutate":
            for ap in list(v.aliases):
                av = self.root_var(ap, node)
                t = self.build_update(ap, lean_local(path.root), node)
                if hasattr(self, "mut_log"):
                    self.mut_log.append((len(self.lines), ap))
                self.emit("%s := %s" % (lean_local(ap.root), strip_outer(t)))
                av.reassigned = True
                if av.is_param and ap.root not in self.info.mutated:
                    self.info.mutated.append(ap.root)
                self.kill_overlapping(ap, except_var=v, why="line %s" % getattr(node, "lineno", "?"))
                # and transitively
                for ap2 in av.aliases:
                    self.fail("alias of an alias (%s -> %s -> %s) is outside the subset" % (path.root, ap, ap2), node)

    def mutate_path(self, path, f, node, cur=None):
        """in-place change of the object at `path`: f(current value text) is the new value.  `cur`: a text that is known to
        denote the current value (the receiver as just evaluated), else it is re-read along the path"""
        self.assign_path(path, f(cur if cur is not None else "⟦cur⟧"), node, via="mutate")

    # ---- statements
    def block(self, stmts, new_scope=True):
        """translate a statement list; returns True when control cannot fall out of its end"""
        if new_scope:
            self.scopes.append({})
        try:
            n0 = len(self.lines)
            i = 0
            term = False
            while i < len(stmts):
                s = stmts[i]
                if term:
                    self.fail("unreachable statement", s)
                term = bool(self.stmt(s, stmts[i + 1:]))
                if term and isinstance(s, ast.If) and self.static_cond(s.test) is not None:
                    break  # what follows a statically decided, terminating `if` is dead code (`return NotImplemented`)
                i += 1
            if len(self.lines) == n0:
                self.emit("pure ()")
            return term
        finally:
            if new_scope:
                self.scopes.pop()

    def emit_return(self, valtext):
        # the tuple of mutated parameters is only known at the end: placeholder, patched in finish()
        self.emit("return ⟦ret:%s⟧" % (valtext if valtext is not None else ""))

    def terminates(self, stmts):
        return bool(stmts) and isinstance(stmts[-1], (ast.Return, ast.Continue, ast.Break, ast.Raise))

    def none_test(self, test):
        """`x is None` / `x is not None` / `not x` / `x` on an Optional *variable* -> (var name, positive-means-none)"""
        if isinstance(test, ast.Compare) and len(test.ops) == 1 and isinstance(test.left, ast.Name) and \
                isinstance(test.comparators[0], ast.Constant) and test.comparators[0].value is None and isinstance(test.ops[0], (ast.Is, ast.IsNot)):
            v = self.lookup(test.left.id)
            if v is not None and v.ty.k == "Opt":
                return test.left.id, isinstance(test.ops[0], ast.Is)
        neg = False
        t = test
        if isinstance(t, ast.UnaryOp) and isinstance(t.op, ast.Not):
            neg, t = True, t.operand
        if isinstance(t, ast.Name):
            v = self.lookup(t.id)
            if v is not None and v.ty.k == "Opt":
                # truthiness must coincide with "is not None"
                self.truthy(Val(t.id, v.ty), test)
                return t.id, neg
        return None

    def stmt(self, s, rest):
        A = self.area
        self._last_term = False
        if isinstance(s, ast.Expr) and isinstance(s.value, ast.Constant) and isinstance(s.value.value, str):
            return False  # docstring
        if isinstance(s, ast.Pass):
            return False
        if isinstance(s, ast.Return):
            if s.value is None:
                if self.ret != NONE:
                    self.fail("bare return in a function returning %r" % self.ret, s)
                self.emit_return(None)
            elif self.spec.get("floor"):
                # the function returns a float; the translation returns its floor (spec `floor`, as gen_lean's `floor` leaves)
                if self.ret != NUM:
                    self.fail("`floor` on a function that does not return a number", s)
                n, d = FnTr(self).num(s.value)
                self.emit_return(n if d == 1 else "(Int.fdiv %s %d)" % (n, d))
            elif self.ret == BOOL and (isinstance(s.value, ast.BoolOp) or (
                    isinstance(s.value, ast.Call) and isinstance(s.value.func, ast.Name) and s.value.func.id == "bool"
                    and len(s.value.args) == 1 and not s.value.keywords and isinstance(s.value.args[0], ast.BoolOp))):
                # `return a and b` / `return bool(a and b)`: a statement-level test, a later operand may raise (`x is not None and x.f()`)
                inner = s.value if isinstance(s.value, ast.BoolOp) else s.value.args[0]
                self.emit_return(self.cond_val(inner, top=True).text)
            else:
                v = self.expr(s.value, self.ret)
                self.emit_return(None if self.ret == NONE else v.text)
            return True
        if isinstance(s, ast.Continue):
            self.emit("continue")
            return True
        if isinstance(s, ast.Break):
            flags = getattr(self, "loop_flags", [])
            if flags and flags[-1] is not None:
                self.emit("%s := true" % flags[-1])  # the translated `while` was left by `break`, not by running out of its bound
            self.emit("break")
            return True
        if isinstance(s, ast.Raise):
            if s.exc is None or s.cause is not None:
                self.fail("re-raise / raise from", s)
            n = s.exc.func if isinstance(s.exc, ast.Call) else s.exc
            if not (isinstance(n, ast.Name) and n.id in A.exc):
                self.fail("raise of an unmapped exception: " + ast.unparse(s.exc), s)
            self.monadic()
            self.emit("throw PyExc.%s" % A.exc[n.id])
            return True
        if isinstance(s, ast.Assert):
            c = self.cond_val(s.test, top=True)
            self.monadic()
            self.emit("pyAssert %s" % c.text)
            return False
        if isinstance(s, ast.Assign):
            if len(s.targets) != 1:
                self.fail("chained assignment", s)
            return self.assign(s.targets[0], s.value, None, s)
        if isinstance(s, ast.AnnAssign):
            if s.value is None:
                self.fail("annotation without a value", s)
            return self.assign(s.target, s.value, A.annot_ty(s.annotation), s)
        if isinstance(s, ast.AugAssign) and isinstance(s.target, ast.Attribute):
            tv = self.expr(s.target)
            if tv.path is None or tv.ty not in (NAT, NUM) or not isinstance(s.op, ast.Add):
                self.fail("augmented assignment to a field outside the subset", s)
            inc = self.expr(s.value, tv.ty)
            self.assign_path(tv.path, "(%s + %s)" % (tv.text, inc.text), s)
            return False
        if isinstance(s, ast.AugAssign):
            if not isinstance(s.target, ast.Name):
                self.fail("augmented assignment to a non-variable", s)
            v = self.lookup(s.target.id)
            if v is None or v.ty not in (NUM,):
                self.fail("augmented assignment to a non-numeric variable", s)
            val = self.numeric(ast.BinOp(left=ast.Name(id=s.target.id, ctx=ast.Load()), op=s.op, right=s.value), NUM)
            self.assign_path(Path(s.target.id), val.text, s)
            return False
        if isinstance(s, ast.Delete):
            for t in s.targets:
                if not isinstance(t, ast.Subscript):
                    self.fail("del of a non-subscript", s)
                b = self.expr(t.value)
                if b.ty.k != "Dict" or b.path is None:
                    self.fail("del on %r" % b.ty, s)
                k = self.expr(t.slice, b.ty.a[0])
                if k.raises:
                    kn = self.fresh("key")
                    self.emit("let %s := %s" % (kn, k.text))
                    k = Val(kn, k.ty)
                eq = A.eq_of(b.ty.a[0], self)
                self.monadic()
                self.mutate_path(b.path, lambda cur: "(← PyDict.delItem %s %s %s)" % (eq, cur, k.text), s, cur=b.text)
            return False
        if isinstance(s, ast.Expr):
            return self.expr_stmt(s.value, s)
        if isinstance(s, ast.If):
            return self.if_stmt(s, rest)
        if isinstance(s, ast.For):
            return self.for_stmt(s)
        if isinstance(s, ast.While):
            return self.while_stmt(s)
        self.fail("statement outside the subset: " + type(s).__name__, s)

    def assign(self, tgt, value, annot, node):
        A = self.area
        if isinstance(tgt, ast.Name):
            name = tgt.id
            v = self.lookup(name)
            if v is None:
                want = annot or self.local_types.get(name)
                val = self.expr(value, want)
                if val.ty == NONE:
                    self.fail("assignment of None to an untyped local", node)
                if val.view:
                    self.fail("a live dict view (`.keys()` / `.values()` / `.items()`) kept in a variable is outside the subset (wrap it in list(...))", node)
                nv = Var(name, val.ty)  # declared after the right-hand side is translated
                if is_mutable_ty(val.ty) and val.path is None and not val.fresh:
                    nv.untracked = "it was obtained from `%s`" % ast.unparse(value)
                tok = "⟪%s#%d⟫" % (name, len(self.tokens))
                nv.token = tok
                self.tokens[tok] = nv
                tyann = " : %s" % A.lean_ty(val.ty) if (val.text in ("[]", "PyDict.empty", "PySet.empty", "none")) else ""
                self.emit("let%s %s%s := %s" % (tok, lean_local(name), tyann, val.text))
                self.scopes[-1][name] = nv
                if val.path is not None and is_mutable_ty(val.ty):
                    nv.aliases.append(val.path)
                return False
            val = self.expr(value, v.ty)
            if v.narrowed or v.loopvar:
                self.fail("assignment to the narrowed / loop variable " + name, node)
            if v.aliases or (val.path is not None and is_mutable_ty(val.ty)):
                self.fail("re-binding of an aliasing variable is outside the subset: " + name, node)
            self.emit("%s := %s" % (lean_local(name), val.text))
            v.reassigned = True
            v.dead = None
            self.kill_overlapping(Path(name), except_var=v, why="line %s" % getattr(node, "lineno", "?"))
            if v.is_param:
                self.fail("assignment to the parameter " + name, node)
            return False
        if isinstance(tgt, ast.Tuple):
            val = self.expr(value)
            if val.ty.k != "Tuple" or len(val.ty.a) != len(tgt.elts) or not all(isinstance(x, ast.Name) for x in tgt.elts):
                self.fail("unsupported unpacking", node)
            for x in tgt.elts:
                if x.id != "_" and self.lookup(x.id) is not None:
                    self.fail("unpacking into an existing variable " + x.id, node)
            pats = []
            for x, t in zip(tgt.elts, val.ty.a):
                if x.id == "_":
                    pats.append("_")
                else:
                    nv = self.declare(x.id, t)
                    nv.token = None
                    nv.narrowed = True  # immutable binding
                    pats.append(lean_local(x.id))
            self.emit("let (%s) := %s" % (", ".join(pats), val.text))
            return False
        if isinstance(tgt, ast.Attribute):
            b = self.unwrap(self.expr(tgt.value), node)
            if b.ty.k == "Ref":
                fs = A.fields[b.ty.a[0]]
                if tgt.attr not in fs:
                    self.fail("assignment to the unknown field " + tgt.attr, node)
                lf, ft = fs[tgt.attr]
                val = self.expr(value, ft)
                owner, sf = A.store_of(b.ty.a[0])
                if self.cls != owner:
                    self.fail("an object of the identity class %s is changed outside its owner %s" % (b.ty.a[0], owner), node)
                idn = b.text
                if b.raises:
                    idn = self.fresh("ref")
                    self.emit("let %s := %s" % (idn, b.text))
                self.assign_path(Path("self", (("f", "⟨store⟩", sf),)),
                                 "(PyStore.modify self.%s %s (fun o => { o with %s := %s }))" % (sf, idn, lf, val.text), node)
                return False
            if b.ty.k != "Class" or b.path is None:
                self.fail("attribute assignment on %r" % b.ty, node)
            fs = A.fields[b.ty.a[0]]
            if tgt.attr not in fs:
                self.fail("assignment to the unknown field " + tgt.attr, node)
            lf, ft = fs[tgt.attr]
            val = self.expr(value, ft)
            p = b.path.extend(("f", tgt.attr, lf))
            self.assign_path(p, val.text, node)
            self.note_stored(val, p, node)
            return False
        if isinstance(tgt, ast.Subscript):
            b = self.expr(tgt.value)
            if b.ty.k != "Dict" or b.path is None:
                self.fail("subscript assignment on %r" % b.ty, node)
            k = self.expr(tgt.slice, b.ty.a[0])
            if k.raises:
                kn = self.fresh("key")
                self.emit("let %s := %s" % (kn, k.text))
                k = Val(kn, k.ty)
            n_before_val = len(self.lines)
            val = self.expr(value, b.ty.a[1])
            if val.raises and (b.raises or "(← " in k.text):
                # CPython evaluates the assigned value before the subscripts of the target: bind it first
                if len(self.lines) != n_before_val:
                    self.fail("an assigned value with effects next to a raising target subscript", node)
                vn = self.fresh("val")
                self.emit("let %s := %s" % (vn, val.text))
                val = Val(vn, val.ty, val.path, False, val.fresh)
            eq = A.eq_of(b.ty.a[0], self)
            self.mutate_path(b.path, lambda cur: "(PyDict.set %s %s %s %s)" % (eq, atom(cur), k.text, atom(val.text)), node, cur=b.text)
            self.note_stored(val, b.path.extend(("k", k.text, eq, names_in(tgt.slice))), node)
            return False
        self.fail("unsupported assignment target", node)

    def note_stored(self, val, path, node):
        """a mutable object held by a variable was stored into a container: the variable now aliases that place"""
        if val.path is not None and val.path.steps and is_mutable_ty(val.ty):
            self.fail("storing an object that lives in another container (%r) into %r: two places for one object" % (val.path, path), node)
        if val.path is None and is_mutable_ty(val.ty) and not val.fresh:
            self.fail("storing an object of unknown provenance into %r" % path, node)
        if val.path is not None and not val.path.steps and is_mutable_ty(val.ty):
            v = self.lookup(val.path.root)
            if v is not None and not any(repr(p) == repr(path) for p in v.aliases):
                v.aliases.append(path)

    def lt_of(self, t, node):
        """the `__lt__` heapq uses on elements of type t"""
        A = self.area
        if t.k in ("Num", "Nat"):
            return "(fun a b => decide (a < b))"
        if t.k == "Ref":
            cls = t.a[0]
            if (cls, "__lt__") not in A.fns:
                self.fail("heapq on %s, whose __lt__ is not translated" % cls, node)
            owner, sf = A.store_of(cls)
            if self.cls != owner:
                self.fail("heapq on objects of %s outside their owner %s" % (cls, owner), node)
            self.read_var("self", node)
            return "(fun a b => %s (PyStore.getD self.%s a default) (PyStore.getD self.%s b default))" % (A.fns[(cls, "__lt__")].lean, sf, sf)
        self.fail("heapq on elements of type %r" % t, node)

    def try_effect(self, e, node):
        """a call that the spec's EFFECTS table maps to a returned effect (`loop.call_at(when, self.async_ready)`); -> done?"""
        A = self.area
        table = getattr(A.spec, "EFFECTS", None)
        if not table or not (isinstance(e, ast.Call) and isinstance(e.func, ast.Attribute)) or e.keywords:
            return False
        for ent in table["calls"]:
            if e.func.attr != ent["method"] or len(e.args) != len(ent["args"]):
                continue
            recv = self.try_expr(e.func.value)
            if recv is None:
                continue
            want_recv = A.ty(ent["recv"]) if ent["recv"] != "self" else A.self_ty(self.cls)
            if recv.ty.k == "Opt" and recv.ty.a[0] == want_recv:
                recv = self.unwrap(self.expr(e.func.value), node)
                self.emit("let _ := %s" % recv.text)  # `None.method(...)` is an AttributeError
            if recv.ty != want_recv:
                continue
            vals = []
            for a, pat in zip(e.args, ent["args"]):
                if pat.startswith("="):
                    if ast.unparse(a) != pat[1:]:
                        self.fail("effect %s: argument `%s` is not `%s`" % (ent["method"], ast.unparse(a), pat[1:]), node)
                    continue
                inner = a
                if "(" in pat:
                    fname, ty = pat[:pat.index("(")], pat[pat.index("(") + 1:-1]
                    if not (isinstance(a, ast.Call) and isinstance(a.func, ast.Name) and a.func.id == fname and len(a.args) == 1 and not a.keywords):
                        self.fail("effect %s: argument is not %s(...)" % (ent["method"], fname), node)
                    inner, pat = a.args[0], ty
                t = A.ty(pat)
                if t.k == "Frac":
                    n, d = FnTr(self).num(inner)
                    if t.a[0] % d != 0:
                        self.fail("effect %s: a value with denominator %d where %d is expected" % (ent["method"], d, t.a[0]), node)
                    vals.append(n if d == t.a[0] else "(%s * %d)" % (n, t.a[0] // d))
                else:
                    vals.append(atom(self.expr(inner, t).text))
            self.info.effects = True
            self.emit("effects := effects ++ [%s]" % ent["lean"].format(*vals, recv=atom(recv.text)))
            self.last_effect_vals = vals
            return ent
        return False

    def expr_stmt(self, e, node):
        A = self.area
        if self.try_effect(e, node):
            return False
        if isinstance(e, ast.Call) and isinstance(e.func, ast.Attribute) and not e.keywords:
            m = e.func.attr
            recv = e.func.value
            # calls of translated functions (value discarded)
            if isinstance(recv, ast.Name) and recv.id == "self" and self.cls is not None and (self.cls, m) in A.fns:
                self.call_translated(A.fns[(self.cls, m)], recv, e.args, e)
                return False
            b = self.expr(recv)
            if b.ty.k == "Opaque":
                sp = A.opaque[b.ty.a[0]]
                if m in sp.get("mutators", {}):
                    ptys, tmpl = sp["mutators"][m]
                    if b.path is None or len(ptys) != len(e.args):
                        self.fail("mutator %s: bad receiver or arguments" % m, node)
                    args = [self.expr(a, A.ty(t)) for a, t in zip(e.args, ptys)]
                    self.mutate_path(b.path, lambda cur: "(" + tmpl.format(atom(cur), *[atom(a.text) for a in args]) + ")", node, cur=b.text)
                    return False
            if b.path is None and m in ("append", "remove", "pop", "add", "clear", "discard"):
                self.fail("mutating method %s on something that is not an lvalue" % m, node)
            if b.ty.k == "List":
                et = b.ty.a[0]
                if m == "append" and len(e.args) == 1:
                    x = self.expr(e.args[0], et)
                    self.mutate_path(b.path, lambda cur: "(%s ++ [%s])" % (cur, x.text), node, cur=b.text)
                    return False
                if m == "remove" and len(e.args) == 1:
                    x = self.expr(e.args[0], et)
                    self.monadic()
                    self.mutate_path(b.path, lambda cur: "(← PyList.remove %s %s %s)" % (A.eq_of(et, self), cur, x.text), node, cur=b.text)
                    return False
                if m == "clear" and not e.args:
                    self.assign_path(b.path, "[]", node, via="mutate")
                    return False
            if b.ty.k == "Set":
                et = b.ty.a[0]
                if m == "add" and len(e.args) == 1:
                    x = self.expr(e.args[0], et)
                    self.mutate_path(b.path, lambda cur: "(PySet.add %s %s %s)" % (A.eq_of(et, self), cur, x.text), node, cur=b.text)
                    return False
                if m == "discard" and len(e.args) == 1:
                    x = self.expr(e.args[0], et)
                    self.mutate_path(b.path, lambda cur: "(PySet.discard %s %s %s)" % (A.eq_of(et, self), cur, x.text), node, cur=b.text)
                    return False
                if m == "remove" and len(e.args) == 1:
                    x = self.expr(e.args[0], et)
                    self.monadic()
                    self.mutate_path(b.path, lambda cur: "(← PySet.remove %s %s %s)" % (A.eq_of(et, self), cur, x.text), node, cur=b.text)
                    return False
                if m == "clear" and not e.args:
                    self.assign_path(b.path, "PySet.empty", node, via="mutate")
                    return False
                if m == "update" and len(e.args) == 1:
                    # `s.update(iterable)`: every element added; the order in which the argument is walked does not show in a set
                    self.set_order_ok = getattr(self, "set_order_ok", 0) + 1
                    try:
                        it, iet, _p, raises = self.iterable(e.args[0])
                    finally:
                        self.set_order_ok -= 1
                    if iet != et:
                        self.fail("set.update with elements of type %r (set of %r)" % (iet, et), node)
                    if raises:
                        self.monadic()
                    self.mutate_path(b.path, lambda cur: "(List.foldl (PySet.add %s) %s %s)" % (A.eq_of(et, self), atom(cur), atom(it)), node, cur=b.text)
                    return False
            if b.ty.k == "Dict":
                if m == "clear" and not e.args:
                    self.assign_path(b.path, "PyDict.empty", node, via="mutate")
                    return False
                eq = A.eq_of(b.ty.a[0], self)
                if m == "update" and len(e.args) == 1:
                    o = self.expr(e.args[0], b.ty)
                    self.mutate_path(b.path, lambda cur: "(PyDict.update %s %s %s)" % (eq, atom(cur), atom(o.text)), node, cur=b.text)
                    return False
                if m == "pop" and len(e.args) == 2 and isinstance(e.args[1], ast.Constant) and e.args[1].value is None:
                    k = self.expr(e.args[0], b.ty.a[0])
                    self.mutate_path(b.path, lambda cur: "(PyDict.popD %s %s %s).2" % (eq, cur, k.text), node, cur=b.text)
                    return False
                if m == "pop" and len(e.args) == 1:
                    k = self.expr(e.args[0], b.ty.a[0])
                    self.monadic()
                    self.mutate_path(b.path, lambda cur: "(← PyDict.pop %s %s %s).2" % (eq, cur, k.text), node, cur=b.text)
                    return False
                if m == "setdefault" and len(e.args) == 2:
                    self.setdefault(b, e, eq)
                    return False
            # method chain whose receiver is an alias-producing expression: `d.setdefault(k, []).append(x)`
            self.fail("expression statement outside the subset: " + ast.unparse(e), node)
        if isinstance(e, ast.Call) and isinstance(e.func, ast.Name) and (None, e.func.id) in A.fns:
            self.call_translated(A.fns[(None, e.func.id)], None, e.args, e)
            return False
        if isinstance(e, ast.Call) and isinstance(e.func, ast.Name) and e.func.id == "heappush" and len(e.args) == 2 and not e.keywords:
            b = self.expr(e.args[0])
            if b.ty.k != "List" or b.path is None:
                self.fail("heappush on something that is not a list lvalue", node)
            x = self.expr(e.args[1], b.ty.a[0])
            self.mutate_path(b.path, lambda cur: "(PyHeap.push %s %s %s)" % (self.lt_of(b.ty.a[0], node), atom(cur), atom(x.text)), node, cur=b.text)
            return False
        if isinstance(e, ast.Call) and isinstance(e.func, ast.Name) and e.func.id == "heappop" and len(e.args) == 1 and not e.keywords:
            self.expr(e)
            return False
        self.fail("expression statement outside the subset: " + ast.unparse(e), node)

    def if_stmt(self, s, rest):
        nt = self.none_test(s.test)
        if nt is not None:
            name, pos_is_none = nt
            none_branch, some_branch = (s.body, s.orelse) if pos_is_none else (s.orelse, s.body)
            v = self.lookup(name)
            inner = v.ty.a[0]
            if self.terminates(none_branch) and not some_branch:
                # `if x is None: <leave>`  ->  `let some x := x | <leave>`; the rest of the block sees x : T
                ln = lean_local(name)
                self.read_var(name, s)
                if len(none_branch) == 1 and not isinstance(none_branch[0], ast.Raise) and self.simple_leave(none_branch[0]):
                    self.emit("let some %s := %s | %s" % (ln, ln, self.simple_leave(none_branch[0])))
                else:
                    self.emit("let some %s := %s | do" % (ln, ln))
                    self.ind += 2
                    self.block(none_branch)
                    self.ind -= 2
                nv = Var(name, inner)
                nv.narrowed = True
                nv.aliases = list(v.aliases)
                self.scopes[-1][name] = nv
                return False
            # general form: match
            ln = lean_local(name)
            self.read_var(name, s)
            self.emit("match %s with" % ln)
            self.emit("| some %s =>" % ln)
            self.scopes.append({})
            nv = Var(name, inner)
            nv.narrowed = True
            nv.aliases = list(v.aliases)
            self.scopes[-1][name] = nv
            self.ind += 1
            t1 = self.block(some_branch, new_scope=False) if some_branch else (self.emit("pure ()") or False)
            self.ind -= 1
            self.scopes.pop()
            self.emit("| none =>")
            self.ind += 1
            t2 = self.block(none_branch) if none_branch else (self.emit("pure ()") or False)
            self.ind -= 1
            return t1 and t2
        # a raising test is lifted in front of the `if` (statement position): Python's order
        if (len(s.body) == 1 and len(s.orelse) == 1 and all(isinstance(b, ast.Assign) and len(b.targets) == 1 and isinstance(b.targets[0], ast.Name)
                                                            for b in (s.body[0], s.orelse[0]))
                and s.body[0].targets[0].id == s.orelse[0].targets[0].id and self.lookup(s.body[0].targets[0].id) is None):
            # a variable defined by both branches of an `if`: one `let` whose value is chosen inside a nested `do`
            name = s.body[0].targets[0].id
            c = self.cond_val(s.test, top=True)
            a = self.expr(s.body[0].value)
            b = self.expr(s.orelse[0].value, a.ty)
            if a.ty != b.ty or is_mutable_ty(a.ty):
                self.fail("the two definitions of %s have different / mutable types" % name, s)
            nv = Var(name, a.ty)
            nv.token = "⟪%s#%d⟫" % (name, len(self.tokens))
            self.tokens[nv.token] = nv
            bind = "←" if (a.raises or b.raises) else ":="
            if a.raises or b.raises:
                self.emit("let%s %s ← (do" % (nv.token, lean_local(name)))
                self.emit("  if %s then" % c.text)
                self.emit("    return %s" % a.text)
                self.emit("  else")
                self.emit("    return %s)" % b.text)
            else:
                self.emit("let%s %s := if %s then %s else %s" % (nv.token, lean_local(name), c.text, a.text, b.text))
            self.scopes[-1][name] = nv
            return False
        st = self.static_cond(s.test)
        if st is not None:
            # a statically decided test (`if TYPE_CHECKING:`): only the live branch exists
            live = s.body if st else s.orelse
            return self.block(live, new_scope=False) if live else False
        c = self.cond_val(s.test, top=True)
        self.emit("if %s then" % c.text)
        self.ind += 1
        t1 = self.block(s.body)
        self.ind -= 1
        t2 = False
        if s.orelse:
            self.emit("else")
            self.ind += 1
            t2 = self.block(s.orelse)
            self.ind -= 1
        return t1 and t2

    def simple_leave(self, st):
        if isinstance(st, ast.Continue):
            return "continue"
        if isinstance(st, ast.Break):
            return "break"
        if isinstance(st, ast.Return):
            if st.value is None:
                return "return ⟦ret:⟧"
            try:
                snap = len(self.lines)
                v = self.expr(st.value, self.ret)
                if len(self.lines) != snap or v.raises:
                    del self.lines[snap:]
                    self.__dict__.get("_once", {}).clear()
                    return None
                return "return ⟦ret:%s⟧" % ("" if self.ret == NONE else v.text)
            except Fail:
                return None
        return None

    def while_stmt(self, s):
        """`while c: body` -> `for _ in List.range (bound + 1) do (if !c then break); body`, then `pyFuel c`: the bound comes from the
        spec (`while_fuel`, a Python expression read before the loop); if it is too small the generated function raises"""
        if s.orelse:
            self.fail("while/else", s)
        fuels = self.spec.get("while_fuel", [])
        k = getattr(self, "n_while", 0)
        self.n_while = k + 1
        if k >= len(fuels):
            self.fail("while loop without a `while_fuel` bound in the spec", s)
        fv = self.expr(ast.parse(fuels[k], mode="eval").body, None)
        if fv.ty not in (NAT,) or fv.raises:
            self.fail("the while_fuel expression must be a pure natural number", s)
        fname = self.fresh("fuel")
        flag = self.fresh("left")
        self.emit("let %s := %s" % (fname, fv.text))
        self.emit("let mut %s := false" % flag)
        self.emit("for _ in List.range (%s + 1) do" % fname)
        self.loop_flags = getattr(self, "loop_flags", []) + [flag]
        self.ind += 1
        self.scopes.append({})
        reads, kills = set(), set()
        self.reads_log.append(reads)
        self.kill_log.append(kills)
        outer_vars = set()
        for sc in self.scopes[:-1]:
            outer_vars.update(sc.values())
        c = self.cond_val(s.test, top=True)
        self.emit("if %s then" % neg(c.text))
        self.emit("  %s := true" % flag)
        self.emit("  break")
        self.block(s.body, new_scope=False)
        self.loop_flags = self.loop_flags[:-1]
        self.scopes.pop()
        self.reads_log.pop()
        self.kill_log.pop()
        self.ind -= 1
        stale = [v.name for v in kills if v in outer_vars and v in reads]
        if stale:
            self.fail("alias %s would be stale on the next iteration of the loop" % ", ".join(sorted(stale)), s)
        self.monadic()
        self.emit("pyFuel (!%s)" % flag)
        return False

    MUTATORS = ("append", "remove", "pop", "add", "clear", "discard", "setdefault", "update", "popleft")

    def mutates_name(self, body, name):
        """does the statement list change (an object reached through) the variable `name`?"""
        def rooted(n):
            while isinstance(n, (ast.Attribute, ast.Subscript)):
                n = n.value
            return isinstance(n, ast.Name) and n.id == name
        for st in body:
            for n in ast.walk(st):
                if isinstance(n, ast.Call) and isinstance(n.func, ast.Attribute) and n.func.attr in self.MUTATORS and rooted(n.func.value):
                    return True
                if isinstance(n, (ast.Assign, ast.AugAssign, ast.AnnAssign, ast.Delete)):
                    tgts = n.targets if isinstance(n, (ast.Assign, ast.Delete)) else [n.target]
                    if any(isinstance(t, (ast.Attribute, ast.Subscript)) and rooted(t) for t in tgts):
                        return True
        return False

    def map_loop(self, s, src, et, ipath):
        """`for x in container: <changes x in place>`: the loop rebuilds the container from the changed elements.  The body may
        not leave early (every element has to be put back) and may not look at the container itself (it would see the old one)"""
        if not isinstance(s.target, ast.Name) or ipath is None:
            self.fail("a loop that changes its loop variable needs a plain variable over an lvalue container", s)
        for st in s.body:
            for n in ast.walk(st):
                if isinstance(n, (ast.Break, ast.Continue, ast.Return)):
                    self.fail("break / continue / return in a loop that changes its loop variable in place", n)
        itext = ast.unparse(s.iter)
        if any(itext in ast.unparse(st) for st in s.body):
            self.fail("a loop that changes its elements in place reads the container it iterates", s)
        acc = self.fresh("acc")
        name = s.target.id
        self.emit("let mut %s : %s := []" % (acc, self.area.lean_ty(T("List", et))))
        self.emit("for %s in %s do" % (lean_local(name), src))
        self.ind += 1
        self.scopes.append({})
        v = self.declare(name, et)
        v.token = None
        v.reassigned = True
        self.emit("let mut %s := %s" % (lean_local(name), lean_local(name)))
        n_mut_before = len(self.lines)
        self.block(s.body, new_scope=False)
        self.emit("%s := %s ++ [%s]" % (acc, acc, lean_local(name)))
        self.scopes.pop()
        self.ind -= 1
        if any(ipath.overlaps(p) for p in self.mutated_paths_since(n_mut_before)):
            self.fail("the loop changes the container it iterates over", s)
        self.assign_path(ipath, acc, s)
        return False

    def for_stmt(self, s):
        if s.orelse:
            self.fail("for/else", s)
        src, et, ipath, raises = self.iterable(s.iter)
        if isinstance(s.target, ast.Name) and is_mutable_ty(et) and self.mutates_name(s.body, s.target.id):
            return self.map_loop(s, src, et, ipath)
        self.scopes.append({})
        reads, kills = set(), set()
        self.reads_log.append(reads)
        self.kill_log.append(kills)
        pat = self.bind_target(s.target, et, s)
        self.emit("for %s in %s do" % (pat, src))
        self.ind += 1
        self.loop_flags = getattr(self, "loop_flags", []) + [None]
        outer_vars = set()
        for sc in self.scopes[:-1]:
            outer_vars.update(sc.values())
        n_mut_before = len(self.lines)
        self.iter_paths = getattr(self, "iter_paths", [])
        self.iter_paths.append(ipath)
        self.block(s.body, new_scope=False)
        self.loop_flags = self.loop_flags[:-1]
        self.iter_paths.pop()
        self.ind -= 1
        self.scopes.pop()
        self.reads_log.pop()
        self.kill_log.pop()
        stale = [v.name for v in kills if v in outer_vars and v in reads]
        if stale:
            self.fail("alias %s would be stale on the next iteration of the loop" % ", ".join(sorted(stale)), s)
        if ipath is not None and any(ipath.overlaps(p) for p in self.mutated_paths_since(n_mut_before)):
            self.fail("the loop changes the container it iterates over", s)
        return False

    def mutated_paths_since(self, n):
        return [p for (i, p) in getattr(self, "mut_log", []) if i >= n]


Fx_assign_path_orig = Fx.assign_path


def _assign_path_logged(self, path, newtext, node, via=None):
    if not hasattr(self, "mut_log"):
        self.mut_log = []
    self.mut_log.append((len(self.lines), path))
    return Fx_assign_path_orig(self, path, newtext, node, via)


Fx.assign_path = _assign_path_logged


# --------------------------------------------------------------------------------------
# driver


def load_module(path, name):
    spec = importlib.util.spec_from_file_location(name, path)
    m = importlib.util.module_from_spec(spec)
    spec.loader.exec_module(m)
    return m


def load_specs():
    common = load_module(HERE / "fnspecs" / "_common.py", "fnspecs_common")
    specs = []
    for f in sorted((HERE / "fnspecs").glob("*.py")):
        if f.name.startswith("_"):
            continue
        specs.append(load_module(f, "fnspecs_" + f.stem))
    return common, specs


def fn_params(fn, has_self, spec, where):
    a = fn.args
    if a.vararg or a.kwarg or a.kwonlyargs or a.posonlyargs or a.defaults or a.kw_defaults:
        raise Fail("%s: only plain positional parameters are in the subset" % where, fn)
    names = [x.arg for x in a.args]
    if has_self:
        if not names or names[0] != "self":
            raise Fail("%s: first parameter is not self" % where, fn)
        names = names[1:]
    want = [p[0] for p in spec["params"]]
    if names != want:
        raise Fail("%s: parameters are now %s (spec: %s)" % (where, names, want), fn)


def translate_function(area, fn, spec, cls):
    """-> (FnInfo, lean text of the definition)"""
    is_static = any(isinstance(d, ast.Name) and d.id == "staticmethod" for d in fn.decorator_list)
    others = [d for d in fn.decorator_list if not (isinstance(d, ast.Name) and d.id == "staticmethod")]
    if others:
        raise Fail("%s: decorators are outside the subset" % fn.name, fn, area.rel)
    if isinstance(fn, ast.AsyncFunctionDef):
        raise Fail("%s: async functions are outside the subset" % fn.name, fn, area.rel)
    has_self = cls is not None and not is_static
    where = (cls + "." if cls else "") + fn.name
    try:
        fn_params(fn, has_self, spec, where)
    except Fail as f:
        f.file = area.rel
        raise
    lean = spec.get("lean") or ((area.cls_lean(cls) + "." if cls else "") + fn.name.strip("_"))
    params = [(n, area.ty(t)) for n, t in spec["params"]]
    info = FnInfo(lean, params, area.ty(spec["ret"]), has_self, cls)
    fx = Fx(area, info, fn, spec, cls)
    if has_self:
        v = fx.declare("self", area.self_ty(cls), is_param=True)
    for n, t in params:
        fx.declare(n, t, is_param=True)
    body = gen_lean.strip_doc(fn.body)
    term = fx.block(body, new_scope=False)
    if not term:
        if info.ret != NONE:
            raise Fail("%s: control can reach the end of a function returning %r" % (where, info.ret), fn, area.rel)
        fx.emit_return(None)
    # patch returns, `let mut`
    pnames = (["self"] if has_self else []) + [n for n, _ in params]
    info.mutated = [p for p in pnames if p in info.mutated]
    eff_ty = getattr(area.spec, "EFFECTS", {}).get("type")
    rt_comps = ([] if info.ret == NONE else [area.lean_ty(info.ret)]) + \
               [area.lean_ty(area.self_ty(cls)) if p == "self" else area.lean_ty(dict(params)[p]) for p in info.mutated] + \
               (["(List %s)" % eff_ty] if info.effects else [])
    rty = "Unit" if not rt_comps else (rt_comps[0] if len(rt_comps) == 1 else "(" + " × ".join(rt_comps) + ")")
    out = []
    for ln in fx.lines:
        while "⟦ret:" in ln:
            i = ln.index("⟦ret:")
            j = ln.index("⟧", i)
            val = ln[i + 5:j]
            comps = ([val] if info.ret != NONE else []) + [lean_local(p) for p in info.mutated] + (["effects"] if info.effects else [])
            txt = "()" if not comps else (comps[0] if len(comps) == 1 else "(" + ", ".join(comps) + ")")
            ln = ln[:i] + txt + ln[j + 1:]
        for tok, v in fx.tokens.items():
            if tok in ln:
                ln = ln.replace(tok, " mut" if v.reassigned else "")
        out.append(ln)
    head = []
    for p in info.mutated:
        head.append("  let mut %s := %s" % (lean_local(p), lean_local(p)))
    if info.effects:
        head.append("  let mut effects : List %s := []" % eff_ty)
    sig = "".join(" (%s : %s)" % (lean_local(n), area.lean_ty(area.self_ty(cls)) if n == "self" else area.lean_ty(dict(params)[n])) for n in pnames)
    for e in spec.get("env", []):
        if len(e) == 3:
            sig += " (%s : %s)" % (lean_local(e[0].replace(".", "_")), " → ".join([area.lean_ty(area.ty(t)) for t in e[2]] + [area.lean_ty(area.ty(e[1]))]))
        else:
            sig += " (%s : %s)" % (lean_local(e[0]), area.lean_ty(area.ty(e[1])))
    info.env = list(spec.get("env", []))
    low = " (lower : String → String)" if info.uses_lower else ""
    doc = "/-- `%s` (%s:%d)%s%s%s -/" % (where, area.rel, fn.lineno, "" if not info.mutated else "; returns " + ("the result and " if info.ret != NONE else "") + "the changed " + ", ".join(info.mutated),
                                      "" if not info.effects else "; and the effects it caused, in order",
                                      "" if spec.get("set_order") != "insertion" else "; SPEC ASSUMPTION: sets are iterated in insertion order (CPython: hash order)")
    if info.monadic:
        hdr = "def %s%s%s : Except PyExc %s := do" % (lean, low, sig, rty)
    else:
        hdr = "def %s%s%s : %s := Id.run do" % (lean, low, sig, rty)
    return info, "\n".join([doc, hdr] + head + out) + "\n"


def translate_init(area, cdef, cspec):
    """`__init__`: every spec'd field is assigned exactly once, an empty container or a constant -> `def <Class>.init`"""
    cls = cspec["py"]
    init = None
    for n in cdef.body:
        if isinstance(n, ast.FunctionDef) and n.name == "__init__":
            init = n
    if init is None:
        raise Fail("class %s has no __init__" % cls, cdef, area.rel)
    if [a.arg for a in init.args.args] != ["self"] + [p[0] for p in cspec.get("init_params", [])]:
        raise Fail("%s.__init__: parameters changed" % cls, init, area.rel)
    fs = area.fields[cls]
    vals = {}
    iparams = [(n, area.ty(t)) for n, t in cspec.get("init_params", [])]
    info = FnInfo(area.cls_lean(cls) + ".init", iparams, NONE, False, cls)
    fx = Fx(area, info, init, {"params": []}, cls)
    for n, t in iparams:
        fx.declare(n, t, is_param=True)
    init_env = cspec.get("init_env", {})
    for s in gen_lean.strip_doc(init.body):
        t0 = s.target if isinstance(s, ast.AnnAssign) else (s.targets[0] if isinstance(s, ast.Assign) and len(s.targets) == 1 else None)
        if isinstance(t0, ast.Attribute) and t0.attr in init_env:
            # a field initialised from the environment (`time.get_clock_info(...)`): an extra parameter of `init`
            vals[t0.attr] = lean_local(init_env[t0.attr])
            continue
        if isinstance(s, ast.AnnAssign) and s.value is not None:
            tgt, val = s.target, s.value
        elif isinstance(s, ast.Assign) and len(s.targets) == 1:
            tgt, val = s.targets[0], s.value
        else:
            raise Fail("%s.__init__: statement outside the subset" % cls, s, area.rel)
        if not (isinstance(tgt, ast.Attribute) and isinstance(tgt.value, ast.Name) and tgt.value.id == "self"):
            raise Fail("%s.__init__: assignment to something other than self.<field>" % cls, s, area.rel)
        if tgt.attr not in fs:
            raise Fail("%s.__init__ assigns the field %s which the spec does not list" % (cls, tgt.attr), s, area.rel)
        if tgt.attr in vals:
            raise Fail("%s.__init__ assigns %s twice" % (cls, tgt.attr), s, area.rel)
        vals[tgt.attr] = fx.expr(val, fs[tgt.attr][1]).text
    for f, (lf, ft) in fs.items():
        if ft.k == "Store":
            vals[f] = "PyStore.empty"
    missing = [f for f in fs if f not in vals]
    if missing:
        raise Fail("%s.__init__ no longer assigns %s" % (cls, ", ".join(missing)), init, area.rel)
    body = ", ".join("%s := %s" % (fs[f][0], vals[f]) for f in fs)
    if fx.lines or info.monadic:
        raise Fail("%s.__init__: an initialiser with statements / raise sites is outside the subset" % cls, init, area.rel)
    sig = "".join(" (%s : %s)" % (lean_local(n), area.lean_ty(t)) for n, t in iparams)
    sig += "".join(" (%s : %s)" % (lean_local(pn), area.lean_ty(fs[f][1])) for f, pn in init_env.items())
    area.inits[cls] = iparams
    return "/-- `%s.__init__` (%s:%d) -/\ndef %s.init%s : %s := { %s }\n" % (cls, cspec.get("source", area.rel), init.lineno, area.cls_lean(cls), sig, area.cls_lean(cls), body)


def calls_in(fn, cls, keys):
    out = set()
    for n in ast.walk(fn):
        if isinstance(n, ast.Call):
            if isinstance(n.func, ast.Attribute) and isinstance(n.func.value, ast.Name) and n.func.value.id == "self" and (cls, n.func.attr) in keys:
                out.add((cls, n.func.attr))
            if isinstance(n.func, ast.Name) and (None, n.func.id) in keys:
                out.add((None, n.func.id))
    return out


def class_pins(c, cdef, tree, rel):
    """what decides *which* body runs for a spec'd class is pinned: base classes, class decorators, `__slots__`, assignments to the
    class's attributes at module level, subclasses in the same module that override a translated method, properties / other
    definitions shadowing a translated method"""
    cls = c["py"]
    bases = [ast.unparse(b) for b in cdef.bases]
    if bases != c.get("bases", []):
        raise Fail("class %s now derives from %s (spec: %s)" % (cls, bases, c.get("bases", [])), cdef, rel)
    if cdef.decorator_list or cdef.keywords:
        raise Fail("class %s has decorators / a metaclass" % cls, cdef, rel)
    translated = {m["name"] for m in c["methods"]} | (set() if c.get("opaque") else {"__init__"})
    fieldnames = {f[0] for f in c["fields"]}
    for n in cdef.body:
        if isinstance(n, ast.Assign) and any(isinstance(t, ast.Name) and t.id == "__slots__" for t in n.targets) and not c.get("opaque"):
            try:
                slots = set(ast.literal_eval(n.value))
            except (ValueError, SyntaxError):
                raise Fail("class %s: __slots__ is not a literal" % cls, n, rel)
            if not fieldnames <= slots:
                raise Fail("class %s: __slots__ lacks the spec'd fields %s" % (cls, sorted(fieldnames - slots)), n, rel)
        if isinstance(n, (ast.Assign, ast.AnnAssign)):
            tg = n.targets if isinstance(n, ast.Assign) else [n.target]
            for t in tg:
                if isinstance(t, ast.Name) and t.id in translated:
                    raise Fail("class %s: the translated method %s is re-bound in the class body" % (cls, t.id), n, rel)
    for n in ast.walk(tree):
        if isinstance(n, (ast.Assign, ast.AugAssign, ast.AnnAssign, ast.Delete)):
            tg = n.targets if isinstance(n, (ast.Assign, ast.Delete)) else [n.target]
            for t in tg:
                if isinstance(t, ast.Attribute) and isinstance(t.value, ast.Name) and t.value.id == cls:
                    raise Fail("module-level code assigns to %s.%s" % (cls, t.attr), n, rel)
        if isinstance(n, ast.Call) and isinstance(n.func, ast.Name) and n.func.id in ("setattr", "delattr") and n.args \
                and isinstance(n.args[0], ast.Name) and n.args[0].id == cls:
            raise Fail("setattr/delattr on the class %s" % cls, n, rel)
        if isinstance(n, ast.ClassDef) and n is not cdef and any(ast.unparse(b) == cls for b in n.bases):
            over = [m.name for m in n.body if isinstance(m, (ast.FunctionDef, ast.AsyncFunctionDef)) and m.name in translated]
            if over:
                raise Fail("class %s overrides the translated method(s) %s of %s" % (n.name, ", ".join(over), cls), n, rel)


def gen_area(repo, spec, common, cenv):
    src = pathlib.Path(repo) / "src" / "zeroconf"
    rel = spec.SOURCE
    try:
        tree = ast.parse((src / rel).read_text())
    except (OSError, SyntaxError) as ex:
        raise Fail("cannot parse: %s" % ex, file=rel)
    # a function equal to its validated baseline up to a bijective renaming of its bound names is read with the baseline's
    # spelling (tools/alpha.py, shared with gen_lean): the generated text, and with it the build, does not change
    try:
        import alpha

        alpha.normalise(tree, rel)
    except ImportError:
        pass
    try:
        consts, _found = gen_lean.module_consts(tree, cenv)
    except Fail as f:
        f.file = f.file or rel
        raise
    # constants the module imports from other modules of the library (`from .answers import MULTICAST_DELAY_RANDOM_INTERVAL`)
    for rel2 in getattr(spec, "CONSTS_FROM", []):
        try:
            _env2, found2 = gen_lean.module_consts(ast.parse((src / rel2).read_text()), cenv)
        except (OSError, SyntaxError) as ex:
            raise Fail("cannot parse: %s" % ex, file=rel2)
        stem = pathlib.PurePosixPath(rel2).stem
        for n in tree.body:
            if isinstance(n, ast.ImportFrom) and (n.module or "").split(".")[-1] == stem:
                for a in n.names:
                    if a.name in found2 and a.asname is None:
                        consts[a.name] = found2[a.name]
    area = Area(spec, common, tree, consts, rel)
    # collect the functions to translate
    todo = {}  # key -> (fn node, spec, cls)
    order = []
    for fs in getattr(spec, "FUNCTIONS", []):
        try:
            fn = gen_lean.find_def(tree, fs["name"])
        except Fail as f:
            f.file = rel
            raise
        todo[(None, fs["name"])] = (fn, fs, None)
        order.append((None, fs["name"]))
    cdefs = {}
    for c in spec.CLASSES:
        ctree, crel = tree, rel
        if c.get("source"):
            crel = c["source"]
            try:
                ctree = ast.parse((src / crel).read_text())
            except (OSError, SyntaxError) as ex:
                raise Fail("cannot parse: %s" % ex, file=crel)
            try:
                import alpha

                alpha.normalise(ctree, crel)
            except ImportError:
                pass
        try:
            cdef = gen_lean.find_def(ctree, c["py"])
        except Fail as f:
            f.file = crel
            raise
        cdefs[c["py"]] = cdef
        class_pins(c, cdef, ctree, crel)
        for ms in c["methods"]:
            try:
                fn = gen_lean.find_def(tree, c["py"] + "." + ms["name"])
            except Fail as f:
                f.file = rel
                raise
            key = (c["py"], ms["name"])
            if key in todo:
                # a second typing of a parameter of union type: its own Lean name, not callable from translated code
                if not ms.get("lean"):
                    raise Fail("second variant of %s needs a `lean` name" % ms["name"], fn, rel)
                key = (c["py"], ms["name"] + "#" + ms["lean"])
            todo[key] = (fn, ms, c["py"])
            order.append(key)
    # callee-first order (source order otherwise); recursion is outside the subset
    deps = {k: calls_in(todo[k][0], todo[k][2], set(todo)) - {k} for k in order}
    for k in order:
        if k in calls_in(todo[k][0], todo[k][2], {k}):
            raise Fail("%s is recursive" % k[1], todo[k][0], rel)
    done, seq = set(), []

    def visit(k, stack):
        if k in done:
            return
        if k in stack:
            raise Fail("mutual recursion through %s" % k[1], todo[k][0], rel)
        for d in sorted(deps[k], key=order.index):
            visit(d, stack | {k})
        done.add(k)
        seq.append(k)

    for k in order:
        visit(k, frozenset())
    lines = ["/- GENERATED by tools/gen_fn.py from /repo/src/zeroconf/%s -- do not edit -/" % rel, "import Zc.Py.Runtime"]
    lines += ["import %s" % m for m in spec.IMPORTS]
    lines += ["set_option linter.unusedVariables false", "namespace Zc.GenFn.%s" % spec.AREA, "open Zc Zc.Py", ""]
    if getattr(spec, "PRELUDE_LEAN", None):
        lines += [spec.PRELUDE_LEAN.strip("\n"), ""]
    # facts about the rest of the library that the spec types assert (tools/fn_pins.py): fail closed
    import fn_pins

    try:
        fn_pins.check_spec(repo, spec)
        used = {o for o in common.OPAQUE if o in repr(spec.CLASSES) + repr(getattr(spec, "FUNCTIONS", [])) + repr(getattr(spec, "PYTYPES", {}))}
        used |= {common.PYTYPES[k] for k in common.PYTYPES if k in repr(spec.CLASSES) + repr(getattr(spec, "FUNCTIONS", []))}
        fn_pins.check_truthy(repo, common, used)
    except fn_pins.PinFail as ex:
        raise Fail("source pin of the %s spec: %s" % (spec.AREA, ex), file=rel)
    if getattr(spec, "SOURCE_PINS_DOC", None):
        lines += ["/-! SOURCE PINS (tools/fn_pins.py, checked at stage T on every run; a violated pin fails this area):", spec.SOURCE_PINS_DOC.strip("\n"), "-/", ""]
    # helper functions of other modules whose definition the translation relies on (e.g. millis_to_seconds(x) = x / 1000.0)
    for pin in getattr(spec, "PINS", []):
        try:
            ptree = ast.parse((src / pin["source"]).read_text())
            pfn = gen_lean.find_def(ptree, pin["def"])
            got = ast.unparse(gen_lean.single_return(pfn))
        except (OSError, SyntaxError, Fail) as ex:
            raise Fail("pinned helper %s: %s" % (pin["def"], getattr(ex, "msg", ex)), file=pin["source"])
        if got != pin["returns"]:
            raise Fail("pinned helper %s now returns `%s` (the translation assumes `%s`)" % (pin["def"], got, pin["returns"]), pfn, pin["source"])
    for c in spec.CLASSES:
        cdef = cdefs[c["py"]]
        if c.get("opaque"):
            lines.append("/-! class `%s` (%s:%d): its objects are the model type `%s` -/\n" % (c["py"], rel, cdef.lineno, area.opaque[c["opaque"]]["lean"]))
            continue
        lines.append("/-- class `%s` (%s:%d) -/" % (c["py"], c.get("source", rel), cdef.lineno))
        lines.append("structure %s where" % area.cls_lean(c["py"]))
        for f, (lf, ft) in area.fields[c["py"]].items():
            lines.append("  %s : %s" % (lf, area.lean_ty(ft)))
        if c.get("identity"):
            lines.append("  deriving Inhabited")
        lines.append("")
        if c.get("no_init"):
            lines.append("/-! `%s.__init__` is not translated (spec `no_init`): the equations state the fresh object by hand -/\n" % c["py"])
        else:
            lines.append(translate_init(area, cdef, c))
    names = set()
    for k in seq:
        fn, fs, cls = todo[k]
        info, text = translate_function(area, fn, fs, cls)
        if info.lean in names:
            raise Fail("two functions translate to the Lean name %s (give `lean` in the spec)" % info.lean, fn, rel)
        names.add(info.lean)
        area.fns[k] = info
        lines.append(text)
    lines += ["end Zc.GenFn.%s" % spec.AREA, ""]
    meta = {"%s%s" % ((k[0] + ".") if k[0] else "", k[1]): {"lean": "Zc.GenFn.%s.%s" % (spec.AREA, area.fns[k].lean), "monadic": area.fns[k].monadic,
            "mutated": area.fns[k].mutated, "uses_lower": area.fns[k].uses_lower, "lines": (todo[k][0].end_lineno - todo[k][0].lineno + 1)} for k in seq}
    return "\n".join(lines), meta


def gen(repo, outdir, failures=None):
    """-> (changed files, {area: {function: meta}}).
    `failures`: when a dict is passed, an area with a function that left the subset no longer aborts the whole translation:
    the failure is recorded (`failures[area] = "file:line: message"`), that area's file is put back to the committed
    (validated) text, every other area is generated as usual.  Only the properties whose proofs import `Zc.GenFn.<area>`
    have their tie broken (decided by `check`)."""
    common, specs = load_specs()
    src = pathlib.Path(repo) / "src" / "zeroconf"
    try:
        cenv, _ = gen_lean.module_consts(ast.parse((src / "const.py").read_text()), {})
    except (OSError, SyntaxError) as ex:
        raise Fail("cannot parse: %s" % ex, file="const.py")
    files, metas = {}, {}
    for spec in specs:
        try:
            text, meta = gen_area(repo, spec, common, cenv)
        except Fail as f:
            if failures is None:
                raise
            failures[spec.AREA] = "%s:%s: %s" % (f.file or spec.SOURCE, getattr(f.node, "lineno", "?") if f.node is not None else "?", f.msg)
            files[spec.AREA + ".lean"] = None
            metas[spec.AREA] = {}
            continue
        files[spec.AREA + ".lean"] = text
        metas[spec.AREA] = meta
    outdir = pathlib.Path(outdir)
    outdir.mkdir(parents=True, exist_ok=True)
    changed = []
    for name, text in files.items():
        p = outdir / name
        if text is None:
            # keeps its committed (validated) text
            import subprocess

            r = subprocess.run(["git", "show", "HEAD:lean/Zc/GenFn/%s" % name], cwd=str(ROOT), stdout=subprocess.PIPE, stderr=subprocess.DEVNULL)
            if r.returncode == 0 and (not p.exists() or p.read_bytes() != r.stdout):
                p.write_bytes(r.stdout)
                changed.append(name + "(committed)")
            continue
        if not p.exists() or p.read_text() != text:
            p.write_text(text)
            changed.append(name)
    for p in outdir.glob("*.lean"):
        if p.name not in files:
            p.unlink()
            changed.append("-" + p.name)
    return changed, metas


def main():
    ap = argparse.ArgumentParser()
    ap.add_argument("--repo", default="/repo")
    ap.add_argument("--out", default=str(ROOT / "lean" / "Zc" / "GenFn"))
    a = ap.parse_args()
    try:
        changed, metas = gen(a.repo, a.out)
    except Fail as f:
        line = getattr(f.node, "lineno", "?") if f.node is not None else "?"
        print("translation broke at %s:%s: %s" % (f.file or "?", line, f.msg))
        sys.exit(3)
    n = sum(len(m) for m in metas.values())
    print("gen_fn: %d functions in %d areas; changed: %s" % (n, len(metas), ", ".join(changed) or "nothing"))


if __name__ == "__main__":
    main()
