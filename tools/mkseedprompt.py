#!/venv/bin/python
"""tools/mkseedprompt.py <PROP> <worktree-dir> <branch>  ->  the brief for an independent seeding sub-agent on stdout.

The sub-agent gets only the property text (from properties.jsonl) and its own scratch worktree of /repo; the list of
earlier seeds (first line of each seeded/<PROP>-*/notes.md and the files the patch touches) keeps a new round from
repeating them.  Nothing else from /verif is revealed."""
import json, pathlib, re, sys
ROOT = pathlib.Path(__file__).resolve().parent.parent
prop, wt, branch = sys.argv[1:4]
P = None
for l in open(ROOT / "properties.jsonl"):
    j = json.loads(l)
    if j["id"] == prop:
        P = j
done = []
for d in sorted((ROOT / "seeded").glob(prop + "-*")):
    if "-x-" in d.name:
        continue
    n = d / "notes.md"
    patch = (d / "patch.diff").read_text() if (d / "patch.diff").exists() else ""
    files = sorted(set(re.findall(r"^\+\+\+ b/(\S+)", patch, re.M)))
    hunks = re.findall(r"^@@.*@@\s*(.*)$", patch, re.M)
    title = ""
    if n.exists():
        for line in n.read_text().splitlines():
            if line.strip():
                title = re.sub(r"^#+\s*", "", line.strip())
                break
    done.append("   - %s  [%s%s]" % (title[:200], ", ".join(files), ("; in " + hunks[0][:80]) if hunks else ""))
T = """You are testing how robust a semantic property of an open-source Python library is against subtle regressions. The library is python-zeroconf (pure-Python mDNS / DNS-SD). You have your OWN scratch git worktree of its repository at {wt} (branch {branch}); work ONLY inside that directory. Do not read or touch /verif or /repo, and do not look for any verification tooling: your result must be independent of it. Python to use: /venv/bin/python (3.12; run the library from your worktree with `cd {wt} && PYTHONPATH={wt}/src PYTHONDONTWRITEBYTECODE=1 /venv/bin/python ...`; check with `python -c "import zeroconf; print(zeroconf.__file__)"` that your copy is the one imported). No network.

THE PROPERTY (this is all the specification you get):
  Title: {title}
  Statement: {statement}
  Quantified over: {quant}
  Anchored in: {files}

ALREADY DONE BY EARLIER ROUNDS (do NOT repeat these or close variants of them; pick different functions/mechanisms):
{done}

YOUR TASK: produce 3 DIFFERENT realistic changes ("seeded defects") to the library source under {wt}/src/zeroconf, each of which
  (a) BREAKS the property above for some input / schedule / history,
  (b) still imports fine and PASSES the existing test suite unchanged (NOTE: other jobs on this machine share the loopback mDNS group, which makes socket-based tests fail at random even on unchanged source; run the suite inside a private network namespace: `unshare -n bash -c 'ip link set lo up; ip route add 224.0.0.0/4 dev lo; cd {wt} && PYTHONPATH={wt}/src /venv/bin/python -m pytest -q -p no:cacheprovider --timeout=900 tests'`; there the unchanged source gives 294 passed and 1 IPv6-only failure, tests/services/test_types.py::test_integration_with_listener_ipv6, which passes in the normal namespace; the whole suite takes ~2 minutes),
  (c) looks like a plausible slip or "optimisation" a maintainer could make (off-by-one in a boundary, a dropped or reordered step, a wrong comparison, a cache that is not invalidated, a lower-cased vs spelled name mix-up, an early return, a unit mix-up, a refactoring that changes evaluation order ...), ideally a SINGLE-SITE edit of a few lines, and
  (d) needs something SPECIFIC to manifest - a particular interleaving or timing, a fault at a particular point, a multi-step sequence of operations, an unusual input, or two cooperating sites that each look fine alone - NOT something ordinary use would expose at once and not something the existing tests already catch.
Make the 3 changes as different from each other as you can (different functions / mechanisms), and different from the earlier rounds listed above. Prefer changes inside the anchored files, but a change in a helper they rely on is welcome when it breaks THIS property.

For EACH change deliver, under {wt}/seeded/<k>/ (k = 1..3):
  - patch.diff : `git diff` of ONLY that change against the worktree's HEAD (apply-able with `git apply` at the repository root; reset the source with `git checkout -- src` between changes so the patches are independent);
  - demo.py : a small self-contained program (standard library + the library itself; run as `PYTHONPATH=<repo>/src /venv/bin/python demo.py`) that exits 0 and prints PASS on the unchanged source and exits 1 and prints FAIL (with a one-line explanation of the observed misbehaviour) when the patch is applied. It must demonstrate a violation of the PROPERTY as stated (not merely a behavioural difference). Keep it deterministic (no real network, no sleeps longer than a second or two; patch clocks / use the library's own objects directly where possible);
  - notes.md : 5-10 lines, first line a one-line title of the change: what was changed, why it breaks the property, what exactly is needed for it to manifest, which tests you ran and that they pass.
Verify each yourself: demo passes without the patch, fails with it, the suite passes with it. Leave the worktree's source clean (`git checkout -- src`) at the end; leave the seeded/ directory in place. Do not commit.

FINAL REPLY: for each change one paragraph (file/function, the edit in words, trigger condition, tests run), plus the paths of the three files."""
print(T.format(wt=wt, branch=branch, title=P["title"], statement=P["statement"], quant=P["quantifier"]["text"],
               files=", ".join(P["anchors"]["files"]), done="\n".join(done) or "   (none)"))
