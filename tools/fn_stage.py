"""Stage T, second half (FN work package): regenerate lean/Zc/GenFn/*.lean from the function bodies of the tree under
test (tools/gen_fn.py) and run the translator's differential self-test (tools/fn_selftest.py).

Called by `check` after the leaf translator.  A translation failure restores the committed GenFn files (so that the
models and the equivalence proofs still build against the last good translation) and is reported through the same
"translation broke at file:line" path as gen_lean's."""
from __future__ import annotations

import subprocess


def run(root, lean, repo, Lock):
    import gen_fn

    failed = {}
    try:
        changed, metas = gen_fn.gen(repo, lean / "Zc" / "GenFn", failed)
    except gen_fn.Fail as f:
        line = getattr(f.node, "lineno", "?") if f.node is not None else "?"
        subprocess.run(["git", "checkout", "--", "lean/Zc/GenFn"], cwd=root, stdout=subprocess.PIPE, stderr=subprocess.STDOUT)
        return {"ok": False, "broken": "translation broke at %s:%s: %s" % (f.file or "?", line, f.msg)}
    import fn_selftest

    with Lock(lean / ".build.lock"):
        ok, msg, n = fn_selftest.run(lean, repo, skip=set(failed))
    if not ok and fn_selftest.run.bad_areas:
        # the generated function of an area and the real code disagree: that area's tie is broken, not the others'
        for a, m in fn_selftest.run.bad_areas.items():
            failed[a] = "function-translator self-test: " + m
        ok, n = True, 0
    if not ok:
        return {"ok": False, "broken": "function-translator self-test: " + msg, "changed": changed}
    # `failed_areas`: GenFn modules with a function that left the subset (they keep their committed text).  Whether that
    # breaks the tie of a given property depends on whether its proofs import the module: decided in `check`.
    return {"ok": True, "changed": changed, "functions": sum(len(m) for m in metas.values()), "selftest_cases": n, "failed_areas": failed}
