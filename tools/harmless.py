#!/venv/bin/python
"""tools/harmless.py <out-dir> [repo]   build a behaviour-preserving variant of the library for false-alarm testing.

Every function's bound local names are renamed (`x` -> `x_v`) and every module is re-emitted with `ast.unparse` (comments gone,
layout normalised).  The result has the same behaviour; `VERIF_REPO=<out-dir> ./check all quick` must exit 0 on it
(DESIGN §9: before tools/alpha.py every property alarmed on a single renamed local)."""
import ast
import pathlib
import shutil
import sys

sys.path.insert(0, str(pathlib.Path(__file__).resolve().parent))
import alpha

out = pathlib.Path(sys.argv[1])
repo = pathlib.Path(sys.argv[2] if len(sys.argv) > 2 else "/repo")
if out.exists():
    shutil.rmtree(out)
shutil.copytree(repo / "src", out / "src")
n = 0
for p in sorted((out / "src" / "zeroconf").rglob("*.py")):
    tree = ast.parse(p.read_text())
    for _qual, fn in alpha.functions(tree):
        bound, _own = alpha.bound_names(fn)
        m = {b: b + "_v" for b in bound if not b.startswith("__")}
        if m:
            alpha.rename_locals(fn, m)
            n += len(m)
    p.write_text(ast.unparse(tree) + "\n")
print("%d local names renamed under %s" % (n, out))
