#!/venv/bin/python
"""three-way merge of known_findings.json during a conflicted `git merge` (stages 1/2/3): entries are keyed by
(property, sig); an entry added or changed on their side relative to the base is taken, everything else stays ours."""
import json, subprocess, sys
def stage(n):
    try:
        return json.loads(subprocess.run(["git", "show", ":%d:known_findings.json" % n], capture_output=True, text=True, check=True).stdout)
    except Exception:
        return {"entries": []}
base, ours, theirs = stage(1), stage(2), stage(3)
if not ours["entries"] or not theirs["entries"]:
    sys.exit("known_findings.json is not in a conflicted merge (no stages): nothing done")
key = lambda e: (e.get("property"), e.get("sig"))
b = {key(e): e for e in base["entries"]}
o = {key(e): e for e in ours["entries"]}
out = list(ours["entries"])
for e in theirs["entries"]:
    k = key(e)
    if k not in b and k not in o:
        out.append(e); print("added from theirs:", k)
    elif k in b and e != b[k] and o.get(k) == b[k]:
        out = [e if key(x) == k else x for x in out]; print("changed by theirs:", k)
# entries theirs deleted relative to base and ours left untouched
tk = {key(e) for e in theirs["entries"]}
for k in list(b):
    if k not in tk and k in o and o[k] == b[k]:
        out = [x for x in out if key(x) != k]; print("deleted by theirs:", k)
ours["entries"] = out
open("known_findings.json", "w").write(json.dumps(ours, indent=1))
print(len(out), "entries")
