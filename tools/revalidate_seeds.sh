#!/bin/bash
# usage: tools/revalidate_seeds.sh [workers=4] [name-glob]
# Re-runs every stored seeded defect (seeded/*/patch.diff) against the CURRENT /repo HEAD and the current checks, on
# private clones (tools/seedbatch.sh).  A patch that no longer applies, or whose demo no longer fails because a later
# `fix:` commit repaired the code it relied on, is marked stale in its meta.json (it is kept for the record).
set -u
HERE=$(cd "$(dirname "$0")/.." && pwd)
W=${1:-4}; GLOB=${2:-*}
rm -rf /tmp/reval; mkdir -p /tmp/reval
: > /tmp/reval/jobs.txt
for d in "$HERE"/seeded/$GLOB/; do
  n=$(basename "$d"); [ -f "$d/patch.diff" ] || continue
  p=$(python3 -c "import json;print(json.load(open('$d/meta.json'))['property'])")
  cp -r "$d" /tmp/reval/$n
  echo "$p /tmp/reval/$n $n" >> /tmp/reval/jobs.txt
done
wc -l /tmp/reval/jobs.txt
"$HERE/tools/seedbatch.sh" /tmp/reval/jobs.txt $W > /tmp/reval/log.txt 2>&1
HEAD=$(git -C /repo rev-parse --short HEAD)
python3 - "$HERE" "$HEAD" <<'PY'
import json, re, sys, pathlib
here, head = pathlib.Path(sys.argv[1]), sys.argv[2]
log = open("/tmp/reval/log.txt").read()
blocks = re.split(r"^== \[\d+\] ", log, flags=re.M)[1:]
for b in blocks:
    name = b.split(" ", 1)[0]
    mp = here / "seeded" / name / "meta.json"
    if not mp.exists():
        continue
    m = json.loads(mp.read_text())
    m["revalidated_on"] = head
    if "PATCH DOES NOT APPLY" in b:
        m["stale"] = "the patch no longer applies to /repo %s (a later fix: commit changed its context); last verdict kept" % head
    else:
        c = m.get("confirmed", {})
        if c.get("demo_exit_patched") == 0:
            m["stale"] = "on /repo %s the demo no longer fails with the patch applied (a later fix: commit repaired what it relied on)" % head
            m["detected"] = None
        else:
            m.pop("stale", None)
    mp.write_text(json.dumps(m, indent=1))
print("done")
PY
grep -E "^==|^demo|PATCH" /tmp/reval/log.txt | paste - - | awk '{print $3, $NF, $(NF-1)}' | sort > /tmp/reval/summary.txt
grep -c "detected=True" /tmp/reval/summary.txt; grep -v "detected=True" /tmp/reval/summary.txt
