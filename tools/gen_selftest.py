"""Translator self-test (DESIGN §2.1): every generated leaf is evaluated in Lean and the
original Python expression is eval-ed on the same boundary-biased argument tuples."""
from __future__ import annotations

import ast
import hashlib
import json
import pathlib
import random
import re
import subprocess

import gen_lean

POOL = [0, 1, 2, 3, 4, 5, 7, 8, 10, 12, 15, 16, 20, 28, 33, 47, 62, 63, 64, 65, 119, 120, 121, 127, 128, 129, 191, 192, 193,
        249, 250, 251, 252, 253, 254, 255, 256, 257, 499, 500, 501, 998, 999, 1000, 1001, 1124, 1125, 1126, 1459, 1460, 1461,
        4500, 5353, 8965, 8966, 8967, 16383, 16384, 16385, 32767, 32768, 32769, 65535, 65536, 1000000, 1000999, 1001000,
        1120000, 1125000, 4500000, 2**31, 2**32 - 1, 2**32]


def py_eval_factory(leaf, consts):
    names = {p[0]: p[1] for p in leaf["params"]}
    tree = ast.parse(leaf["expr"], mode="eval")

    class Sub(ast.NodeTransformer):
        def generic_visit(self, node):
            if isinstance(node, ast.expr):
                try:
                    s = ast.unparse(node)
                except Exception:
                    s = None
                if s in names:
                    return ast.copy_location(ast.Name(id="P_" + names[s], ctx=ast.Load()), node)
            return super().generic_visit(node)

    tree = ast.fix_missing_locations(Sub().visit(tree))
    code = compile(tree, "<leaf>", "eval")
    env = dict(consts)
    env.update({"int": int, "float": float, "_int": int, "_float": float, "bool": bool, "len": len, "max": max, "min": min})

    def f(args):
        loc = {"P_" + p[1]: a for p, a in zip(leaf["params"], args)}
        return eval(code, env, loc)

    return f


def samples_for(leaf, pyf, rng, n=160):
    params = leaf["params"]
    nat = leaf["opts"].get("nat", False)

    def rnd_val(ty):
        if ty == "bool":
            return rng.random() < 0.5
        v = rng.choice(POOL) + rng.choice([0, 0, 0, 1, -1])
        if rng.random() < 0.2:
            v = rng.choice(POOL) + rng.choice(POOL) * rng.choice([1, 10, 250, 500, 1000])
        return max(0, v) if (nat or True) else v

    tuples = []
    for _ in range(n):
        tuples.append(tuple(rnd_val(p[2]) for p in params))
    # boundary search for boolean leaves
    if leaf["rty"] == "bool":
        base = list(tuples[:60])
        for t in base:
            for i, p in enumerate(params):
                if p[2] != "num":
                    continue
                lo, hi = 0, 2**34
                try:
                    flo = pyf(t[:i] + (lo,) + t[i + 1:])
                    fhi = pyf(t[:i] + (hi,) + t[i + 1:])
                except Exception:
                    continue
                if flo == fhi:
                    continue
                while hi - lo > 1:
                    mid = (lo + hi) // 2
                    if pyf(t[:i] + (mid,) + t[i + 1:]) == flo:
                        lo = mid
                    else:
                        hi = mid
                tuples.append(t[:i] + (lo,) + t[i + 1:])
                tuples.append(t[:i] + (hi,) + t[i + 1:])
    return tuples


def lean_lit(v, nat):
    if isinstance(v, bool):
        return "true" if v else "false"
    if v < 0:
        return "(%d)" % v
    return "(%d)" % v


def run(lean_dir, repo):
    lean_dir = pathlib.Path(lean_dir)
    spec = json.loads((lean_dir / ".gen_selftest.json").read_text())
    gen_dir = lean_dir / "Zc" / "Gen"
    h = hashlib.sha1()
    for p in sorted(gen_dir.glob("*.lean")):
        h.update(p.read_bytes())
    h.update(json.dumps(spec, sort_keys=True).encode())
    h.update(pathlib.Path(__file__).read_bytes())
    key = h.hexdigest()
    okfile = lean_dir / ".gen_selftest.ok"
    if okfile.exists():
        try:
            k, n = okfile.read_text().split()
            if k == key:
                return True, "cached", int(n)
        except ValueError:
            pass
    # constants per file, as the translator sees them
    src = pathlib.Path(repo) / "src" / "zeroconf"
    cenv, _ = gen_lean.module_consts(ast.parse((src / "const.py").read_text()), {})
    fenvs = {}
    rng = random.Random(12345)
    out = ["import Zc.Gen.Const"]
    mods = sorted({l["mod"] for l in spec["leaves"]})
    out += ["import Zc.Gen.%s" % m for m in mods]
    expected = []
    total = 0
    for leaf in spec["leaves"]:
        rel = leaf["file"]
        if rel not in fenvs:
            fenvs[rel] = gen_lean.module_consts(ast.parse((src / rel).read_text()), cenv)[0]
        consts = {k: v for k, v in fenvs[rel].items() if isinstance(v, (int, float, tuple))}
        pyf = py_eval_factory(leaf, consts)
        tuples = samples_for(leaf, pyf, rng)
        exp = []
        calls = []
        nat = leaf["opts"].get("nat", False)
        for t in tuples:
            try:
                v = pyf(t)
            except Exception as ex:
                return False, "python eval of %s failed on %r: %s" % (leaf["lean"], t, ex), total
            if leaf["rty"] == "bool":
                v = bool(v)
            else:
                if isinstance(v, float):
                    if leaf["opts"].get("floor"):
                        v = int(v // 1)
                    elif v == int(v):
                        v = int(v)
                    else:
                        return False, "python value of %s on %r is fractional: %r" % (leaf["lean"], t, v), total
            exp.append(v)
            calls.append("Zc.Gen.%s.%s %s" % (leaf["mod"], leaf["lean"], " ".join(lean_lit(a, nat) for a in t)))
        total += len(tuples)
        expected.append((leaf, tuples, exp))
        ty = "Bool" if leaf["rty"] == "bool" else ("Nat" if nat else "Int")
        out.append("#eval IO.println (toString ([%s] : List %s))" % (", ".join(calls), ty))
    f = lean_dir / ".gen_selftest.lean"
    f.write_text("\n".join(out) + "\n")
    # the generated modules must be compiled before they can be evaluated
    gmods = ["Zc.Gen." + q.stem for q in sorted(gen_dir.glob("*.lean"))]
    b = subprocess.run(["lake", "build"] + gmods, cwd=lean_dir, stdout=subprocess.PIPE, stderr=subprocess.STDOUT, timeout=900)
    if b.returncode != 0:
        f.unlink(missing_ok=True)
        return False, "generated Lean does not compile: " + b.stdout.decode()[-400:], total
    p = subprocess.run(["lake", "env", "lean", f.name], cwd=lean_dir, stdout=subprocess.PIPE, stderr=subprocess.STDOUT, timeout=900)
    text = p.stdout.decode()
    f.unlink(missing_ok=True)
    if p.returncode != 0:
        return False, "lean evaluation failed: " + text[-400:], total
    lines = [l for l in text.split("\n") if l.startswith("[")]
    if len(lines) != len(expected):
        return False, "lean printed %d result lines for %d leaves" % (len(lines), len(expected)), total
    for line, (leaf, tuples, exp) in zip(lines, expected):
        vals = [x.strip() for x in line.strip()[1:-1].split(",")] if line.strip() != "[]" else []
        got = []
        for x in vals:
            if x in ("true", "false"):
                got.append(x == "true")
            else:
                got.append(int(x))
        if got != exp:
            for t, g, e in zip(tuples, got, exp):
                if g != e:
                    return False, "leaf %s (%s %s): lean %r vs python %r on %r" % (leaf["lean"], leaf["file"], leaf["qual"], g, e, t), total
            return False, "leaf %s: result count differs" % leaf["lean"], total
    okfile.write_text("%s %d" % (key, total))
    return True, "ok", total
