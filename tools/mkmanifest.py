#!/usr/bin/env python3
"""Regenerate MANIFEST.json from the table below (keeps it valid and consistent)."""
import json, pathlib
ROOT = pathlib.Path(__file__).resolve().parent.parent
CHECKS = {"checks": [json.loads(p.read_text()) for p in sorted((ROOT / "tools" / "manifest").glob("C*.json"))],
          "notes": "One script decides every property: ./check <id> quick|thorough (stages T translate, P prove, A audit, C correspond, O oracle/search; DESIGN.md §2.5).",
          "pending": {}}
props = [json.loads(l)["id"] for l in (ROOT / "properties.jsonl").read_text().splitlines() if l.strip()]
m = {
 "version": 1,
 "setup_cmd": "./check setup",
 "hooks": {"guard": "ZEROCONF_VERIF", "enable": "none needed: all instrumentation is monkey-patching from the harness (DESIGN §3.2); the guard name is reserved",
           "baseline_off_cmd": "cd /repo && /venv/bin/python -m pytest -q -p no:cacheprovider --timeout=900", "source_commits": [], "add_only": True},
 "engines": [{"name": "lean-proof", "path": "lean/", "serves_properties": [c["property_id"] for c in CHECKS["checks"]],
              "kind_free_text": "Lean 4 theorems over a model tied to /repo by a translator (tools/gen_lean.py) and a differential correspondence harness (harness/)"}],
 "checks": [],
 "notes": CHECKS.get("notes", ""),
 "not_applicable": [],
}
claimed = set()
for c in CHECKS["checks"]:
    pid = c["property_id"]
    claimed.add(pid)
    m["checks"].append({
        "property_id": pid,
        "quick_cmd": "./check %s quick" % pid,
        "thorough_cmd": "./check %s thorough" % pid,
        "evidence_file": "evidence/%s.json" % pid,
        "replay_cmd_template": "./check replay {path}",
        "engine": "lean-proof",
        "level_claimed": {"category": "proof", "text": c["text"], "design_ref": c.get("design_ref", "DESIGN.md §7")},
        "level_note": c["note"],
        "technique": c["technique"],
    })
for p in props:
    if p not in claimed:
        m["not_applicable"].append({"property_id": p, "reason": CHECKS.get("pending", {}).get(p, "check not built yet in this tree (in progress; the technique applies, see DESIGN.md §7)")})
(ROOT / "MANIFEST.json").write_text(json.dumps(m, indent=1) + "\n")
print("MANIFEST.json: %d checks, %d not claimed" % (len(m["checks"]), len(m["not_applicable"])))
