#!/venv/bin/python
"""Regression probes for tools/gen_fn.py (review r3-FN): each probe is a small method of a class `T` in a private module; the
translator must either FAIL CLOSED on it or translate it with the stated shape.  Run by tools/fn_selftest.py before the
differential (pure Python, no Lean needed).   tools/fn_probes/run.py  -> exit 0 iff every probe behaves as required."""
import ast
import pathlib
import sys
import tempfile
import types

HERE = pathlib.Path(__file__).resolve().parent
sys.path.insert(0, str(HERE.parent))
import gen_fn  # noqa: E402
import gen_lean  # noqa: E402

HEAD = "from collections import deque\nfrom typing import Dict, List\n\nclass T:\n    def __init__(self):\n        self.d = {}\n        self.dd = {}\n        self.e = {}\n        self.x = deque()\n        self.y = []\n        self.n = 0\n"
FIELDS = [("d", "Dict[Str, List[Num]]"), ("dd", "Dict[Str, Dict[Str, Num]]"), ("e", "Dict[Str, List[Num]]"), ("x", "List[Num]"), ("y", "List[Num]"), ("n", "Num")]

# (name, method source (indented 4), params, ret, expectation)   expectation: "fail" | ("once", text) | ("order", first, second)
PROBES = [
    ("t41-effect-in-comparison", "    def f(self, now):\n        if self.x.popleft() <= now:\n            return True\n        return False\n", [("now", "Num")], "Bool", ("once", "PyList.popleft")),
    ("t42-effect-in-binop", "    def f(self):\n        v = self.x.popleft() - 1\n        return v\n", [], "Num", ("once", "PyList.popleft")),
    ("t43-call-in-comparison", "    def bump(self):\n        self.n = self.n + 1\n        return self.n\n    def f(self):\n        if self.bump() > 3:\n            return True\n        return False\n", [], "Bool", ("once", "T.bump self")),
    ("t1-mutate-while-iterating-alias", "    def f(self):\n        names = self.d\n        for k in self.d:\n            names.pop(k, None)\n", [], "None", "fail"),
    ("t2-store-subobject", "    def f(self, k):\n        self.e[k] = self.d[k]\n        self.e[k].append(1)\n", [("k", "Str")], "None", "fail"),
    ("t3-two-places", "    def f(self, l):\n        self.x = l\n        self.y = l\n        self.x.append(1)\n        return len(self.y)\n", [("l", "List[Num]")], "Nat", "fail"),
    ("t16-get-default-mutated", "    def f(self, k):\n        got = self.d.get(k, [])\n        got.append(7)\n", [("k", "Str")], "None", "fail"),
    ("t18-or-default-mutated", "    def f(self, k):\n        store = self.dd.get(k) or {}\n        store.pop(k, None)\n", [("k", "Str")], "None", "fail"),
    ("t17-returned-container-mutated", "    def live(self, k):\n        return self.dd.get(k) or {}\n    def f(self, k):\n        store = self.live(k)\n        store.pop(k, None)\n", [("k", "Str")], "None", "fail"),
    ("t50-view-kept", "    def f(self, k):\n        ks = self.d.keys()\n        self.d[k] = []\n        return len(ks)\n", [("k", "Str")], "Nat", "fail"),
    ("t52-alias-to-mutator", "    @staticmethod\n    def app(l, v):\n        l.append(v)\n    def f(self, k):\n        names = self.d[k]\n        self.app(names, 9)\n", [("k", "Str")], "None", ("contains", "PyDict.set strEq self.d k names")),
    ("t4-set-order", "    def f(self, a):\n        return [v for v in set(a)]\n", [("a", "List[Num]")], "List[Num]", "fail"),
    ("t5-value-before-subscripts", "    def f(self, k, l):\n        self.dd[k][k] = l[0]\n", [("k", "Str"), ("l", "List[Num]")], "None", ("order", "PyList.first l", "PyDict.getItem strEq self.dd k")),
    ("dictcomp-over-list", "    def f(self, l):\n        return {k: self.d[k] for k in l}\n", [("l", "List[Str]")], "Dict[Str, List[Num]]", "fail"),
    ("set-update-then-iterate", "    def f(self, a, b):\n        s = set(a)\n        s.update(b)\n        return [v for v in s]\n", [("a", "List[Num]"), ("b", "List[Num]")], "List[Num]", "fail"),
    ("dup-def","    def f(self):\n        return 1\n    def f(self):\n        return 2\n", [], "Num", "fail"),
    ("monkey-patch", "    def f(self):\n        return 1\nT.f = lambda self: 2\n", [], "Num", "fail"),
    ("subclass-override", "    def f(self):\n        return 1\nclass U(T):\n    def f(self):\n        return 2\n", [], "Num", "fail"),
]


def run_probe(name, src, params, ret, expect, tmp):
    root = pathlib.Path(tmp) / name
    (root / "src" / "zeroconf").mkdir(parents=True)
    (root / "src" / "zeroconf" / "const.py").write_text("_X = 1\n")
    (root / "src" / "zeroconf" / "_t.py").write_text(HEAD + src)
    methods = []
    for n in ast.parse(HEAD + src).body:
        if isinstance(n, ast.ClassDef) and n.name == "T":
            for m in n.body:
                if isinstance(m, ast.FunctionDef) and m.name not in ("__init__",):
                    if m.name == "f":
                        methods.append({"name": "f", "params": params, "ret": ret})
                    elif m.name == "bump":
                        methods.append({"name": "bump", "params": [], "ret": "Num"})
                    elif m.name == "live":
                        methods.append({"name": "live", "params": [("k", "Str")], "ret": "Dict[Str, Num]"})
                    elif m.name == "app":
                        methods.append({"name": "app", "params": [("l", "List[Num]"), ("v", "Num")], "ret": "None"})
    seen, uniq = set(), []
    for m in methods:
        if m["name"] not in seen:
            seen.add(m["name"])
            uniq.append(m)
    spec = types.SimpleNamespace(AREA="T", SOURCE="_t.py", IMPORTS=[], CLASSES=[{"py": "T", "fields": FIELDS, "methods": uniq}], FUNCTIONS=[])
    common, _ = gen_fn.load_specs()
    try:
        cenv, _ = gen_lean.module_consts(ast.parse("_X = 1\n"), {})
        text, _meta = gen_fn.gen_area(str(root), spec, common, cenv)
    except gen_lean.Fail as f:
        return expect == "fail", "failed closed: " + f.msg[:120]
    if expect == "fail":
        return False, "translated although it must fail closed"
    body = text[text.index("def T.f"):]
    if expect[0] == "once":
        return body.count(expect[1]) == 1, "%d occurrences of %s" % (body.count(expect[1]), expect[1])
    if expect[0] == "contains":
        return expect[1] in body, "write-back %s" % ("present" if expect[1] in body else "MISSING")
    if expect[0] == "order":
        a, b = body.find(expect[1]), body.find(expect[2])
        return 0 <= a < b, "value at %d, subscript at %d" % (a, b)
    return False, "bad expectation"


def run_all():
    bad = []
    with tempfile.TemporaryDirectory() as tmp:
        for name, src, params, ret, expect in PROBES:
            ok, why = run_probe(name, src, params, ret, expect, tmp)
            if not ok:
                bad.append("%s: %s" % (name, why))
    # a constant's name re-bound by an import alias must be a hard failure (constants are resolved by name)
    try:
        gen_lean.module_consts(ast.parse("from .const import _Y as _X\n"), {"_X": 1, "_Y": 2})
        bad.append("import-alias: `from .const import _Y as _X` was accepted")
    except gen_lean.Fail:
        pass
    return bad


PIN_MUTANTS = [
    ("pin-D26-revert", "_core.py", "        info.set_server_if_missing()\n        self.generate_service_broadcast(info, None).packets()\n        self.registry.async_update(info)",
     "        self.generate_service_broadcast(info, None).packets()\n        self.registry.async_update(info)"),
    ("pin-server_key-not-lower", "_services/info.py", "        self.server_key = server.lower() if server else None", "        self.server_key = server if server else None"),
    ("pin-bool-on-record", "_dns.py", "    __slots__ = ('key', 'name', 'type', 'class_', 'unique')\n",
     "    __slots__ = ('key', 'name', 'type', 'class_', 'unique')\n\n    def __bool__(self):\n        return self.type != 0\n"),
]


def run_pin_probes(repo):
    """the source pins (tools/fn_pins.py) hold on the tree and fail on three single-edit copies of it (an edit whose text is no longer
    in the source is skipped)"""
    import shutil

    import fn_pins

    bad = []
    common, specs = gen_fn.load_specs()

    def check(root):
        fn_pins.check_truthy(root, common)
        for sp in specs:
            fn_pins.check_spec(root, sp)

    with tempfile.TemporaryDirectory() as tmp:
        for name, rel, old, new in PIN_MUTANTS:
            src = pathlib.Path(repo) / "src" / "zeroconf" / rel
            try:
                text = src.read_text()
            except OSError:
                continue
            if text.count(old) != 1:
                continue
            root = pathlib.Path(tmp) / name
            shutil.copytree(pathlib.Path(repo) / "src", root / "src", ignore=shutil.ignore_patterns("__pycache__", "*.so", "*.c"))
            (root / "src" / "zeroconf" / rel).write_text(text.replace(old, new))
            try:
                check(str(root))
                bad.append("%s: the pins accept the mutant" % name)
            except fn_pins.PinFail:
                pass
    return bad


if __name__ == "__main__":
    bad = run_all() + run_pin_probes("/repo")
    for b in bad:
        print("PROBE FAILED", b)
    print("%d probes, %d failed" % (len(PROBES), len(bad)))
    sys.exit(1 if bad else 0)
