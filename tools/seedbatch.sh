#!/bin/bash
# usage: tools/seedbatch.sh <jobs-file> [workers=3]
# jobs-file: one job per line: PROP SEED_DIR NAME [test files...]
# Runs tools/seedtest.sh for every job on <workers> private clones of this checkout (each with its own Lean build
# directory, so that checks against different scratch trees cannot disturb each other or the main checkout), then copies
# seeded/<NAME>/ back here.  Scratch: /tmp/vrun/<k> (removed at the end).
set -u
HERE=$(cd "$(dirname "$0")/.." && pwd)
JOBS=$1; W=${2:-3}
mkdir -p /tmp/vrun
for k in $(seq 1 $W); do
  rm -rf /tmp/vrun/$k
  git clone -q "$HERE" /tmp/vrun/$k
  # uncommitted work of this checkout counts too
  (cd "$HERE" && git diff HEAD --binary) | (cd /tmp/vrun/$k && git apply --allow-empty 2>/dev/null)
  cp -r "$HERE/lean/.lake" /tmp/vrun/$k/lean/ 2>/dev/null
  cp "$HERE"/lean/.gen_selftest.json /tmp/vrun/$k/lean/ 2>/dev/null
done
worker() {
  k=$1
  awk -v k=$k -v w=$W 'NF && (NR-1)%w==k-1' "$JOBS" | while read -r prop src name tests; do
    echo "== [$k] $name ($prop)"
    VERIF_HOME=/tmp/vrun/$k timeout 2400 /tmp/vrun/$k/tools/seedtest.sh $prop $src $name $tests 2>&1 | tail -2
    [ -d /tmp/vrun/$k/seeded/$name ] && { rm -rf "$HERE/seeded/$name"; cp -r /tmp/vrun/$k/seeded/$name "$HERE/seeded/$name"; }
    # keep the replay next to the seed record (replays/ is not committed)
    rp=$(python3 -c "import json,re;m=json.load(open('$HERE/seeded/$name/meta.json'));x=re.search(r'replay=(\S+)',m['check'].get('violation_line',''));print(x.group(1) if x else '')" 2>/dev/null)
    [ -n "$rp" ] && [ -f /tmp/vrun/$k/$rp ] && cp /tmp/vrun/$k/$rp "$HERE/seeded/$name/replay.json"
  done
}
for k in $(seq 1 $W); do worker $k > /tmp/vrun/worker$k.log 2>&1 & done
wait
cat /tmp/vrun/worker*.log
for k in $(seq 1 $W); do rm -rf /tmp/vrun/$k; done
echo ALLDONE
