#!/venv/bin/python
"""Differential self-test of tools/gen_fn.py (FN work package): every generated function of lean/Zc/GenFn/*.lean is
run (`lake env lean`, `#eval`) on random call sequences, and the *real* Python objects of the tree under test are driven
through the same calls; results, raised exceptions and the final container contents (in dict order) must agree.

This checks the translator + the Python-container runtime (lean/Zc/Py/Runtime.lean) + the opaque-type table
(tools/fnspecs/_common.py) against CPython, independently of the hand-written models.  Cached by content hash.

  fn_selftest.py --emit --repo DIR     (subprocess: imports zeroconf from DIR/src, prints JSON {lean, expected})
"""
from __future__ import annotations

import hashlib
import json
import os
import pathlib
import random
import subprocess
import sys

HERE = pathlib.Path(__file__).resolve().parent
ROOT = HERE.parent


# --------------------------------------------------------------------------------------
# vocabulary: descriptors -> (python object, Lean literal)


def lstr(s):
    out = []
    for ch in s:
        o = ord(ch)
        if ch in '\\"':
            out.append("\\" + ch)
        elif 32 <= o < 127:
            out.append(ch)
        else:
            out.append("\\u{%x}" % o)
    return '"' + "".join(out) + '"'


def lbytes(b):
    return "[" + ", ".join(str(x) for x in b) + "]"


def rec_py(d, z):
    kind, name, cls_raw, ttl, created, rd = d
    dns = z._dns
    if kind == "a":
        r = dns.DNSAddress(name, 1 if len(rd) == 4 else 28, cls_raw, ttl, bytes(rd), created=created)
    elif kind == "p":
        r = dns.DNSPointer(name, 12, cls_raw, ttl, rd, created)
    elif kind == "t":
        r = dns.DNSText(name, 16, cls_raw, ttl, bytes(rd), created)
    elif kind == "s":
        r = dns.DNSService(name, 33, cls_raw, ttl, rd[0], rd[1], rd[2], rd[3], created)
    elif kind == "n":
        r = dns.DNSNsec(name, 47, cls_raw, ttl, rd[0], list(rd[1]), created)
    elif kind == "h":
        r = dns.DNSHinfo(name, 13, cls_raw, ttl, rd[0], rd[1], created)
    else:
        raise ValueError(kind)
    return r


def rec_lean(d):
    kind, name, cls_raw, ttl, created, rd = d
    ty = {"a": 1 if len(rd) == 4 else 28, "p": 12, "t": 16, "s": 33, "n": 47, "h": 13}[kind]
    if kind == "a":
        rdata = ".addr %s none" % lbytes(rd)
    elif kind == "p":
        rdata = ".ptr %s" % lstr(rd)
    elif kind == "t":
        rdata = ".txt %s" % lbytes(rd)
    elif kind == "s":
        rdata = ".srv %d %d %d %s" % (rd[0], rd[1], rd[2], lstr(rd[3]))
    elif kind == "n":
        rdata = ".nsec %s [%s]" % (lstr(rd[0]), ", ".join(str(x) for x in sorted(rd[1])))
    else:
        rdata = ".hinfo %s %s" % (lstr(rd[0]), lstr(rd[1]))
    return "({ name := %s, type := %d, class_ := %d, unique := %s, ttl := %d, created := %d, rdata := %s } : Rec)" % (
        lstr(name), ty, cls_raw & 0x7FFF, "true" if cls_raw & 0x8000 else "false", ttl, created, rdata)


def q_py(d, z):
    name, ty, cls_raw = d
    return z._dns.DNSQuestion(name, ty, cls_raw)


def q_lean(d):
    name, ty, cls_raw = d
    return "({ name := %s, type := %d, class_ := %d, unique := %s } : Question)" % (lstr(name), ty, cls_raw & 0x7FFF, "true" if cls_raw & 0x8000 else "false")


NAMES = ["_http._tcp.local.", "_HTTP._tcp.local.", "_ipp._tcp.local.", "a._http._tcp.local.", "A._http._tcp.local.", "b._http._tcp.local.",
         "host.local.", "HOST.local.", "other.local."]


def rnd_rec(rng):
    kind = rng.choice("aaptsssn")
    name = rng.choice(NAMES)
    cls_raw = rng.choice([1, 1, 0x8001])
    ttl = rng.choice([0, 1, 2, 120, 4500])
    created = rng.choice([1, 500, 1000, 5000])
    if kind == "a":
        rd = rng.choice([(10, 0, 0, 1), (10, 0, 0, 2), tuple([0xFE, 0x80] + [0] * 13 + [1])])
    elif kind == "p":
        rd = rng.choice(["a._http._tcp.local.", "A._http._tcp.local.", "b._http._tcp.local."])
    elif kind == "t":
        rd = rng.choice([(1, 97), (0,), ()])
    elif kind == "s":
        rd = (0, 0, rng.choice([80, 81]), rng.choice(["host.local.", "HOST.local.", "other.local."]))
    else:
        rd = (name, tuple(sorted(rng.sample([1, 28, 33], rng.choice([1, 2])))))
    return (kind, name, cls_raw, ttl, created, rd)


def rnd_q(rng):
    return (rng.choice(NAMES[:5]), rng.choice([12, 12, 33, 255]), rng.choice([1, 1, 0x8001]))


EXC = {"KeyError": "KeyError", "ValueError": "ValueError", "AssertionError": "AssertionError", "ServiceNameAlreadyRegistered": "ServiceNameAlreadyRegistered",
       "AttributeError": "Exception"}


def exc_name(ex):
    return EXC.get(type(ex).__name__, "Exception:" + type(ex).__name__)


# Lean prelude shared by all cases
PRELUDE = r'''
open Zc Zc.Py
def L := asciiLower
def showB (b : Bool) : String := if b then "T" else "F"
def showRecs (l : List Rec) : String := "[" ++ ";".intercalate (l.map Rec.toLine) ++ "]"
def showOptRec (o : Option Rec) : String := match o with | none => "None" | some r => r.toLine
def showStrs (l : List String) : String := "[" ++ ",".intercalate l ++ "]"
def showNames (l : List Svc) : String := ",".intercalate (l.map (·.name))
def showIdx (d : List (String × List String)) : String := "|".intercalate (d.map (fun p => p.1 ++ "=" ++ ",".intercalate p.2))
def showAns (d : List (Nat × List Nat)) : String :=
  "{" ++ ",".intercalate (d.map (fun p => toString p.1 ++ ":[" ++ ",".intercalate ((p.2.toArray.qsort (· < ·)).toList.map toString) ++ "]")) ++ "}"
def showAnsS (d : List (Nat × List Nat)) : String := showAns (d.toArray.qsort (fun a b => a.1 < b.1)).toList
'''


# --------------------------------------------------------------------------------------
# per-area case generators: each returns (lean definitions text, [lean expression of type String], [expected strings])


def area_history(rng, z, n_cases):
    sys.path.insert(0, str(ROOT))
    from harness.common import question_line, rec_line

    QH = z._history.QuestionHistory
    defs, exprs, exp = [], [], []
    for ci in range(n_cases):
        qs = [rnd_q(rng) for _ in range(3)]
        rs = [rnd_rec(rng) for _ in range(4)]
        ops = []
        # boundary gaps: every numeric constant of const.py, +-1 (an edit of the constant a function reads must show)
        cpool = sorted({int(v) for v in vars(z.const).values() if isinstance(v, (int, float)) and not isinstance(v, bool) and 0 < v <= 20000})
        gaps = [c + d for c in cpool for d in (-1, 0, 1)]
        last_add, last_q, last_known = 1000, 0, []
        for _ in range(rng.randint(2, 10)):
            k = rng.choice(["add", "add", "sup", "sup", "exp", "clr"] if rng.random() < 0.3 else ["add", "add", "sup", "sup", "sup", "exp"])
            if k == "add":
                now = last_add + rng.choice([0, 1, 500, 3000])
                qi, known = rng.randrange(3), rng.sample(range(4), rng.randint(0, 3))
                last_add, last_q, last_known = now, qi, known
            else:
                now = last_add + rng.choice(gaps)
                qi = last_q if rng.random() < 0.8 else rng.randrange(3)
                known = sorted(set(last_known) | set(rng.sample(range(4), rng.randint(0, 2)))) if rng.random() < 0.8 else rng.sample(range(4), rng.randint(0, 3))
            ops.append((k, qi, now, known))
        # python
        h = QH()
        pq = [q_py(d, z) for d in qs]
        pr = [rec_py(d, z) for d in rs]
        out = []
        for k, qi, now, known in ops:
            try:
                if k == "add":
                    h.add_question_at_time(pq[qi], float(now), {pr[i] for i in known})
                elif k == "sup":
                    out.append("T" if h.suppresses(pq[qi], float(now), {pr[i] for i in known}) else "F")
                elif k == "exp":
                    h.async_expire(float(now))
                else:
                    h.clear()
            except Exception as ex:  # noqa: BLE001
                out.append("!" + exc_name(ex))
        dump = []
        for q, (t, kn) in h._history.items():
            dump.append("%s@%d{%s}" % (question_line(q), int(t), ",".join(sorted(rec_line(r) for r in kn))))
        out.append("|".join(dump))
        exp.append(" ".join(out))
        # lean: a python set has no order -- the known answers are handed over as a list of distinct records (set semantics
        # only matter through `-`, which the runtime implements on lists), the dump sorts them
        name = "histCase%d" % ci
        L = ["def %s : String := Id.run do" % name, "  let qs : List Question := [%s]" % ", ".join(q_lean(d) for d in qs),
             "  let rs : List Rec := [%s]" % ", ".join(rec_lean(d) for d in rs),
             "  let mut out : List String := []", "  let mut h := GenFn.History.QuestionHistory.init"]
        for k, qi, now, known in ops:
            kn = "(PySet.ofList (Rec.beq L) [%s])" % ", ".join("rs[%d]!" % i for i in known)
            if k == "add":
                L.append("  h := h.add_question_at_time L qs[%d]! %d %s" % (qi, now, kn))
            elif k == "sup":
                L.append("  out := out ++ [showB (h.suppresses L qs[%d]! %d %s)]" % (qi, now, kn))
            elif k == "exp":
                L.append("  match GenFn.History.QuestionHistory.async_expire L h %d with" % now)
                L.append("  | .ok h' => h := h'")
                L.append("  | .error e => out := out ++ [\"!\" ++ e.name]")
            else:
                L.append("  h := h.clear")
        L.append("  let dump := h.history.map (fun e => e.1.toLine ++ \"@\" ++ toString e.2.1 ++ \"{\" ++ \",\".intercalate ((e.2.2.map Rec.toLine).toArray.qsort (· < ·)).toList ++ \"}\")")
        L.append("  out := out ++ [\"|\".intercalate dump]")
        L.append("  return \" \".intercalate out")
        defs.append("\n".join(L))
        exprs.append(name)
    return "\n\n".join(defs), exprs, exp


def area_registry(rng, z, n_cases):
    from zeroconf import ServiceInfo
    from zeroconf._services.registry import ServiceRegistry

    types = ["_http._tcp.local.", "_HTTP._tcp.local.", "_ipp._tcp.local."]
    servers = ["host.local.", "HOST.local.", "other.local."]

    def svc_lean(d):
        ty, name, server = d
        return ("({ type := %s, name := %s, server := %s, port := 80, weight := 0, priority := 0, text := [], hostTtl := 120, otherTtl := 4500, "
                "v4 := [[10, 0, 0, 1]], v6 := [] } : Svc)") % (lstr(ty), lstr(name), lstr(server))

    def show_idx(d):
        return "|".join("%s=%s" % (k, ",".join(v)) for k, v in d.items())

    defs, exprs, exp = [], [], []
    for ci in range(n_cases):
        pool = []
        for _ in range(4):
            ty = rng.choice(types)
            pool.append((ty, rng.choice(["a", "A", "b", "c"]) + "." + ty, rng.choice(servers)))
        ops = []
        for _ in range(rng.randint(1, 9)):
            k = rng.choice(["add", "add", "add", "rm1", "rml", "upd", "q"])
            ops.append((k, rng.randrange(4), rng.sample(range(4), rng.randint(0, 3)), rng.choice(types + servers + [p[1] for p in pool]).lower()
                        if rng.random() < 0.8 else rng.choice(types)))
        reg = ServiceRegistry()
        infos = [ServiceInfo(ty, name, port=80, server=server, addresses=[bytes([10, 0, 0, 1])]) for ty, name, server in pool]
        out = []
        for oi, (k, i, js, key) in enumerate(ops):
            try:
                if k == "add":
                    reg.async_add(infos[i])
                elif k == "rm1":
                    reg.async_remove(infos[i])
                elif k == "rml":
                    reg.async_remove([infos[j] for j in js])
                elif k == "upd":
                    reg.async_update(infos[i])
                else:
                    one = reg.async_get_info_name(key)
                    out.append("q:%s:%s:%s:%s:%s" % (",".join(reg.async_get_types()), ",".join(x.name for x in reg.async_get_infos_type(key)),
                                                     ",".join(x.name for x in reg.async_get_infos_server(key)), "None" if one is None else one.name,
                                                     ",".join(x.name for x in reg.async_get_service_infos())))
            except Exception as ex:  # noqa: BLE001
                out.append("!" + exc_name(ex))
                ops = ops[:oi + 1]
                break
        out.append("S:%s T:%s V:%s E:%s" % ("|".join("%s=%s" % (k, v.name) for k, v in reg._services.items()), show_idx(reg.types), show_idx(reg.servers),
                                            "T" if reg.has_entries else "F"))
        if out and out[-1].startswith("S:") and len(out) > 1 and out[-2].startswith("!"):
            out.pop()  # no final dump after an exception
        exp.append(" ".join(out))
        name = "regCase%d" % ci
        L = ["def %s : String := Id.run do" % name, "  let is : List Svc := [%s]" % ", ".join(svc_lean(d) for d in pool),
             "  let mut out : List String := []", "  let mut r := GenFn.Registry.ServiceRegistry.init"]
        R = "GenFn.Registry.ServiceRegistry"
        for k, i, js, key in ops:
            if k == "add":
                L += ["  match %s.async_add L r is[%d]! with" % (R, i), "  | .ok p => r := p.1", "  | .error e => out := out ++ [\"!\" ++ e.name]"]
            elif k == "rm1":
                L += ["  match %s.async_remove L r is[%d]! with" % (R, i), "  | .ok p => r := p", "  | .error e => out := out ++ [\"!\" ++ e.name]"]
            elif k == "rml":
                L += ["  match %s.async_remove_list L r [%s] with" % (R, ", ".join("is[%d]!" % j for j in js)), "  | .ok p => r := p",
                      "  | .error e => out := out ++ [\"!\" ++ e.name]"]
            elif k == "upd":
                L += ["  match %s.async_update L r is[%d]! with" % (R, i), "  | .ok p => r := p.1", "  | .error e => out := out ++ [\"!\" ++ e.name]"]
            else:
                L += ["  match r.async_get_infos_type %s, r.async_get_infos_server %s with" % (lstr(key), lstr(key)),
                      "  | .ok a, .ok b => out := out ++ [\"q:\" ++ \",\".intercalate r.async_get_types ++ \":\" ++ showNames a ++ \":\" ++ showNames b ++ \":\" ++ "
                      "(match r.async_get_info_name %s with | none => \"None\" | some x => x.name) ++ \":\" ++ showNames r.async_get_service_infos]" % lstr(key),
                      "  | .error e, _ => out := out ++ [\"!\" ++ e.name]", "  | _, .error e => out := out ++ [\"!\" ++ e.name]"]
        L.append("  if out.any (fun x => x.startsWith \"!\") then return \" \".intercalate out")
        L.append("  out := out ++ [\"S:\" ++ \"|\".intercalate (r.services.map (fun p => p.1 ++ \"=\" ++ p.2.name)) ++ \" T:\" ++ showIdx r.types ++ \" V:\" ++ showIdx r.servers ++ \" E:\" ++ showB r.has_entries]")
        L.append("  return \" \".intercalate out")
        defs.append("\n".join(L))
        exprs.append(name)
    return "\n\n".join(defs), exprs, exp


def area_cache(rng, z, n_cases):
    sys.path.insert(0, str(ROOT))
    from harness.common import rec_line

    import zeroconf._cache as cmod

    def show(l):
        return "[" + ";".join(rec_line(r) for r in l) + "]"

    C = "GenFn.Cache.DNSCache"
    defs, exprs, exp = [], [], []
    for ci in range(n_cases):
        rs = [rnd_rec(rng) for _ in range(6)]
        ops = []
        held = set()
        ptrs = [d for d in rs if d[0] == "p"]
        for _ in range(rng.randint(2, 12)):
            k = rng.choice(["add", "add", "add", "rm", "exp", "q", "q"])
            idx = rng.sample(range(6), rng.randint(1, 3))
            if k == "add":
                held.update(idx)
            if k == "rm" and held and rng.random() < 0.8:
                # mostly records that were added (an equal one may have replaced them; an expired one may be gone)
                idx = [rng.choice(sorted(held))]
                held.discard(idx[0])
            name, alias = rng.choice(NAMES), rng.choice(["a._http._tcp.local.", "A._http._tcp.local.", "b._http._tcp.local."])
            if ptrs and rng.random() < 0.5:
                d = rng.choice(ptrs)
                name, alias = rng.choice([d[1], d[1].upper()]), d[5]
            ops.append((k, idx, rng.choice([1, 600, 1000, 1999, 2000, 2001, 3000, 121000, 4501000]), name, rng.choice([1, 12, 16, 28, 33, 47]), alias))
        cache = cmod.DNSCache()
        pr = [rec_py(d, z) for d in rs]
        out = []
        L = ["def cacheCase%d : String := Id.run do" % ci, "  let rs : List Rec := [%s]" % ", ".join(rec_lean(d) for d in rs),
             "  let mut out : List String := []", "  let mut c := %s.init" % C]
        for k, idx, now, name, ty, alias in ops:
            failed = False
            try:
                if k == "add":
                    out.append("a" + ("T" if cache.async_add_records([pr[i] for i in idx]) else "F"))
                    L += ["  match %s.async_add_records L c [%s] with" % (C, ", ".join("rs[%d]!" % i for i in idx)),
                          "  | .ok p => do c := p.2; out := out ++ [\"a\" ++ showB p.1]", "  | .error e => return \" \".intercalate (out ++ [\"!\" ++ e.name])"]
                elif k == "rm":
                    L += ["  match %s.async_remove_records L c [%s] with" % (C, ", ".join("rs[%d]!" % i for i in idx)),
                          "  | .ok p => c := p", "  | .error e => return \" \".intercalate (out ++ [\"!\" ++ e.name])"]
                    cache.async_remove_records([pr[i] for i in idx])
                elif k == "exp":
                    L += ["  match %s.async_expire L c %d with" % (C, now),
                          "  | .ok p => do c := p.2; out := out ++ [\"e\" ++ showRecs p.1]", "  | .error e => return \" \".intercalate (out ++ [\"!\" ++ e.name])"]
                    out.append("e" + show(cache.async_expire(float(now))))
                else:
                    e = pr[idx[0]]
                    cmod.current_time_millis = lambda now=now: float(now)
                    L += ["  out := out ++ [\"q\" ++ showOptRec (c.async_get_unique L rs[%d]!) ++ \"/\" ++ showRecs (c.async_all_by_details L %s %d 1) ++ \"/\" ++ "
                          "showRecs ((c.async_entries_with_name L %s).map Prod.fst) ++ showRecs ((c.async_entries_with_name L %s).map Prod.snd) ++ \"/\" ++ "
                          "showRecs ((c.async_entries_with_server L %s).map Prod.fst) ++ \"/\" ++ showOptRec (c.get L rs[%d]!) ++ \"/\" ++ showOptRec (c.get_by_details L %s %d 1) ++ \"/\" ++ "
                          "showRecs (c.get_all_by_details L %s %d 1) ++ \"/\" ++ showRecs (c.entries_with_server L %s) ++ \"/\" ++ showRecs (c.entries_with_name L %s) ++ \"/\" ++ "
                          "showStrs c.names ++ \"/\" ++ (match c.current_entry_with_name_and_alias L %s %s %d with | .ok o => showOptRec o | .error e => \"!\" ++ e.name)]"
                          % (idx[0], lstr(name), ty, lstr(name), lstr(name), lstr(name), idx[0], lstr(name), ty, lstr(name), ty, lstr(name), lstr(name), lstr(name), lstr(alias), now)]
                    try:
                        cur = cache.current_entry_with_name_and_alias(name, alias)
                        cur = "None" if cur is None else rec_line(cur)
                    except Exception as ex:  # noqa: BLE001
                        cur = "!" + exc_name(ex)
                    en = cache.async_entries_with_name(name)
                    o = lambda x: "None" if x is None else rec_line(x)  # noqa: E731
                    out.append("q" + "/".join([o(cache.async_get_unique(e)), show(cache.async_all_by_details(name, ty, 1)), show(list(en)) + show(list(en.values())),
                                               show(list(cache.async_entries_with_server(name))), o(cache.get(e)), o(cache.get_by_details(name, ty, 1)),
                                               show(cache.get_all_by_details(name, ty, 1)), show(cache.entries_with_server(name)), show(cache.entries_with_name(name)),
                                               "[" + ",".join(cache.names()) + "]", cur]))
            except Exception as ex:  # noqa: BLE001
                out.append("!" + exc_name(ex))
                failed = True
            if failed:
                break
        if not (out and out[-1].startswith("!")):
            dump = lambda d: "|".join("%s=%s" % (k, show(list(v))) for k, v in d.items())  # noqa: E731
            out.append("C:" + dump(cache.cache) + " S:" + dump(cache.service_cache))
            L.append("  let dump := fun (d : PyDict String (PyDict Rec Rec)) => \"|\".intercalate (d.map (fun p => p.1 ++ \"=\" ++ showRecs (p.2.map Prod.fst)))")
            L.append("  out := out ++ [\"C:\" ++ dump c.cache ++ \" S:\" ++ dump c.service_cache]")
        L.append("  return \" \".intercalate out")
        exp.append(" ".join(out))
        defs.append("\n".join(L))
        exprs.append("cacheCase%d" % ci)
    return "\n\n".join(defs), exprs, exp


def area_dns(rng, z, n_cases):
    import math

    class Msg:
        def __init__(self, a):
            self._a = a

        def answers(self):
            return self._a

    D = "GenFn.Dns.DNSRecord"
    defs, exprs, exp = [], [], []
    for ci in range(n_cases):
        rs = [rnd_rec(rng) for _ in range(4)]
        pr = [rec_py(d, z) for d in rs]
        out = []
        L = ["def dnsCase%d : String := Id.run do" % ci, "  let rs : List Rec := [%s]" % ", ".join(rec_lean(d) for d in rs), "  let mut out : List String := []"]
        for _ in range(6):
            i, j = rng.randrange(4), rng.randrange(4)
            r = pr[i]
            base = int(r.created) + rng.choice([250, 500, 1000]) * int(r.ttl)
            now = max(0, base + rng.choice([-1001, -1000, -999, -1, 0, 1, 999, 1000, 1001]))
            pct = rng.choice([0, 50, 75, 80, 85, 100])
            vals = [int(r.get_expiration_time(pct)), int(math.floor(r.get_remaining_ttl(float(now)))), r.is_expired(float(now)), r.is_stale(float(now)),
                    r.is_recent(float(now)), r._suppressed_by_answer(pr[j]), r.suppressed_by(Msg([pr[k] for k in range(4) if k != i]))]
            out.append(",".join(("T" if v else "F") if isinstance(v, bool) else str(v) for v in vals))
            others = ", ".join("rs[%d]!" % k for k in range(4) if k != i)
            L.append("  out := out ++ [toString (%s.get_expiration_time rs[%d]! %d) ++ \",\" ++ toString (%s.get_remaining_ttl rs[%d]! %d) ++ \",\" ++ "
                     "showB (%s.is_expired rs[%d]! %d) ++ \",\" ++ showB (%s.is_stale rs[%d]! %d) ++ \",\" ++ showB (%s.is_recent rs[%d]! %d) ++ \",\" ++ "
                     "showB (%s.suppressed_by_answer L rs[%d]! rs[%d]!) ++ \",\" ++ showB (%s.suppressed_by L rs[%d]! [%s])]"
                     % (D, i, pct, D, i, now, D, i, now, D, i, now, D, i, now, D, i, j, D, i, others))
        L.append("  return \" \".intercalate out")
        exp.append(" ".join(out))
        defs.append("\n".join(L))
        exprs.append("dnsCase%d" % ci)
    return "\n\n".join(defs), exprs, exp


def area_queue(rng, z, n_cases):
    import zeroconf._handlers.multicast_outgoing_queue as qm

    def show_ans(d):
        return "{" + ",".join("%d:[%s]" % (k, ",".join(str(x) for x in sorted(v))) for k, v in d.items()) + "}"

    def lean_ans(d):
        return "[" + ", ".join("(%d, [%s])" % (k, ", ".join(str(x) for x in sorted(v))) for k, v in d.items()) + "]"

    Q = "GenFn.Queue.MulticastOutgoingQueue"
    defs, exprs, exp = [], [], []
    for ci in range(n_cases):
        addl, agg = rng.choice([(0, 500), (1000, 1000)])
        ops = []
        t = 1000
        for _ in range(rng.randint(2, 9)):
            t += rng.choice([0, 1, 20, 100, 120, 400, 500, 1000, 1500])
            k = rng.choice(["add", "add", "add", "ready", "ready", "rm", "wd"])
            ans = {}
            for _j in range(rng.randint(0, 3)):
                ans[rng.randrange(1, 7)] = set(rng.sample(range(10, 14), rng.randint(0, 2)))
            ops.append((k, t, ans, rng.randint(20, 120), t + rng.choice([0, 3, 7])))

        effects = []

        class Loop:
            now_ms = 0

            def time(self):
                return self.now_ms / 1000.0

            def call_at(self, when, cb):
                effects.append("at%d" % round(when * 1000))

        class Zc:
            loop = Loop()

            def async_send(self, out):
                effects.append("send" + show_ans(out))

        zc = Zc()
        q = qm.MulticastOutgoingQueue(zc, addl, agg)
        qm.construct_outgoing_multicast_answers = lambda answers: dict(answers)
        out = []
        L = ["def queueCase%d : String := Id.run do" % ci, "  let mut out : List String := []", "  let mut q := %s.init () %d %d" % (Q, addl, agg)]
        failed = False
        for k, now, ans, draw, clock in ops:
            del effects[:]
            zc.loop.now_ms = clock
            try:
                if k == "add":
                    qm.RAND_INT = lambda lo, hi, d=draw: d if (lo, hi) == (20, 120) else -1
                    L += ["  match %s.async_add q %d %s (fun lo hi => if lo == 20 && hi == 120 then %d else -1) %d with" % (Q, now, lean_ans(ans), draw, clock),
                          "  | .ok p => do q := p.1; out := out ++ [\"a\" ++ showEff p.2]", "  | .error e => return \" \".intercalate (out ++ [\"!\" ++ e.name])"]
                    q.async_add(float(now), {k2: set(v) for k2, v in ans.items()})
                    out.append("a" + ";".join(effects))
                elif k == "ready":
                    qm.current_time_millis = lambda now=now: float(now)
                    L += ["  match %s.async_ready q %d %d with" % (Q, now, clock),
                          "  | .ok p => do q := p.1; out := out ++ [\"r\" ++ showEff p.2]", "  | .error e => return \" \".intercalate (out ++ [\"!\" ++ e.name])"]
                    q.async_ready()
                    out.append("r" + ";".join(effects))
                elif k == "wd":
                    recs = sorted(set(ans) | {x for v in ans.values() for x in v})
                    L += ["  q := q.async_remove_answers [%s]" % ", ".join(str(x) for x in recs)]
                    q.async_remove_answers(recs)
                else:
                    L += ["  q := q.remove_answers_from_queue %s" % lean_ans(ans)]
                    q._remove_answers_from_queue({k2: set(v) for k2, v in ans.items()})
            except Exception as ex:  # noqa: BLE001
                out.append("!" + exc_name(ex))
                failed = True
                break
        if not failed:
            out.append("Q:" + "|".join("%d,%d,%s" % (int(g.send_after), int(g.send_before), show_ans(g.answers)) for g in q.queue))
            L.append("  out := out ++ [\"Q:\" ++ \"|\".intercalate (q.queue.map (fun g => toString g.send_after ++ \",\" ++ toString g.send_before ++ \",\" ++ showAns g.answers))]")
        L.append("  return \" \".intercalate out")
        exp.append(" ".join(out))
        defs.append("\n".join(L))
        exprs.append("queueCase%d" % ci)
    return "\n\n".join(defs), exprs, exp


def area_sched(rng, z, n_cases):
    import types as pytypes

    import zeroconf._services.browser as bm

    S = "GenFn.Sched.QueryScheduler"
    defs, exprs, exp = [], [], []
    for ci in range(n_cases):
        delay = rng.choice([1000, 10000])
        lo, hi = 20, 120
        ptrs = []
        for j in range(4):
            alias = rng.choice(["a", "A", "b", "c"]) + "._http._tcp.local."
            ptrs.append(("p", "_http._tcp.local.", 1, rng.choice([10, 60, 120, 4500]), 1000 + 137 * j + rng.randrange(50), alias))
        ops = []
        t = 1000
        k0 = ["start"] if rng.random() < 0.9 else []
        for _ in range(rng.randint(2, 12)):
            t += rng.choice([1, 20, 333, 1000, 4000, 7500, 45000, 90000])
            ops.append((rng.choice(["ptr", "ptr", "ptr", "cancel", "fs", "fs", "fr", "fr", "fr", "stop"]), t, rng.randrange(4), rng.randint(lo, hi), rng.random() < 0.1))
        ops = [(k, 1000, 0, rng.randint(lo, hi), False) for k in k0] + ops
        effects = []

        class H:
            def cancel(self):
                effects.append("cancel")

        class Loop:
            def call_later(self, d, cb):
                effects.append("later%d:%s" % (round(d * 1000), cb.__name__))
                return H()

            def call_at(self, w, cb):
                effects.append("at%d:%s" % (round(w * 1000), cb.__name__))
                return H()

        class Zc:
            done = False

        class QS(bm.QueryScheduler):
            def async_send_ready_queries(self, first, now, tys):
                effects.append("send%s:%d:%s" % ("T" if first else "F", int(now), ",".join(sorted(tys))))

        zc = Zc()
        q = QS(zc, {"_http._tcp.local."}, None, 5353, True, delay, (lo, hi), None)
        pr = [rec_py(d, z) for d in ptrs]
        out = []
        L = ["def schedCase%d : String := Id.run do" % ci, "  let ps : List Rec := [%s]" % ", ".join(rec_lean(d) for d in ptrs),
             "  let mut out : List String := []", "  let mut q := %s.init () [\"_http._tcp.local.\"] none 5353 true %d (%d, %d) none 0" % (S, delay, lo, hi)]
        failed = False

        def step(call):
            return ["  match %s with" % call, "  | .ok p => do q := p.1; out := out ++ [showSEff p.2]",
                    "  | .error e => return \" \".intercalate (out ++ [\"!\" ++ e.name])"]

        for k, now, i, draw, done in ops:
            del effects[:]
            zc.done = done
            bm.current_time_millis = lambda now=now: float(now)
            try:
                if k == "start":
                    bm.random = pytypes.SimpleNamespace(randint=lambda a, b, d=draw: d if (a, b) == (lo, hi) else -1)
                    L += ["  let r := %s.start q () (fun a b => if a == %d && b == %d then %d else -1)" % (S, lo, hi, draw), "  q := r.1", "  out := out ++ [showSEff r.2]"]
                    q.start(Loop())
                elif k == "ptr":
                    L += step("%s.reschedule_ptr_first_refresh L q ps[%d]!" % (S, i))
                    q.reschedule_ptr_first_refresh(pr[i])
                elif k == "cancel":
                    L += ["  match %s.cancel_ptr_refresh L q ps[%d]! with" % (S, i), "  | .ok p => do q := p; out := out ++ [\"\"]",
                          "  | .error e => return \" \".intercalate (out ++ [\"!\" ++ e.name])"]
                    q.cancel_ptr_refresh(pr[i])
                elif k == "fs":
                    L += step("%s.process_startup_queries q %s %d" % (S, "true" if done else "false", now))
                    q._process_startup_queries()
                elif k == "fr":
                    L += step("%s.process_ready_types q %s %d" % (S, "true" if done else "false", now))
                    q._process_ready_types()
                else:
                    L += step("%s.stop q" % S)
                    q.stop()
                out.append(";".join(effects))
            except Exception as ex:  # noqa: BLE001
                out.append("!" + exc_name(ex))
                failed = True
                break
        if not failed:
            heap = sorted("%d,%s,%s,%d,%s,%d" % (int(o.when_millis), o.alias, o.name, int(o.ttl), "T" if o.cancelled else "F", int(o.expire_time_millis)) for o in q._query_heap)
            d = sorted("%s=%d" % (a, int(o.when_millis)) for a, o in q._next_scheduled_for_alias.items())
            out.append("H:%s D:%s n=%d r=%s m=%d e=%d" % ("|".join(heap), "|".join(d), q._startup_queries_sent, "N" if q._next_run is None else "S",
                                                       int(q._next_run_millis), int(q._earliest_next_run_millis)))
            L.append("  out := out ++ [schedDump q]")
        L.append("  return \" \".intercalate out")
        exp.append(" ".join(out))
        defs.append("\n".join(L))
        exprs.append("schedCase%d" % ci)
    return "\n\n".join(defs), exprs, exp


def area_reply(rng, z, n_cases):
    """`_QueryResponse`: real records in a real `DNSCache` (so that the real `_get_unique_ignoring_scope` answers), numbered 1..6 for
    the generated code, whose look-up function is the table of the cached copies"""
    import zeroconf._handlers.query_handler as qh

    QR = "GenFn.Reply.QueryResponse"

    def mk(i, ttl, created):
        return ("t", "r%d.local." % i, 0x8001, ttl, created, (i,))

    def lean_ans(d):
        return "[" + ", ".join("(%d, [%s])" % (k, ", ".join(str(x) for x in sorted(v))) for k, v in d.items()) + "]"

    def show_sorted(d, num):
        return "{" + ",".join("%d:[%s]" % (k, ",".join(str(x) for x in v)) for k, v in sorted((num[r], sorted(num[a] for a in adds)) for r, adds in d.items())) + "}"

    defs, exprs, exp = [], [], []
    for ci in range(n_cases):
        ttl = rng.choice([120, 4500])
        created = 1000
        quarter = ttl * 250
        now = created + rng.choice([0, 999, 1000, 1001, quarter - 1, quarter, quarter + 1, 10 ** 7])
        recs = {i: rec_py(mk(i, ttl, 1), z) for i in range(1, 7)}
        num = {r: i for i, r in recs.items()}
        cache = z._cache.DNSCache()
        seen = {}
        for i in rng.sample(range(1, 7), rng.randint(0, 5)):
            c = created + rng.choice([0, 0, 1, -1])
            d = mk(i, rng.choice([ttl, ttl, 10]), c)
            cache.async_add_records([rec_py(d, z)])
            seen[i] = d
        is_probe = rng.random() < 0.3
        qs = [(rng.choice(NAMES[:3]), rng.choice([1, 12, 16, 28, 33, 47, 255]), 1) for _ in range(rng.choice([0, 1, 1, 1, 2]))]
        qr = qh._QueryResponse(cache, [q_py(q, z) for q in qs], is_probe, float(now))
        L = ["def replyCase%d : String := Id.run do" % ci,
             "  let seen : Nat → Option Rec := fun r => " + "".join("if r == %d then some %s else " % (i, rec_lean(d)) for i, d in sorted(seen.items())) + "none",
             "  let mut q := %s.init () [%s] %s %d" % (QR, ", ".join(q_lean(q) for q in qs), "true" if is_probe else "false", now)]
        raised = None
        for _ in range(rng.randint(1, 5)):
            k = rng.choice(["qu", "uc", "mc", "mc"])
            ans = {}
            for _j in range(rng.randint(0, 3)):
                ans[rng.randrange(1, 7)] = set(rng.sample(range(1, 7), rng.randint(0, 2)))
            real = {recs[a]: {recs[x] for x in v} for a, v in ans.items()}
            try:
                {"qu": qr.add_qu_question_response, "uc": qr.add_ucast_question_response, "mc": qr.add_mcast_question_response}[k](real)
            except Exception as ex:  # noqa: BLE001
                raised = "!" + exc_name(ex)
            if k == "qu":
                L += ["  match %s.add_qu_question_response q %s seen with" % (QR, lean_ans(ans)), "  | .ok p => do q := p", "  | .error e => return \"!\" ++ e.name"]
            elif k == "uc":
                L += ["  q := %s.add_ucast_question_response q %s" % (QR, lean_ans(ans))]
            else:
                L += ["  match %s.add_mcast_question_response q %s seen with" % (QR, lean_ans(ans)), "  | .ok p => do q := p", "  | .error e => return \"!\" ++ e.name"]
            if raised:
                break
        if not raised:
            try:
                a = qr.answers()
                raised = "U%s N%s A%s L%s" % (show_sorted(a.ucast, num), show_sorted(a.mcast_now, num), show_sorted(a.mcast_aggregate, num),
                                              show_sorted(a.mcast_aggregate_last_second, num))
            except Exception as ex:  # noqa: BLE001
                raised = "!" + exc_name(ex)
        exp.append(raised)
        L += ["  match q.answers with",
              "  | .ok a => return \"U\" ++ showAnsS a.ucast ++ \" N\" ++ showAnsS a.mcast_now ++ \" A\" ++ showAnsS a.mcast_aggregate ++ \" L\" ++ showAnsS a.mcast_aggregate_last_second",
              "  | .error e => return \"!\" ++ e.name"]
        defs.append("\n".join(L))
        exprs.append("replyCase%d" % ci)
    return "\n\n".join(defs), exprs, exp


def area_listener(rng, z, n_cases):
    """`AsyncListener`: the real methods on an object built without `__init__` (fake loop / query handler / `random`), against the
    generated functions; compared: the effects of every call and the two dicts afterwards"""
    import zeroconf._listener as lm

    AL = "GenFn.Listener.AsyncListener"

    def lean_msg(mi):
        data, now, trunc = mi
        return "(({ valid := true, isQuery := true, truncated := %s, hasQU := false } : Zc.Listener.MsgInfo), ({ data := %s, now := %d } : Zc.Listener.Packet))" % (
            "true" if trunc else "false", lbytes(data), now)

    defs, exprs, exp = [], [], []
    for ci in range(n_cases):
        effects = []

        class Handle:
            def __init__(self, when, port):
                self.when, self.port = when, port

            def cancel(self):
                effects.append("cancel%d:%d" % (self.when, self.port))

        class Loop:
            now_ms = 0

            def time(self):
                return self.now_ms / 1000.0

            def call_at(self, when, cb, *args):
                assert cb == lis._respond_query and args[0] is None
                effects.append("at%d:%s:%d" % (round(when * 1000), args[1], args[2]))
                return Handle(round(when * 1000), args[2])

        class Zc:
            loop = Loop()

        class QH:
            def handle_assembled_query(self, packets, addr, port, transport, v6):
                effects.append("asm[%s]:%s:%d" % (",".join(str(p.data[0]) for p in packets), addr, port))

        class Msg:
            def __init__(self, data, trunc):
                self.data, self.truncated = bytes(data), trunc

            def __bool__(self):
                return True

        class Rnd:
            draw = 0

            @staticmethod
            def randint(lo, hi):
                return Rnd.draw if (lo, hi) == (400, 500) else -1

        lis = lm.AsyncListener.__new__(lm.AsyncListener)
        lis.zc, lis._query_handler, lis._deferred, lis._timers = Zc(), QH(), {}, {}
        lm.random = Rnd
        out = []
        L = ["def listenerCase%d : String := Id.run do" % ci, "  let mut out : List String := []",
             "  let mut q : %s := { zc := (), query_handler := (), deferred := [], timers := [] }" % AL]
        t = 1000
        for _ in range(rng.randint(2, 8)):
            t += rng.choice([0, 1, 50, 450, 600])
            addr = rng.choice(["10.0.0.1", "10.0.0.2"])
            port = rng.choice([5353, 40000])
            k = rng.choice(["h", "h", "h", "r", "rn", "c"])
            mi = ((rng.randrange(1, 5),), t, rng.random() < 0.7)
            draw = rng.randint(400, 500)
            Rnd.draw, Zc.loop.now_ms = draw, t
            del effects[:]
            try:
                if k == "h":
                    lis.handle_query_or_defer(Msg(mi[0], mi[2]), addr, port, None, ())
                    call = "%s.handle_query_or_defer q %s %s %d () () (fun lo hi => if lo == 400 && hi == 500 then %d else -1) %d" % (AL, lean_msg(mi), lstr(addr), port, draw, t)
                elif k == "r":
                    lis._respond_query(Msg(mi[0], mi[2]), addr, port, None, ())
                    call = "%s.respond_query q (some %s) %s %d () ()" % (AL, lean_msg(mi), lstr(addr), port)
                elif k == "rn":
                    lis._respond_query(None, addr, port, None, ())
                    call = "%s.respond_query q none %s %d () ()" % (AL, lstr(addr), port)
                else:
                    lis._cancel_any_timers_for_addr(addr)
                    call = "%s.cancel_any_timers_for_addr q %s" % (AL, lstr(addr))
                out.append(k + ";".join(effects))
            except Exception as ex:  # noqa: BLE001
                out.append("!" + exc_name(ex))
                call = None
            if call is None:
                break
            L += ["  match %s with" % call, "  | .ok p => do q := p.1; out := out ++ [\"%s\" ++ showLEff p.2]" % k,
                  "  | .error e => return \" \".intercalate (out ++ [\"!\" ++ e.name])"]
        out.append("D:" + "|".join("%s=%s" % (a, ",".join(str(m.data[0]) for m in ms)) for a, ms in lis._deferred.items())
                   + " T:" + "|".join("%s=%d:%d" % (a, h.when, h.port) for a, h in lis._timers.items()))
        L.append("  out := out ++ [\"D:\" ++ \"|\".intercalate (q.deferred.map (fun e => e.1 ++ \"=\" ++ \",\".intercalate (e.2.map (fun m => toString (m.2.data.headD 0))))) "
                 "++ \" T:\" ++ \"|\".intercalate (q.timers.map (fun e => e.1 ++ \"=\" ++ toString e.2.due ++ \":\" ++ toString e.2.port))]")
        L.append("  return \" \".intercalate out")
        exp.append(" ".join(out))
        defs.append("\n".join(L))
        exprs.append("listenerCase%d" % ci)
    return "\n\n".join(defs), exprs, exp


AREAS = {"Listener": area_listener, "Reply": area_reply, "Sched": area_sched, "History": area_history, "Registry": area_registry, "Cache": area_cache, "Dns": area_dns, "Queue": area_queue}


QUEUE_PRELUDE = r'''
def showEff (l : List GenFn.Queue.QEffect) : String :=
  ";".intercalate (l.map (fun e => match e with | .callAt t => "at" ++ toString t | .send a => "send" ++ showAns a))
'''

LISTENER_PRELUDE = r'''
def showLEff (l : List GenFn.Listener.LEffect) : String :=
  ";".intercalate (l.map (fun e => match e with
    | .callAt w a p => "at" ++ toString w ++ ":" ++ a ++ ":" ++ toString p
    | .cancel h => "cancel" ++ toString h.due ++ ":" ++ toString h.port
    | .assembled ps a p => "asm[" ++ ",".intercalate (ps.map (fun m => toString (m.2.data.headD 0))) ++ "]:" ++ a ++ ":" ++ toString p))
'''

SCHED_PRELUDE = r'''
def showSEff (l : List GenFn.Sched.SEffect) : String :=
  ";".intercalate (l.map (fun e => match e with
    | .callLater d cb => "later" ++ toString d ++ ":" ++ (match cb with | .startup => "_process_startup_queries" | .ready => "_process_ready_types")
    | .callAt w cb => "at" ++ toString w ++ ":" ++ (match cb with | .startup => "_process_startup_queries" | .ready => "_process_ready_types")
    | .cancel => "cancel"
    | .send f n t => "send" ++ showB f ++ ":" ++ toString n ++ ":" ++ ",".intercalate (t.toArray.qsort (· < ·)).toList))
def schedObj (q : GenFn.Sched.QueryScheduler) (i : Nat) : GenFn.Sched.ScheduledPTRQuery := PyStore.getD q.store i default
def schedDump (q : GenFn.Sched.QueryScheduler) : String :=
  let heap := (q.query_heap.map (fun i => let o := schedObj q i
    toString o.when_millis ++ "," ++ o.alias ++ "," ++ o.name ++ "," ++ toString o.ttl ++ "," ++ showB o.cancelled ++ "," ++ toString o.expire_time_millis)).toArray.qsort (· < ·)
  let d := (q.next_scheduled_for_alias.map (fun p => p.1 ++ "=" ++ toString (schedObj q p.2).when_millis)).toArray.qsort (· < ·)
  "H:" ++ "|".intercalate heap.toList ++ " D:" ++ "|".intercalate d.toList ++ " n=" ++ toString q.startup_queries_sent ++
    " r=" ++ (if q.next_run.isNone then "N" else "S") ++ " m=" ++ toString q.next_run_millis ++ " e=" ++ toString q.earliest_next_run_millis
'''

AREA_SOURCES = {"Sched": ["_services/browser.py", "_dns.py", "_utils/time.py"], "Queue": ["_handlers/multicast_outgoing_queue.py", "_handlers/answers.py", "_utils/time.py"], "History": ["_history.py", "_dns.py"], "Registry": ["_services/registry.py", "_services/info.py"], "Cache": ["_cache.py", "_dns.py"],
                "Dns": ["_dns.py"]}


def emit(repo, areas):
    sys.path.insert(0, str(pathlib.Path(repo) / "src"))
    os.environ["VERIF_REPO"] = str(repo)
    import zeroconf  # noqa: F401
    import zeroconf._cache
    import zeroconf._dns
    import zeroconf._history
    import zeroconf._services.registry

    z = zeroconf
    gen_dir = ROOT / "lean" / "Zc" / "GenFn"
    imports, defs, exprs, expected, owner = [], [], [], [], []
    for area, f in AREAS.items():
        if area not in areas or not (gen_dir / (area + ".lean")).exists():
            continue
        rng = random.Random("%s-%s" % (os.environ.get("VERIF_SEED", "0") or "0", area))
        d, e, x = f(rng, z, int(os.environ.get("FN_SELFTEST_CASES", "40")))
        imports.append("import Zc.GenFn.%s" % area)
        defs.append(d)
        exprs += e
        expected += x
        owner += [area] * len(e)
    lean = "\n".join(imports) + "\nimport Zc.Py.Model\nimport Zc.Model.Registry\n" + PRELUDE + (QUEUE_PRELUDE if "import Zc.GenFn.Queue" in imports else "") + \
        (SCHED_PRELUDE if "import Zc.GenFn.Sched" in imports else "") + \
        (LISTENER_PRELUDE if "import Zc.GenFn.Listener" in imports else "") + \
        "\n" + "\n\n".join(defs) + "\n\n" + \
        "\n".join('#eval IO.println ("=== " ++ %s)' % e for e in exprs) + "\n"
    json.dump({"lean": lean, "expected": expected, "owner": owner}, sys.stdout)


def area_key(lean_dir, repo, area):
    h = hashlib.sha1()
    h.update((os.environ.get("VERIF_SEED", "0") or "0").encode())
    for q in [lean_dir / "Zc" / "GenFn" / (area + ".lean")] + sorted((lean_dir / "Zc" / "Py").glob("*.lean")):
        h.update(q.read_bytes())
    src = pathlib.Path(repo) / "src" / "zeroconf"
    # every module of the library: what a translated function imports (constants, helpers, base classes) decides what the real code does
    for q in sorted(src.rglob("*.py")):
        try:
            h.update(q.read_bytes())
        except OSError:
            pass
    h.update(pathlib.Path(__file__).read_bytes())
    return h.hexdigest()


def run(lean_dir, repo, skip=()):
    """-> (ok, message, number of compared call sequences); results are cached per area by content hash.
    `skip`: areas whose translation failed (their GenFn file is the committed one, not this tree's)"""
    lean_dir = pathlib.Path(lean_dir)
    run.bad_areas = {}
    # regression probes of the translator itself (review r3): fail-closed cases and evaluation-order shapes
    sys.path.insert(0, str(HERE / "fn_probes"))
    import run as fn_probes_run

    bad = fn_probes_run.run_all() + fn_probes_run.run_pin_probes(repo)
    if bad:
        return False, "translator probes: " + "; ".join(bad)[:400], 0
    okfile = lean_dir / ".fn_selftest.ok"
    try:
        cache = json.loads(okfile.read_text())
    except (OSError, ValueError):
        cache = {}
    areas = [a for a in AREAS if (lean_dir / "Zc" / "GenFn" / (a + ".lean")).exists() and a not in skip]
    keys = {a: area_key(lean_dir, repo, a) for a in areas}
    stale = [a for a in areas if cache.get(a, {}).get("key") != keys[a]]
    total = sum(cache[a]["n"] for a in areas if a not in stale)
    if not stale:
        return True, "cached", total
    env = dict(os.environ, PYTHONDONTWRITEBYTECODE="1")
    try:
        p = subprocess.run([sys.executable, str(pathlib.Path(__file__).resolve()), "--emit", "--repo", str(repo), "--areas", ",".join(stale)],
                           stdout=subprocess.PIPE, stderr=subprocess.PIPE, timeout=300, env=env)
    except subprocess.TimeoutExpired:
        return False, "the python side of the gen_fn self-test timed out", 0
    if p.returncode != 0:
        return False, "the python side of the gen_fn self-test crashed: " + p.stderr.decode(errors="replace")[-400:], 0
    job = json.loads(p.stdout.decode())
    f = lean_dir / ".fn_selftest.lean"
    f.write_text(job["lean"])
    mods = ["Zc.GenFn." + a for a in stale]
    b = subprocess.run(["lake", "build", "Zc.Py.Model", "Zc.Model.Registry"] + mods, cwd=lean_dir, stdout=subprocess.PIPE, stderr=subprocess.STDOUT, timeout=1800)
    if b.returncode != 0:
        return False, "generated functions do not compile: " + b.stdout.decode(errors="replace")[-600:], 0
    r = subprocess.run(["lake", "env", "lean", f.name], cwd=lean_dir, stdout=subprocess.PIPE, stderr=subprocess.STDOUT, timeout=1800)
    out = r.stdout.decode(errors="replace")
    got = [l[4:] for l in out.split("\n") if l.startswith("=== ")]
    if r.returncode != 0 or len(got) != len(job["expected"]):
        return False, "lean evaluation of the gen_fn self-test failed: " + out[-600:], 0
    bad = {}
    for i, (g, e) in enumerate(zip(got, job["expected"])):
        if g != e and job["owner"][i] not in bad:
            bad[job["owner"][i]] = "generated function and real code disagree on %s self-test case %d: lean=%r python=%r" % (job["owner"][i], i, g[:300], e[:300])
    for a in stale:
        if a not in bad:
            cache[a] = {"key": keys[a], "n": job["owner"].count(a)}
    okfile.write_text(json.dumps(cache))
    if bad:
        # a disagreement concerns one area: reported per area (`run.bad_areas`), so that only the properties importing it break
        run.bad_areas = bad
        return False, "; ".join(bad.values()), 0
    return True, "ok", total + len(got)


if __name__ == "__main__":
    if "--emit" in sys.argv:
        emit(sys.argv[sys.argv.index("--repo") + 1], sys.argv[sys.argv.index("--areas") + 1].split(",") if "--areas" in sys.argv else list(AREAS))
    else:
        print(run(ROOT / "lean", os.environ.get("VERIF_REPO", "/repo")))
