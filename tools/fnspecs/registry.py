"""gen_fn spec: _services/registry.py (ServiceRegistry) -> lean/Zc/GenFn/Registry.lean   (C03)

`ServiceInfo` objects are the opaque model type `Svc` (lean/Zc/Model/Registry.lean); `async_remove` takes
`Union[List[ServiceInfo], ServiceInfo]` and is translated once per typing of its parameter."""
AREA = "Registry"
SOURCE = "_services/registry.py"
IMPORTS = ["Zc.Model.Registry"]

IDX = "Dict[Str, List[Str]]"

CLASSES = [
    {
        "py": "ServiceRegistry",
        "fields": [("_services", "Dict[Str, Svc]"), ("types", IDX), ("servers", IDX), ("has_entries", "Bool")],
        "methods": [
            {"name": "async_add", "params": [("info", "Svc")], "ret": "None"},
            {"name": "async_remove", "params": [("info", "Svc")], "ret": "None"},
            {"name": "async_remove", "lean": "ServiceRegistry.async_remove_list", "params": [("info", "List[Svc]")], "ret": "None"},
            {"name": "async_update", "params": [("info", "Svc")], "ret": "None"},
            {"name": "async_get_service_infos", "params": [], "ret": "List[Svc]"},
            {"name": "async_get_info_name", "params": [("name", "Str")], "ret": "Optional[Svc]"},
            {"name": "async_get_types", "params": [], "ret": "List[Str]"},
            {"name": "async_get_infos_type", "params": [("type_", "Str")], "ret": "List[Svc]"},
            {"name": "async_get_infos_server", "params": [("server", "Str")], "ret": "List[Svc]"},
            {"name": "_async_get_by_index", "params": [("records", IDX), ("key", "Str")], "ret": "List[Svc]"},
            {"name": "_add", "params": [("info", "Svc")], "ret": "None"},
            {"name": "_remove_from_index", "params": [("index", IDX), ("key", "Str"), ("name", "Str")], "ret": "None"},
            {"name": "_remove", "params": [("infos", "List[Svc]")], "ret": "None"},
        ],
    },
]
FUNCTIONS = []

# What the spec type of `ServiceInfo` asserts and no body of `registry.py` can show (review r3-FN 5d / r3-C03): the objects that reach
# the registry have a server (`server_key: Str`, so `assert info.server_key is not None` translates to `pyAssert true`), and
# `server_key` is `server.lower()`, `key` is `name.lower()`.  Discharged by pins on the rest of the library, checked at stage T
# (tools/fn_pins.py; a violated pin fails this area, hence C03):
SOURCE_PINS = [
    # every `registry.async_add / async_update / async_remove(x)` of the library is in `_core.py`, its argument a plain name, and is
    # dominated in the same function by `x.set_server_if_missing()` (or `x` comes from the registry itself)
    {"kind": "dominated_calls", "file": "_core.py", "receiver": "self.registry", "methods": ["async_add", "async_update", "async_remove"],
     "guard": "set_server_if_missing", "from_registry": ["async_get_service_infos"]},
    # … and the guard sets the server (and its key) when there is none
    {"kind": "method_body", "file": "_services/info.py", "class": "ServiceInfo", "method": "set_server_if_missing",
     "body": "if self.server is None:\n    self.server = self._name\n    self.server_key = self.key"},
    # `server_key` is assigned only right after `server`, as its lower-cased form (or both copied from a DNSService, where the same holds)
    {"kind": "paired_attrs", "attrs": ("server", "server_key"), "sites": {
        ("_services/info.py", "ServiceInfo"): [("server if server else None", "server.lower() if server else None"),
                                               ("dns_service_record.server", "dns_service_record.server_key"),
                                               ("self._name", "self.key")],
        ("_dns.py", "DNSService"): [("server", "server.lower()")]}},
    # `key` is assigned only right after `_name`, as its lower-cased form (or both copied from a record: `DNSEntry.key = name.lower()`)
    {"kind": "paired_attrs", "attrs": ("_name", "key"), "sites": {
        ("_services/info.py", "ServiceInfo"): [("name", "name.lower()"), ("dns_service_record.name", "dns_service_record.key")]},
     "b_also": [("_dns.py", "self.key = name.lower()")]},
]

SOURCE_PINS_DOC = """
`ServiceInfo.server_key` is typed `Str` (not Optional): `assert info.server_key is not None` in `_add` / `_remove` translates to
`pyAssert true`.  That raise site is discharged by the pins, not by the type: (1) every `registry.async_add / async_update /
async_remove(x)` of the library is in `_core.py` and dominated, in the same function, by `x.set_server_if_missing()` (or `x` comes from
`registry.async_get_service_infos()`); (2) `set_server_if_missing` is `if self.server is None: self.server = self._name; self.server_key
= self.key`; (3) `server_key` is assigned only right after `server` as `server.lower()` (`ServiceInfo`, `DNSService`); (4) `key` only
right after `_name` as `name.lower()`.  Likewise "a `ServiceInfo` / `DNSRecord` / `DNSQuestion` / `DNSIncoming` object is truthy": no
mapped class, ancestor or descendant in the library defines `__bool__` or `__len__`.
"""
