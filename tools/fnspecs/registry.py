"""gen_fn spec: _services/registry.py (ServiceRegistry) -> lean/Zc/GenFn/Registry.lean   (C03)

`ServiceInfo` objects are the opaque model type `Svc` (lean/Zc/Model/Registry.lean); `async_remove` takes
`Union[List[ServiceInfo], ServiceInfo]` and is translated once per typing of its parameter."""
AREA = "Registry"
SOURCE = "_services/registry.py"
IMPORTS = ["Zc.Model.Registry"]

IDX = "Dict[Str, List[Str]]"

CLASSES = [
    {
        "py": "ServiceRegistry",
        "fields": [("_services", "Dict[Str, Svc]"), ("types", IDX), ("servers", IDX), ("has_entries", "Bool")],
        "methods": [
            {"name": "async_add", "params": [("info", "Svc")], "ret": "None"},
            {"name": "async_remove", "params": [("info", "Svc")], "ret": "None"},
            {"name": "async_remove", "lean": "ServiceRegistry.async_remove_list", "params": [("info", "List[Svc]")], "ret": "None"},
            {"name": "async_update", "params": [("info", "Svc")], "ret": "None"},
            {"name": "async_get_service_infos", "params": [], "ret": "List[Svc]"},
            {"name": "async_get_info_name", "params": [("name", "Str")], "ret": "Optional[Svc]"},
            {"name": "async_get_types", "params": [], "ret": "List[Str]"},
            {"name": "async_get_infos_type", "params": [("type_", "Str")], "ret": "List[Svc]"},
            {"name": "async_get_infos_server", "params": [("server", "Str")], "ret": "List[Svc]"},
            {"name": "_async_get_by_index", "params": [("records", IDX), ("key", "Str")], "ret": "List[Svc]"},
            {"name": "_add", "params": [("info", "Svc")], "ret": "None"},
            {"name": "_remove_from_index", "params": [("index", IDX), ("key", "Str"), ("name", "Str")], "ret": "None"},
            {"name": "_remove", "params": [("infos", "List[Svc]")], "ret": "None"},
        ],
    },
]
FUNCTIONS = []
