"""gen_fn spec: _cache.py (DNSCache, _remove_key) -> lean/Zc/GenFn/Cache.lean   (C05 / C06 / C04)

Not translated (outside the subset, objects with identity mutated through one of several aliases):
`async_mark_unique_records_older_than_1s_to_expire` (`record.set_created_ttl` on objects that live in both indexes);
the hand model `Cache.markFlush` stays tied by the differential only."""
AREA = "Cache"
SOURCE = "_cache.py"
IMPORTS = ["Zc.Py.Model"]

STORE = "Dict[Rec, Rec]"
IDX = "Dict[Str, Dict[Rec, Rec]]"

FUNCTIONS = [
    {"name": "_remove_key", "params": [("cache", IDX), ("key", "Str"), ("record", "Rec")], "ret": "None"},
]

CLASSES = [
    {
        "py": "DNSCache",
        "fields": [("cache", IDX), ("service_cache", IDX)],
        "methods": [
            {"name": "_async_add", "params": [("record", "Rec")], "ret": "Bool"},
            {"name": "async_add_records", "params": [("entries", "List[Rec]")], "ret": "Bool"},
            {"name": "_async_remove", "params": [("record", "Rec")], "ret": "None"},
            {"name": "async_remove_records", "params": [("entries", "List[Rec]")], "ret": "None"},
            {"name": "async_expire", "params": [("now", "Num")], "ret": "List[Rec]"},
            {"name": "async_get_unique", "params": [("entry", "Rec")], "ret": "Optional[Rec]"},
            {"name": "async_all_by_details", "params": [("name", "Str"), ("type_", "Nat"), ("class_", "Nat")], "ret": "List[Rec]"},
            {"name": "async_entries_with_name", "params": [("name", "Str")], "ret": STORE},
            {"name": "async_entries_with_server", "params": [("name", "Str")], "ret": STORE},
            {"name": "get", "params": [("entry", "Rec")], "ret": "Optional[Rec]"},
            {"name": "get_by_details", "params": [("name", "Str"), ("type_", "Nat"), ("class_", "Nat")], "ret": "Optional[Rec]"},
            {"name": "get_all_by_details", "params": [("name", "Str"), ("type_", "Nat"), ("class_", "Nat")], "ret": "List[Rec]"},
            {"name": "entries_with_server", "params": [("server", "Str")], "ret": "List[Rec]"},
            {"name": "entries_with_name", "params": [("name", "Str")], "ret": "List[Rec]"},
            {"name": "current_entry_with_name_and_alias", "params": [("name", "Str"), ("alias", "Str")], "ret": "Optional[Rec]",
             "env": [("current_time_millis", "Num")]},
            {"name": "names", "params": [], "ret": "List[Str]"},
        ],
    },
]
