"""Shared part of the gen_fn specs: the *opaque model types* (objects of /repo classes that the hand-written models
already represent as Lean structures) with the mapping of their attributes and methods to existing Lean definitions.

Each attribute entry is (type, Lean template[, "raises"]); `{0}` is the object.  An attribute that only exists on a
subclass (e.g. `DNSService.server_key` read from a `DNSRecord`) is a raise site (`AttributeError`, modelled as
`PyExc.other`) implemented in lean/Zc/Py/Model.lean.  This table is part of the trusted base of the translation: it
says which Lean expression *is* `record.key`; what it maps to are definitions the models already use
(`lower r.name`, `Rec.isExpired` built from the generated leaf, ...)."""

OPAQUE = {
    "Rec": {
        "lean": "Rec",
        "eq": "(Rec.beq lower)",  # DNSRecord.__eq__ of the concrete class, defined from the generated identity field lists (C20)
        "always_truthy": True,
        "attrs": {
            "key": ("Str", "(lower {0}.name)"),  # DNSEntry.__init__: self.key = name.lower()  (derivation pinned by gen_lean)
            "name": ("Str", "{0}.name"),
            "type": ("Nat", "{0}.type"),
            "class_": ("Nat", "{0}.class_"),
            "unique": ("Bool", "{0}.unique"),
            "ttl": ("Nat", "{0}.ttl"),
            "created": ("Num", "{0}.created"),
            "server_key": ("Str", "(← Rec.attrServerKey lower {0})", "raises"),  # DNSService only
            "alias": ("Str", "(← Rec.attrAlias {0})", "raises"),  # DNSPointer only
            "alias_key": ("Str", "(← Rec.attrAliasKey lower {0})", "raises"),  # DNSPointer only
        },
        "methods": {
            "get_expiration_time": (["Nat"], "Num", "(Rec.expirationTime {0} {1})"),
            "is_expired": (["Num"], "Bool", "(Rec.isExpired {0} {1})"),
            "is_stale": (["Num"], "Bool", "(Rec.isStale {0} {1})"),
            "is_recent": (["Num"], "Bool", "(Rec.isRecent {0} {1})"),
        },
        "isinstance": {
            "DNSAddress": "(decide ({0}.rdata.kind = Kind.addr))",
            "DNSHinfo": "(decide ({0}.rdata.kind = Kind.hinfo))",
            "DNSPointer": "(decide ({0}.rdata.kind = Kind.ptr))",
            "DNSText": "(decide ({0}.rdata.kind = Kind.txt))",
            "DNSService": "(decide ({0}.rdata.kind = Kind.srv))",
            "DNSNsec": "(decide ({0}.rdata.kind = Kind.nsec))",
        },
    },
    "Question": {
        "lean": "Question",
        "eq": "(Question.beq lower)",
        "always_truthy": True,
        "attrs": {
            "key": ("Str", "(lower {0}.name)"),
            "name": ("Str", "{0}.name"),
            "type": ("Nat", "{0}.type"),
            "class_": ("Nat", "{0}.class_"),
            "unique": ("Bool", "{0}.unique"),
        },
    },
    "Incoming": {
        # a DNSIncoming as far as `DNSRecord.suppressed_by` looks at it: the list `msg.answers()` returns
        "lean": "(List Rec)",
        "attrs": {},
        "methods": {"answers": ([], "List[Rec]", "{0}")},
    },
    "RecId": {
        # a record as the Reply model (C11/C12) sees it: the harness numbers the distinct records (C20 identity) of a scenario
        "lean": "Nat",
        "eq": "(fun a b => a == b)",
        "always_truthy": True,
        "immutable": True,
        "attrs": {},
    },
    "ZcHandle": {
        # the `Zeroconf` instance as the outgoing queue uses it: a handle to the loop and to `async_send` (effects, see EFFECTS)
        "lean": "Unit",
        "immutable": True,
        # `zc.done` is an environment reading: the parameter `zc_done` of the function that reads it
        "attrs": {"loop": ("LoopHandle", "()"), "done": ("Bool", "zc_done")},
    },
    "LoopHandle": {
        # the event loop: `time()` is an environment reading (parameter `loop_time_ms`, in milliseconds: the float seconds of
        # `loop.time()` are carried as the exact fraction loop_time_ms / 1000), `call_at` is an effect
        "lean": "Unit",
        "immutable": True,
        "attrs": {},
        "methods": {"time": ([], "Frac1000", "loop_time_ms")},
    },
    "LMsg": {
        # a parsed query datagram as the listener looks at it: what `DNSIncoming` parsed (`MsgInfo`) and the packet kept for the
        # query handler (`Packet`: `data`, `now`)
        "lean": "(Zc.Listener.MsgInfo × Zc.Listener.Packet)",
        "always_truthy": True,
        "py_classes": ["DNSIncoming"],
        "immutable": True,
        "attrs": {"truncated": ("Bool", "{0}.1.truncated"), "data": ("Bytes", "{0}.2.data")},
    },
    "TcHandle": {
        # the `asyncio.TimerHandle` of a deferred truncated query: its due time (ms of loop time) and the captured port
        "lean": "Zc.Listener.TcTimer",
        "immutable": True,
        "always_truthy": True,
        "attrs": {},
    },
    "QhHandle": {"lean": "Unit", "immutable": True, "always_truthy": True, "attrs": {}},
    "TransportHandle": {"lean": "Unit", "immutable": True, "always_truthy": True, "attrs": {}},
    "FlowScope": {"lean": "Unit", "immutable": True, "attrs": {}},
    "CacheHandle": {
        # the `DNSCache` as `_QueryResponse` holds it: only handed to `_get_unique_ignoring_scope`, an environment function there
        "lean": "Unit",
        "immutable": True,
        "always_truthy": True,
        "attrs": {},
    },
    "TimerHandle": {
        # an `asyncio.TimerHandle`: what `call_later` / `call_at` return; `cancel()` is an effect
        "lean": "Unit",
        "immutable": True,
        "always_truthy": True,
        "attrs": {},
    },
    "Svc": {
        # a registered ServiceInfo: the model's `Svc` has a non-optional server (`_add` asserts it, DESIGN §7 C03)
        "lean": "Svc",
        "always_truthy": True,
        "attrs": {
            "key": ("Str", "(lower {0}.name)"),  # ServiceInfo.__init__ / name setter: self.key = name.lower()
            "name": ("Str", "{0}.name"),
            "type": ("Str", "{0}.type"),
            "server": ("Str", "{0}.server"),
            "server_key": ("Str", "(lower {0}.server)"),  # self.server_key = server.lower() if server else None; never None once registered
        },
        "mutators": {
            "async_clear_cache": ([], "Svc.clearMemo {0}"),
        },
    },
}

# Python annotation names -> spec types (for annotated locals such as `removes: List[DNSQuestion] = []`)
PYTYPES = {
    "DNSQuestion": "Question", "DNSRecord": "Rec", "_DNSRecord": "Rec", "DNSEntry": "Rec", "ServiceInfo": "Svc",
    "float": "Num", "_float": "Num", "int": "Num", "_int": "Num", "str": "Str", "_str": "Str", "bool": "Bool",
}

# exception classes -> constructors of Zc.PyExc
EXCEPTIONS = {
    "KeyError": "keyError", "ValueError": "valueError", "AssertionError": "assertion", "IndexError": "indexError",
    "ServiceNameAlreadyRegistered": "alreadyRegistered", "NonUniqueNameException": "nonUnique",
    "NotRunningException": "notRunning", "BadTypeInNameException": "badType", "NamePartTooLongException": "namePartTooLong",
}
