"""gen_fn spec: _handlers/multicast_outgoing_queue.py (MulticastOutgoingQueue) -> lean/Zc/GenFn/Queue.lean   (C12)

The three sources of non-determinism / effects of the module become parameters and returned values:
  * `RAND_INT(lo, hi)` (= random.randint) is the function parameter `RAND_INT`,
  * `loop.time()` is the parameter `loop_time_ms` (the float seconds as the exact fraction loop_time_ms / 1000),
    `current_time_millis()` is the parameter `current_time_millis`,
  * `loop.call_at(when, self.async_ready)` and `zc.async_send(construct_outgoing_multicast_answers(answers))` are returned, in
    order, as `QEffect`s (`when` in milliseconds).
`deque` is a list; the `while` of `async_ready` is bounded by the queue length at entry (`while_fuel`).
Records are the Reply model's `RecId`."""
AREA = "Queue"
SOURCE = "_handlers/multicast_outgoing_queue.py"
IMPORTS = ["Zc.Model.Basic"]

CONSTS_FROM = ["_handlers/answers.py"]

ANS = "Dict[RecId, Set[RecId]]"
PYTYPES = {"_AnswerWithAdditionalsType": ANS}

PRELUDE_LEAN = '''
/-- what `MulticastOutgoingQueue` does to the outside, in order -/
inductive QEffect where
  /-- `loop.call_at(when, self.async_ready)`; `when` in milliseconds of loop time -/
  | callAt (whenMs : Int)
  /-- `zc.async_send(construct_outgoing_multicast_answers(answers))` -/
  | send (answers : PyDict Nat (PySet Nat))
  deriving DecidableEq, Repr
'''

# helper whose definition the translation relies on: millis_to_seconds(x) is x / 1000.0
NUMFUNCS = {"millis_to_seconds": ("div", 1000)}
PINS = [{"source": "_utils/time.py", "def": "millis_to_seconds", "returns": "millis / 1000.0"}]

EFFECTS = {
    "type": "QEffect",
    "calls": [
        {"recv": "LoopHandle", "method": "call_at", "args": ["Frac1000", "=self.async_ready"], "lean": "QEffect.callAt {0}"},
        {"recv": "ZcHandle", "method": "async_send", "args": ["construct_outgoing_multicast_answers(%s)" % ANS], "lean": "QEffect.send {0}"},
    ],
}

CLASSES = [
    {
        "py": "AnswerGroup",
        "source": "_handlers/answers.py",
        "fields": [("send_after", "Num"), ("send_before", "Num"), ("answers", ANS)],
        "init_params": [("send_after", "Num"), ("send_before", "Num"), ("answers", ANS)],
        "methods": [],
    },
    {
        "py": "MulticastOutgoingQueue",
        "fields": [("zc", "ZcHandle"), ("queue", "List[AnswerGroup]"), ("_multicast_delay_random_min", "Num"), ("_multicast_delay_random_max", "Num"),
                   ("_additional_delay", "Num"), ("_aggregation_delay", "Num")],
        "init_params": [("zeroconf", "ZcHandle"), ("additional_delay", "Num"), ("max_aggregation_delay", "Num")],
        "methods": [
            {"name": "async_add", "params": [("now", "Num"), ("answers", ANS)], "ret": "None",
             "env": [("RAND_INT", "Num", ["Num", "Num"]), ("loop_time_ms", "Num")]},
            {"name": "async_remove_answers", "params": [("records", "List[RecId]")], "ret": "None"},
            {"name": "_remove_answers_from_queue", "params": [("answers", ANS)], "ret": "None"},
            {"name": "async_ready", "params": [], "ret": "None", "env": [("current_time_millis", "Num"), ("loop_time_ms", "Num")],
             "while_fuel": ["len(self.queue)"]},
        ],
    },
]
FUNCTIONS = []
