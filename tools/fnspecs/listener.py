"""gen_fn spec: _listener.py (`AsyncListener`: truncated-query deferral) -> lean/Zc/GenFn/Listener.lean   (C11/C18, Model/Listener.lean)

`handle_query_or_defer`, `_cancel_any_timers_for_addr`, `_respond_query`.  A message is what the listener looks at in the parsed
`DNSIncoming` (`MsgInfo`) and the packet handed on (`Packet`).  `random.randint` is a function parameter, `loop.time()` the parameter
`loop_time_ms`; `loop.call_at(when, self._respond_query, None, addr, port, transport, v6_flow_scope)` is a returned effect whose value
(the `TimerHandle` kept in `_timers`) carries the due time and the captured port (the model's `TcTimer`); `handle.cancel()` and
`self._query_handler.handle_assembled_query(packets, addr, port, …)` are returned effects.  `transport` and `v6_flow_scope` are passed
through untouched (`Unit`).  `__init__` is not translated (`super().__init__()`, attributes of `zc`)."""
AREA = "Listener"
SOURCE = "_listener.py"
IMPORTS = ["Zc.Model.Listener"]

PRELUDE_LEAN = '''
/-- what the three methods do to the outside, in order -/
inductive LEffect where
  /-- `loop.call_at(when, self._respond_query, None, addr, port, transport, v6_flow_scope)`; `when` in ms of loop time -/
  | callAt (whenMs : Int) (addr : String) (port : Nat)
  /-- `handle.cancel()` of the timer that was armed for an address -/
  | cancel (h : Zc.Listener.TcTimer)
  /-- `self._query_handler.handle_assembled_query(packets, addr, port, transport, v6_flow_scope)` -/
  | assembled (packets : List (Zc.Listener.MsgInfo × Zc.Listener.Packet)) (addr : String) (port : Nat)
  deriving DecidableEq, Repr
'''

NUMFUNCS = {"millis_to_seconds": ("div", 1000)}
PINS = [{"source": "_utils/time.py", "def": "millis_to_seconds", "returns": "millis / 1000.0"}]

EFFECTS = {
    "type": "LEffect",
    "calls": [
        {"recv": "LoopHandle", "method": "call_at",
         "args": ["Frac1000", "=self._respond_query", "=None", "Str", "Nat", "TransportHandle", "FlowScope"],
         "lean": "LEffect.callAt {0} {1} {2}", "returns": ("TcHandle", "(⟨{0}, {2}⟩ : Zc.Listener.TcTimer)")},
        {"recv": "TcHandle", "method": "cancel", "args": [], "lean": "LEffect.cancel {recv}"},
        {"recv": "QhHandle", "method": "handle_assembled_query", "args": ["List[LMsg]", "Str", "Nat", "TransportHandle", "FlowScope"],
         "lean": "LEffect.assembled {0} {1} {2}"},
    ],
}

RAND = ("random.randint", "Num", ["Num", "Num"])
LT = ("loop_time_ms", "Num")
ARGS = [("addr", "Str"), ("port", "Nat"), ("transport", "TransportHandle"), ("v6_flow_scope", "FlowScope")]

CLASSES = [
    {
        "py": "AsyncListener",
        "no_init": True,
        "fields": [("zc", "ZcHandle"), ("_query_handler", "QhHandle"), ("_deferred", "Dict[Str, List[LMsg]]"), ("_timers", "Dict[Str, TcHandle]")],
        "methods": [
            {"name": "_cancel_any_timers_for_addr", "params": [("addr", "Str")], "ret": "None"},
            {"name": "_respond_query", "params": [("msg", "Optional[LMsg]")] + ARGS, "ret": "None"},
            {"name": "handle_query_or_defer", "params": [("msg", "LMsg")] + ARGS, "ret": "None", "env": [RAND, LT]},
        ],
    },
]
FUNCTIONS = []
