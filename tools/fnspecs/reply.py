"""gen_fn spec: _handlers/query_handler.py (`_QueryResponse`) + _handlers/answers.py (`QuestionAnswers`) -> lean/Zc/GenFn/Reply.lean   (C11)

`_QueryResponse` sorts the answers of one query into the four delivery classes (unicast, multicast now, multicast aggregated, multicast
aggregated but held back a second).  Records are the Reply model's `RecId` (the harness numbers the distinct records, C20 identity).
`self._get_unique_ignoring_scope(record)` — the look-up of our own record in the cache (`DNSCache.async_get_unique`, plus the
scope-insensitive search for addresses) — is an environment *function* `RecId -> Optional[DNSRecord]`: the model's `SeenMap`.
`answers()` iterates four `set`s to build four dicts: CPython does so in hash order, the translation in insertion order (spec assumption
`set_order`, stated in the generated docstring): what `QuestionAnswers` is compared for is its four dicts as maps (the model's `QA`);
the order inside a packet among records of equal name is not modelled (Model/Reply.lean, `additionalsOf`)."""
AREA = "Reply"
SOURCE = "_handlers/query_handler.py"
IMPORTS = ["Zc.Py.Model"]

ANS = "Dict[RecId, Set[RecId]]"
PYTYPES = {"_AnswerWithAdditionalsType": ANS, "_UniqueRecordsType": "RecId"}

SEEN = ("self._get_unique_ignoring_scope", "Optional[Rec]", ["RecId"])

CLASSES = [
    {
        "py": "QuestionAnswers",
        "source": "_handlers/answers.py",
        "fields": [("ucast", ANS), ("mcast_now", ANS), ("mcast_aggregate", ANS), ("mcast_aggregate_last_second", ANS)],
        "init_params": [("ucast", ANS), ("mcast_now", ANS), ("mcast_aggregate", ANS), ("mcast_aggregate_last_second", ANS)],
        "methods": [],
    },
    {
        "py": "_QueryResponse",
        "fields": [("_is_probe", "Bool"), ("_questions", "List[Question]"), ("_now", "Num"), ("_cache", "CacheHandle"), ("_additionals", ANS),
                   ("_ucast", "Set[RecId]"), ("_mcast_now", "Set[RecId]"), ("_mcast_aggregate", "Set[RecId]"),
                   ("_mcast_aggregate_last_second", "Set[RecId]")],
        "init_params": [("cache", "CacheHandle"), ("questions", "List[Question]"), ("is_probe", "Bool"), ("now", "Num")],
        "methods": [
            {"name": "_has_mcast_within_one_quarter_ttl", "params": [("record", "RecId")], "ret": "Bool", "env": [SEEN]},
            {"name": "_has_mcast_record_in_last_second", "params": [("record", "RecId")], "ret": "Bool", "env": [SEEN]},
            {"name": "add_qu_question_response", "params": [("answers", ANS)], "ret": "None", "env": [SEEN]},
            {"name": "add_ucast_question_response", "params": [("answers", ANS)], "ret": "None"},
            {"name": "add_mcast_question_response", "params": [("answers", ANS)], "ret": "None", "env": [SEEN]},
            {"name": "answers", "params": [], "ret": "QuestionAnswers", "set_order": "insertion"},
        ],
    },
]
FUNCTIONS = []
