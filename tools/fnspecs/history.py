"""gen_fn spec: _history.py (QuestionHistory) -> lean/Zc/GenFn/History.lean   (C13)"""
AREA = "History"
SOURCE = "_history.py"
IMPORTS = ["Zc.Model.Dns"]

CLASSES = [
    {
        "py": "QuestionHistory",
        "fields": [("_history", "Dict[Question, Tuple[Num, Set[Rec]]]")],
        "methods": [
            {"name": "add_question_at_time", "params": [("question", "Question"), ("now", "Num"), ("known_answers", "Set[Rec]")], "ret": "None"},
            {"name": "suppresses", "params": [("question", "Question"), ("now", "Num"), ("known_answers", "Set[Rec]")], "ret": "Bool"},
            {"name": "async_expire", "params": [("now", "Num")], "ret": "None"},
            {"name": "clear", "params": [], "ret": "None"},
        ],
    },
]
FUNCTIONS = []
