"""gen_fn spec: _dns.py, the time / suppression methods of DNSRecord -> lean/Zc/GenFn/Dns.lean   (all properties through Model/Dns.lean)

`self` is the opaque model type `Rec`.  `get_remaining_ttl` returns a float number of seconds; the translation returns its
floor (what `_write_ttl`'s `int()` and the model's `Rec.remainingTtl` use), `floor` below.
Not translated: `reset_ttl` / `set_created_ttl` (mutate a record object that lives in several containers: identity)."""
AREA = "Dns"
SOURCE = "_dns.py"
IMPORTS = ["Zc.Model.Dns"]

CLASSES = [
    {
        "py": "DNSRecord",
        "bases": ["DNSEntry"],
        "opaque": "Rec",
        "fields": [],
        "methods": [
            {"name": "get_expiration_time", "params": [("percent", "Num")], "ret": "Num"},
            {"name": "get_remaining_ttl", "params": [("now", "Num")], "ret": "Num", "floor": True},
            {"name": "is_expired", "params": [("now", "Num")], "ret": "Bool"},
            {"name": "is_stale", "params": [("now", "Num")], "ret": "Bool"},
            {"name": "is_recent", "params": [("now", "Num")], "ret": "Bool"},
            {"name": "_suppressed_by_answer", "params": [("other", "Rec")], "ret": "Bool"},
            {"name": "suppressed_by", "params": [("msg", "Incoming")], "ret": "Bool"},
        ],
    },
]
FUNCTIONS = []
