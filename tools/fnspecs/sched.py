"""gen_fn spec: _services/browser.py, `_ScheduledPTRQuery` and `QueryScheduler` -> lean/Zc/GenFn/Sched.lean   (C10)

`_ScheduledPTRQuery` objects have identity: the same object sits in `_query_heap` and in `_next_scheduled_for_alias` and is
changed through the dict (`scheduled.cancelled = True`).  They live in a store owned by the scheduler (`PyStore`), the two
containers hold their ids — the representation `Model/Sched2.lean` uses.  `heapq` is the ascending-list abstraction of the
runtime (`PyHeap`), ordered by the translated `__lt__`.
Environment: `random.randint`, `current_time_millis()`, `zc.done` are parameters; `loop.call_later` / `loop.call_at` /
`TimerHandle.cancel()` / `self.async_send_ready_queries(...)` are returned effects (`SEffect`), times in milliseconds.
`_clock_resolution_millis` (`time.get_clock_info('monotonic').resolution * 1000`) is a constructor parameter.
`schedule_rescue_query`: `ttl_millis * additional_percentage` is carried as an exact fraction (per mille); the resulting
`next_query_time` is stored in the new object as its floor (`floor_frac_args`) — it is integral for every per-mille percentage that
is a multiple of 1/1000 because `ttl_millis = ttl * 1000` (the model makes the same reading, notes/agents/C10.md)."""
AREA = "Sched"
SOURCE = "_services/browser.py"
IMPORTS = ["Zc.Py.Model"]

PYTYPES = {"_ScheduledPTRQuery": "_ScheduledPTRQuery"}

PRELUDE_LEAN = '''
/-- which callback a timer was armed with -/
inductive Cb where
  | startup  -- `self._process_startup_queries`
  | ready    -- `self._process_ready_types`
  deriving DecidableEq, Repr

/-- what `QueryScheduler` does to the outside, in order -/
inductive SEffect where
  /-- `loop.call_later(delay, cb)`; `delay` in milliseconds -/
  | callLater (delayMs : Int) (cb : Cb)
  /-- `loop.call_at(when, cb)`; `when` in milliseconds of loop time -/
  | callAt (whenMs : Int) (cb : Cb)
  /-- `self._next_run.cancel()` -/
  | cancel
  /-- `self.async_send_ready_queries(first_request, now_millis, ready_types)` -/
  | send (first : Bool) (now : Int) (types : PySet String)
  deriving DecidableEq, Repr
'''

NUMFUNCS = {"millis_to_seconds": ("div", 1000)}
PINS = [{"source": "_utils/time.py", "def": "millis_to_seconds", "returns": "millis / 1000.0"}]

EFFECTS = {
    "type": "SEffect",
    "calls": [
        {"recv": "LoopHandle", "method": "call_later", "args": ["Frac1000", "=self._process_startup_queries"], "lean": "SEffect.callLater {0} Cb.startup",
         "returns": ("TimerHandle", "()")},
        {"recv": "LoopHandle", "method": "call_at", "args": ["Frac1000", "=self._process_ready_types"], "lean": "SEffect.callAt {0} Cb.ready",
         "returns": ("TimerHandle", "()")},
        {"recv": "TimerHandle", "method": "cancel", "args": [], "lean": "SEffect.cancel"},
        {"recv": "self", "method": "async_send_ready_queries", "args": ["Bool", "Num", "Set[Str]"], "lean": "SEffect.send {0} {1} {2}"},
    ],
}

Q = "_ScheduledPTRQuery"
VQ = "ByValue[_ScheduledPTRQuery]"

CLASSES = [
    {
        "py": Q,
        "identity": {"owner": "QueryScheduler"},
        "fields": [("alias", "Str"), ("name", "Str"), ("ttl", "Nat"), ("cancelled", "Bool"), ("expire_time_millis", "Num"), ("when_millis", "Num")],
        "init_params": [("alias", "Str"), ("name", "Str"), ("ttl", "Nat"), ("expire_time_millis", "Num"), ("when_millis", "Num")],
        "methods": [
            {"name": "__lt__", "params": [("other", VQ)], "ret": "Bool"},
            {"name": "__le__", "params": [("other", VQ)], "ret": "Bool"},
            {"name": "__eq__", "params": [("other", VQ)], "ret": "Bool"},
            {"name": "__ge__", "params": [("other", VQ)], "ret": "Bool"},
            {"name": "__gt__", "params": [("other", VQ)], "ret": "Bool"},
        ],
    },
    {
        "py": "QueryScheduler",
        "fields": [("_zc", "ZcHandle"), ("_types", "Set[Str]"), ("_addr", "Optional[Str]"), ("_port", "Num"), ("_multicast", "Bool"),
                   ("_first_random_delay_interval", "Tuple[Num, Num]"), ("_min_time_between_queries_millis", "Num"),
                   ("_loop", "Optional[LoopHandle]"), ("_startup_queries_sent", "Nat"), ("_next_scheduled_for_alias", "Dict[Str, %s]" % Q),
                   ("_query_heap", "List[%s]" % Q), ("_next_run", "Optional[TimerHandle]"), ("_next_run_millis", "Num"),
                   ("_earliest_next_run_millis", "Num"), ("_clock_resolution_millis", "Num"), ("_question_type", "Optional[Bool]")],
        "init_params": [("zc", "ZcHandle"), ("types", "Set[Str]"), ("addr", "Optional[Str]"), ("port", "Num"), ("multicast", "Bool"),
                        ("delay", "Num"), ("first_random_delay_interval", "Tuple[Num, Num]"), ("question_type", "Optional[Bool]")],
        "init_env": {"_clock_resolution_millis": "clock_resolution_millis"},
        "methods": [
            {"name": "start", "params": [("loop", "LoopHandle")], "ret": "None", "env": [("random.randint", "Num", ["Num", "Num"])]},
            {"name": "stop", "params": [], "ret": "None"},
            {"name": "_schedule_ptr_refresh", "params": [("pointer", "Rec"), ("expire_time_millis", "Num"), ("refresh_time_millis", "Num")], "ret": "None"},
            {"name": "_schedule_ptr_query", "params": [("scheduled_query", Q)], "ret": "None"},
            {"name": "_rearm_if_earlier", "params": [("when_millis", "Num")], "ret": "None"},
            {"name": "_arm_ready_types", "params": [("when_millis", "Num")], "ret": "None"},
            {"name": "cancel_ptr_refresh", "params": [("pointer", "Rec")], "ret": "None"},
            {"name": "reschedule_ptr_first_refresh", "params": [("pointer", "Rec")], "ret": "None"},
            {"name": "schedule_rescue_query", "params": [("query", Q), ("now_millis", "Num"), ("additional_percentage", "Frac1000")], "ret": "None",
             "floor_frac_args": True},
            {"name": "_process_startup_queries", "params": [], "ret": "None", "env": [("zc_done", "Bool"), ("current_time_millis", "Num")]},
            {"name": "_process_ready_types", "params": [], "ret": "None", "env": [("zc_done", "Bool"), ("current_time_millis", "Num")],
             "while_fuel": ["len(self._query_heap)"]},
        ],
    },
]
FUNCTIONS = []
