#!/venv/bin/python
"""Alpha-normalisation of function bodies against the validated baseline (DESIGN §2.1, "harmless rewrites").

The leaf locators of `gen_lean.py` and the fingerprints of `fingerprint.py` are keyed on source text, so a
behaviour-preserving rename of a *local variable* used to break the translation (stage T) and end in
`VIOLATION … no-failing-input-found` on code where the property holds.  This module removes that class of false
alarm soundly: a function of the working tree that is equal to the baseline's function **up to a bijective renaming
of its local variables** is rewritten (in the parsed AST only, never on disk) to the baseline's spelling before any
locator looks at it.  Nothing else is normalised: parameters (callers may pass them by keyword), attributes, globals,
keyword-argument names, constants and the statement structure must be identical, and the renaming must be a bijection
between names *bound* inside the function on both sides, so the rewritten AST is the working tree's function with its
bound variables renamed — the same function.

    tools/alpha.py --write [repo]    rewrite tools/baseline_fns.json from <repo> (done together with fingerprint.py --write)
"""
import ast
import json
import pathlib
import sys

ROOT = pathlib.Path(__file__).resolve().parent.parent
BASE = ROOT / "tools" / "baseline_fns.json"

_FN = (ast.FunctionDef, ast.AsyncFunctionDef)


def _strip_doc(node):
    body = getattr(node, "body", None)
    if isinstance(body, list) and body and isinstance(body[0], ast.Expr) and isinstance(getattr(body[0], "value", None), ast.Constant) \
            and isinstance(body[0].value.value, str):
        node.body = body[1:] or [ast.Pass()]


def functions(tree):
    """[(qualname, node)] of every function/method of a module (nested classes included, nested functions not:
    they are part of their enclosing function)"""
    out = []

    def visit(body, prefix):
        for n in body:
            if isinstance(n, _FN):
                out.append((prefix + n.name, n))
            elif isinstance(n, ast.ClassDef):
                visit(n.body, prefix + n.name + ".")

    visit(tree.body, "")
    return out


def bound_names(fn):
    """names bound inside `fn` (assignment / for / with / except / comprehension / walrus targets, nested function and
    lambda parameters, nested def names), minus the function's own parameters and anything declared global/nonlocal"""
    own = {a.arg for a in fn.args.posonlyargs + fn.args.args + fn.args.kwonlyargs}
    if fn.args.vararg:
        own.add(fn.args.vararg.arg)
    if fn.args.kwarg:
        own.add(fn.args.kwarg.arg)
    bound, free = set(), set()
    for n in ast.walk(fn):
        if isinstance(n, ast.Name) and isinstance(n.ctx, (ast.Store, ast.Del)):
            bound.add(n.id)
        elif isinstance(n, (ast.Global, ast.Nonlocal)):
            free.update(n.names)
        elif isinstance(n, ast.ExceptHandler) and n.name:
            bound.add(n.name)
        elif isinstance(n, ast.arg) and n is not None:
            bound.add(n.arg)
        elif isinstance(n, _FN) and n is not fn:
            bound.add(n.name)
        elif isinstance(n, (ast.Import, ast.ImportFrom)):
            for a in n.names:
                free.add((a.asname or a.name).split(".")[0])  # local imports are left alone
    return bound - own - free, own


def alpha_match(cur, base):
    """cur, base: function nodes.  Returns the renaming {cur local -> base local} when `cur` equals `base` up to a
    bijective renaming of bound names, else None."""
    cb, cown = bound_names(cur)
    bb, bown = bound_names(base)
    if cown != bown:
        return None
    fwd, back = {}, {}

    def name(c, b):
        if c in cb or b in bb:
            if not (c in cb and b in bb):
                return False
            if fwd.setdefault(c, b) != b or back.setdefault(b, c) != c:
                return False
            return True
        return c == b

    def eq(c, b, top=False):
        if type(c) is not type(b):
            return False
        if isinstance(c, ast.AST):
            if isinstance(c, ast.Name):
                return type(c.ctx) is type(b.ctx) and name(c.id, b.id)
            if isinstance(c, ast.arg) and not top:
                return name(c.arg, b.arg) and eq(c.annotation, b.annotation)
            if isinstance(c, ast.ExceptHandler):
                if (c.name is None) != (b.name is None) or (c.name is not None and not name(c.name, b.name)):
                    return False
                return eq(c.type, b.type) and eq(c.body, b.body)
            if isinstance(c, _FN) and not top:
                if not name(c.name, b.name):
                    return False
                return all(eq(getattr(c, f), getattr(b, f)) for f in c._fields if f not in ("name", "type_comment"))
            if isinstance(c, _FN) and top:
                if c.name != b.name:
                    return False
                # own parameters: identical spelling (callers may use keywords)
                if ast.dump(c.args) != ast.dump(b.args):
                    return False
                return all(eq(getattr(c, f), getattr(b, f)) for f in c._fields if f not in ("name", "args", "type_comment"))
            return all(eq(getattr(c, f, None), getattr(b, f, None)) for f in c._fields if f != "type_comment")
        if isinstance(c, list):
            return len(c) == len(b) and all(eq(x, y) for x, y in zip(c, b))
        return c == b

    if not eq(cur, base, top=True):
        return None
    return fwd


def rename_locals(fn, mapping):
    """apply {old -> new} to every binding/use of a bound name inside fn (in place)"""
    for n in ast.walk(fn):
        if isinstance(n, ast.Name) and n.id in mapping:
            n.id = mapping[n.id]
        elif isinstance(n, ast.arg) and n.arg in mapping:
            n.arg = mapping[n.arg]
        elif isinstance(n, ast.ExceptHandler) and n.name in mapping:
            n.name = mapping[n.name]
        elif isinstance(n, _FN) and n is not fn and n.name in mapping:
            n.name = mapping[n.name]


_cache = {}


def baseline():
    if "b" not in _cache:
        try:
            _cache["b"] = json.loads(BASE.read_text())["functions"]
        except (OSError, ValueError, KeyError):
            _cache["b"] = {}
    return _cache["b"]


def normalise(tree, rel):
    """Rewrite, in the parsed module `tree` of file `rel`, every function that is an alpha-variant of its baseline version to
    the baseline's spelling of local names.  Returns the list of qualnames that were rewritten."""
    base = baseline()
    done = []
    for qual, fn in functions(tree):
        src = base.get("%s::%s" % (rel, qual))
        if src is None:
            continue
        try:
            bfn = ast.parse(src).body[0]
        except SyntaxError:
            continue
        cfn_doc = fn
        saved = list(fn.body)
        _strip_doc(cfn_doc)
        if ast.dump(fn) == ast.dump(bfn):
            fn.body = saved
            continue
        m = alpha_match(fn, bfn)
        fn.body = saved
        if m and any(k != v for k, v in m.items()):
            rename_locals(fn, {k: v for k, v in m.items() if k != v})
            done.append(qual)
    return done


def write(repo):
    out = {}
    src = pathlib.Path(repo) / "src" / "zeroconf"
    for p in sorted(src.rglob("*.py")):
        rel = str(p.relative_to(src))
        try:
            tree = ast.parse(p.read_text())
        except (SyntaxError, UnicodeDecodeError, OSError):
            continue
        for qual, fn in functions(tree):
            for n in ast.walk(fn):
                _strip_doc(n)
            out["%s::%s" % (rel, qual)] = ast.unparse(fn)
    BASE.write_text(json.dumps({"comment": "source of every function of the tree the models were validated against, docstrings "
                                           "stripped (tools/alpha.py --write); used only to undo renames of local variables",
                                "functions": out}, indent=0, sort_keys=True))
    return len(out)


if __name__ == "__main__":
    args = [a for a in sys.argv[1:] if not a.startswith("--")]
    if "--write" in sys.argv:
        print("%d baseline functions written" % write(args[0] if args else "/repo"))
    else:
        repo = args[0] if args else "/repo"
        src = pathlib.Path(repo) / "src" / "zeroconf"
        for p in sorted(src.rglob("*.py")):
            rel = str(p.relative_to(src))
            d = normalise(ast.parse(p.read_text()), rel)
            if d:
                print(rel, d)
