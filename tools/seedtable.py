#!/venv/bin/python
"""print the table of independently seeded defects (seeded/*/meta.json) as markdown, for DESIGN.md §8"""
import json, pathlib, re
ROOT = pathlib.Path(__file__).resolve().parent.parent
rows = []
for d in sorted((ROOT / "seeded").iterdir()):
    m = d / "meta.json"
    if not m.exists():
        continue
    j = json.loads(m.read_text())
    title = ""
    n = d / "notes.md"
    if n.exists():
        for line in n.read_text().splitlines():
            if line.strip():
                title = re.sub(r"^#+\s*", "", line.strip())
                title = re.sub(r"^(Seeded defect|Seed|Change|Defect)\s*\d*\s*[-–—:.]*\s*", "", title, flags=re.I)
                break
    patch = (d / "patch.diff").read_text() if (d / "patch.diff").exists() else ""
    files = sorted(set(re.findall(r"^\+\+\+ b/src/zeroconf/(\S+)", patch, re.M)))
    chk = j.get("check", {})
    vl = chk.get("violation_line", "")
    how = "stale" if j.get("stale") else "missed" if not j.get("detected") else ("no-failing-input-found" if "no-failing-input-found" in vl else "concrete replay")
    sig = (chk.get("replay_summary") or "").split("|")[0].strip()
    rows.append((j.get("name", d.name), ", ".join(files), title[:110], how, sig[:60]))
print("| seed | file(s) | change | result | signature / stage |")
print("|---|---|---|---|---|")
for r in rows:
    print("| %s | %s | %s | %s | `%s` |" % r)
print()
stale = sum(1 for r in rows if r[3] == "stale")
tot = len(rows) - stale; det = sum(1 for r in rows if r[3] not in ("missed", "stale")); conc = sum(1 for r in rows if r[3] == "concrete replay")
print("%d seeds: %d detected (%d with a concrete replay, %d as no-failing-input-found), %d missed%s" % (tot, det, conc, det - conc, tot - det, "; %d more stale (the demo no longer demonstrates on the current tree)" % stale if stale else ""))
