#!/venv/bin/python
"""Sensitivity table of the function-body tie (FN work package, notes/agents/FN.md §sensitivity).

For each entry: copy /repo/src to a scratch directory, apply ONE textual edit to a translated function, run
`VERIF_REPO=<scratch> ./check <Cxx> quick`, and record which stage reports what.  `kind` is "mutation" (behaviour
changes: stage P must break, ideally O finds the input) or "rewrite" (behaviour preserved: must stay exit 0).

  tools/fn_sensitivity.py [name-prefix ...]      (scratch copies under /tmp/fn-sens/, removed afterwards)
"""
from __future__ import annotations

import os
import pathlib
import re
import shutil
import subprocess
import sys

ROOT = pathlib.Path(__file__).resolve().parent.parent
SCRATCH = pathlib.Path("/tmp/fn-sens")

H = "_history.py"
R = "_services/registry.py"
C = "_cache.py"
D = "_dns.py"
Q = "_handlers/multicast_outgoing_queue.py"
B = "_services/browser.py"
P = "_handlers/query_handler.py"
LS = "_listener.py"

# (name, kind, property, file, old, new)
CASES = [
    # ---- _history.py / C13
    ("H-M1", "mutation", "C13", H, "        if now - than > _DUPLICATE_QUESTION_INTERVAL:\n            return False\n        # The last question has more",
     "        if now - than >= _DUPLICATE_QUESTION_INTERVAL:\n            return False\n        # The last question has more"),
    ("H-M2", "mutation", "C13", H, "        if previous_known_answers - known_answers:\n            return False\n", ""),
    ("H-M3", "mutation", "C13", H, "if previous_known_answers - known_answers:", "if known_answers - previous_known_answers:"),
    ("H-M4", "mutation", "C13", H, "            if now - than > _DUPLICATE_QUESTION_INTERVAL:\n                removes.append(question)",
     "            if now - than > _DUPLICATE_QUESTION_INTERVAL:\n                removes.append(question)\n                break"),
    ("H-M5", "mutation", "C13", H, "self._history[question] = (now, known_answers)", "self._history.setdefault(question, (now, known_answers))"),
    ("H-R1", "rewrite", "C13", H, ("than", "earlier"), None),
    ("H-R2", "rewrite", "C13", H,
     "        if now - than > _DUPLICATE_QUESTION_INTERVAL:\n            return False\n        # The last question has more known answers than\n        # we knew so we have to ask\n        if previous_known_answers - known_answers:\n            return False\n        return True",
     "        if now - than > _DUPLICATE_QUESTION_INTERVAL:\n            return False\n        else:\n            if previous_known_answers - known_answers:\n                return False\n            else:\n                return True"),
    ("H-R3", "rewrite", "C13", H,
     "        removes: List[DNSQuestion] = []\n        for question, now_known_answers in self._history.items():\n            than, _ = now_known_answers\n            if now - than > _DUPLICATE_QUESTION_INTERVAL:\n                removes.append(question)\n",
     "        removes = [question for question, (than, _) in self._history.items() if now - than > _DUPLICATE_QUESTION_INTERVAL]\n"),
    ("H-R4", "rewrite", "C13", H, "        if not previous_question:\n            return False\n", "        if previous_question is None:\n            return False\n"),
    # ---- _services/registry.py / C03
    ("R-M1", "mutation", "C03", R, "        names.remove(name)\n        if not names:\n            del index[key]\n", "        names.remove(name)\n"),
    ("R-M2", "mutation", "C03", R, "        self.servers.setdefault(info.server_key, []).append(info.key)\n", "        self.servers.setdefault(info.server_key, []).append(info.name)\n"),
    ("R-M3", "mutation", "C03", R, "            if old_service_info is None:\n                continue\n", "            if old_service_info is None:\n                break\n"),
    ("R-M4", "mutation", "C03", R, "self._remove_from_index(self.types, old_service_info.type.lower(), info.key)", "self._remove_from_index(self.types, info.type.lower(), info.key)"),
    ("R-M5", "mutation", "C03", R, "        self.has_entries = bool(self._services)\n", "        self.has_entries = True\n"),
    ("R-M6", "mutation", "C03", R, "        self._remove([info])\n        self._add(info)\n", "        self._add(info)\n        self._remove([info])\n"),
    ("R-M7", "mutation", "C03", R, "        return [self._services[name] for name in record_list]", "        return [self._services[name] for name in reversed(record_list)]"),
    ("R-R1", "rewrite", "C03", R, ("old_service_info", "old"), None),
    ("R-R2", "rewrite", "C03", R, "        return [self._services[name] for name in record_list]",
     "        out: List[ServiceInfo] = []\n        for name in record_list:\n            out.append(self._services[name])\n        return out"),
    ("R-R3", "rewrite", "C03", R,
     "            if old_service_info is None:\n                continue\n            assert old_service_info.server_key is not None\n            self._remove_from_index(self.types, old_service_info.type.lower(), info.key)\n            self._remove_from_index(self.servers, old_service_info.server_key, info.key)\n            del self._services[info.key]\n",
     "            if old_service_info is not None:\n                assert old_service_info.server_key is not None\n                self._remove_from_index(self.types, old_service_info.type.lower(), info.key)\n                self._remove_from_index(self.servers, old_service_info.server_key, info.key)\n                del self._services[info.key]\n"),
    ("R-R4", "rewrite", "C03", R, "        if info.key in self._services:\n            raise ServiceNameAlreadyRegistered\n", "        if self._services.get(info.key) is not None:\n            raise ServiceNameAlreadyRegistered\n"),
    # ---- _cache.py / C05
    ("C-M1", "mutation", "C05", C, "        store.pop(record, None)\n        store[record] = record\n        if isinstance", "        store[record] = record\n        if isinstance"),
    ("C-M2", "mutation", "C05", C, "    del cache[key][record]\n    if not cache[key]:\n        del cache[key]\n", "    del cache[key][record]\n"),
    ("C-M3", "mutation", "C05", C, "        new = record not in store and not isinstance(record, DNSNsec)\n", "        new = record not in store\n"),
    ("C-M4", "mutation", "C05", C, "for record in records if record.is_expired(now)]", "for record in records if record.is_stale(now)]"),
    ("C-M5", "mutation", "C05", C, "        _remove_key(self.cache, record.key, record)\n", "        _remove_key(self.cache, record.name, record)\n"),
    ("C-M6", "mutation", "C05", C, "        for cached_entry in reversed(list(records)):\n            if type_ == cached_entry.type", "        for cached_entry in list(records):\n            if type_ == cached_entry.type"),
    ("C-M7", "mutation", "C05", C, "            if self._async_add(entry):\n                new = True\n", "            if self._async_add(entry):\n                new = True\n                break\n"),
    ("C-M8", "mutation", "C05", C, "            return self.cache.get(entry.key, {}).get(entry)", "            return self.cache.get(entry.name, {}).get(entry)"),
    ("C-R1", "rewrite", "C05", C, ("store", "bucket"), None),
    ("C-R2", "rewrite", "C05", C,
     "        for record in records:\n            if type_ == record.type and class_ == record.class_:\n                matches.append(record)\n        return matches\n",
     "        return [record for record in records if type_ == record.type and class_ == record.class_]\n"),
    ("C-R3", "rewrite", "C05", C, "        if store is None:\n            return None\n        return store.get(entry)\n", "        if store is not None:\n            return store.get(entry)\n        return None\n"),
    ("C-R4", "rewrite", "C05", C, "        return [entry for entry in list(records) if type_ == entry.type and class_ == entry.class_]", "        return [entry for entry in records if type_ == entry.type and class_ == entry.class_]"),
    ("C-R5", "rewrite", "C05", C, "    del cache[key][record]\n    if not cache[key]:\n        del cache[key]\n", "    store = cache[key]\n    del store[record]\n    if not store:\n        del cache[key]\n"),
    # ---- _dns.py / C13, C20
    ("D-M1", "mutation", "C13", D, "        return self.created + (_EXPIRE_STALE_TIME_MS * self.ttl) <= now", "        return self.created + (_EXPIRE_STALE_TIME_MS * self.ttl) < now"),
    ("D-M2", "mutation", "C13", D, "        return 0 if remain < 0 else remain", "        return remain"),
    ("D-M3", "mutation", "C20", D, "        return self == other and other.ttl > (self.ttl / 2)", "        return self == other and other.ttl >= (self.ttl / 2)"),
    ("D-M4", "mutation", "C20", D, "            if self._suppressed_by_answer(record):\n                return True\n        return False", "            if self._suppressed_by_answer(record):\n                return True\n            return False\n        return False"),
    ("D-R1", "rewrite", "C13", D, ("remain", "left"), None),
    ("D-R2", "rewrite", "C20", D, "        for record in answers:\n            if self._suppressed_by_answer(record):\n                return True\n        return False",
     "        found = False\n        for record in answers:\n            if self._suppressed_by_answer(record):\n                found = True\n                break\n        return found"),
    ("D-R3", "rewrite", "C13", D, "        return self.created + (_EXPIRE_FULL_TIME_MS * self.ttl) <= now", "        return now >= self.created + (_EXPIRE_FULL_TIME_MS * self.ttl)"),
    # ---- _handlers/multicast_outgoing_queue.py / C12
    ("Q-M1", "mutation", "C12", Q, "            if send_after <= last_group.send_after:", "            if send_after < last_group.send_after:"),
    ("Q-M2", "mutation", "C12", Q, "        random_delay = random_int + self._additional_delay\n", "        random_delay = random_int\n"),
    ("Q-M3", "mutation", "C12", Q, "        while len(self.queue) and self.queue[0].send_after <= now:", "        while len(self.queue) and self.queue[0].send_after < now:"),
    ("Q-M4", "mutation", "C12", Q, "            for record in answers:\n                pending.answers.pop(record, None)\n", "            for record in answers:\n                pending.answers.pop(record, None)\n                break\n"),
    ("Q-M5", "mutation", "C12", Q, "        if len(self.queue) > 1 and self.queue[0].send_before > now:", "        if len(self.queue) >= 1 and self.queue[0].send_before > now:"),
    # ---- _services/browser.py (QueryScheduler) / C10
    ("S-M1", "mutation", "C10", B, "        if next_when_millis < self._next_run_millis:\n            self._next_run.cancel()",
     "        if next_when_millis <= self._next_run_millis:\n            self._next_run.cancel()"),
    ("S-M2", "mutation", "C10", B, "        if next_query_time >= query.expire_time_millis:", "        if next_query_time > query.expire_time_millis:"),
    ("S-M3", "mutation", "C10", B, "        if scheduled:\n            scheduled.cancelled = True\n", "        if scheduled:\n            pass\n"),
    ("S-M4", "mutation", "C10", B, "            if query.when_millis > end_time_millis:\n                next_scheduled = query\n                break",
     "            if query.when_millis >= end_time_millis:\n                next_scheduled = query\n                break"),
    ("S-M5", "mutation", "C10", B, "    def __lt__(self, other: '_ScheduledPTRQuery') -> bool:\n        \"\"\"Compare two scheduled queries.\"\"\"\n        if type(other) is _ScheduledPTRQuery:\n            return self.when_millis < other.when_millis",
     "    def __lt__(self, other: '_ScheduledPTRQuery') -> bool:\n        \"\"\"Compare two scheduled queries.\"\"\"\n        if type(other) is _ScheduledPTRQuery:\n            return self.when_millis <= other.when_millis"),
    ("S-R1", "rewrite", "C10", B, ("additional_wait", "extra_wait"), None),
    ("S-R2", "rewrite", "C10", B, "        scheduled = self._next_scheduled_for_alias.pop(pointer.alias_key, None)\n        if scheduled:\n",
     "        scheduled = self._next_scheduled_for_alias.pop(pointer.alias_key, None)\n        if scheduled is not None:\n"),
    # ---- _handlers/query_handler.py (_QueryResponse) / C11
    ("P-M1", "mutation", "C11", P, "            if not self._has_mcast_within_one_quarter_ttl(record):\n                self._mcast_now.add(record)",
     "            if self._has_mcast_within_one_quarter_ttl(record):\n                self._mcast_now.add(record)"),
    ("P-M2", "mutation", "C11", P, "_RESPOND_IMMEDIATE_TYPES = {_TYPE_NSEC, _TYPE_SRV, *_ADDRESS_RECORD_TYPES}", "_RESPOND_IMMEDIATE_TYPES = {_TYPE_NSEC, *_ADDRESS_RECORD_TYPES}"),
    ("P-M3", "mutation", "C11", P, "                self._mcast_aggregate_last_second.add(answer)\n                continue", "                self._mcast_aggregate.add(answer)\n                continue"),
    ("P-M4", "mutation", "C11", P, "        mcast_now = {r: self._additionals[r] for r in self._mcast_now}", "        mcast_now = {r: self._additionals[r] for r in self._mcast_aggregate}"),
    ("P-M5", "mutation", "C11", P, "self._now - maybe_entry.created < _ONE_SECOND)", "self._now - maybe_entry.created <= _ONE_SECOND)"),
    ("P-M6", "mutation", "C11", P, "        self._additionals.update(answers)\n        self._ucast.update(answers)\n", "        self._ucast.update(answers)\n"),
    ("P-R1", "rewrite", "C11", P, ("additionals", "extra_records"), None),
    ("P-R2", "rewrite", "C11", P, "            if len(self._questions) == 1:\n                question = self._questions[0]\n                if question.type in _RESPOND_IMMEDIATE_TYPES:",
     "            if len(self._questions) == 1:\n                first_question = self._questions[0]\n                if first_question.type in _RESPOND_IMMEDIATE_TYPES:"),
    # ---- _listener.py (AsyncListener deferral) / C16
    ("L-M1", "mutation", "C16", LS, "            if incoming.data == msg.data:\n                return", "            if incoming.data != msg.data:\n                return"),
    ("L-M2", "mutation", "C16", LS, "        assert loop is not None\n        self._cancel_any_timers_for_addr(addr)\n", "        assert loop is not None\n"),
    ("L-M3", "mutation", "C16", LS, "        packets = self._deferred.pop(addr, [])", "        packets = self._deferred.get(addr, [])"),
    ("L-M4", "mutation", "C16", LS, "        if not msg.truncated:\n            self._respond_query(", "        if msg.truncated:\n            self._respond_query("),
    ("L-M5", "mutation", "C16", LS, "_TC_DELAY_RANDOM_INTERVAL = (400, 500)", "_TC_DELAY_RANDOM_INTERVAL = (400, 600)"),
    ("L-R1", "rewrite", "C16", LS, ("deferred", "pending"), None),
    ("L-R2", "rewrite", "C16", LS, "        if msg:\n            packets.append(msg)", "        if msg is not None:\n            packets.append(msg)"),
    ("Q-R1", "rewrite", "C12", Q, ("random_delay", "delay_ms"), None),
    ("Q-R2", "rewrite", "C12", Q, "        if len(self.queue):\n            # If we calculate", "        if self.queue:\n            # If we calculate"),
    ("Q-R3", "rewrite", "C12", Q, "            answers.update(self.queue.popleft().answers)\n", "            group = self.queue.popleft()\n            answers.update(group.answers)\n"),
    ("R-R5", "rewrite", "C03", R, "        names = index[key]\n        names.remove(name)\n        if not names:\n            del index[key]\n",
     "        index[key].remove(name)\n        if len(index[key]) == 0:\n            del index[key]\n"),
]


def apply(case, dst):
    name, kind, prop, rel, old, new = case
    p = dst / "src" / "zeroconf" / rel
    s = p.read_text()
    if new is None:
        a, b = old  # rename an identifier
        s2 = re.sub(r"\b%s\b" % re.escape(a), b, s)
    else:
        if s.count(old) != 1:
            raise SystemExit("%s: the text to replace occurs %d times" % (name, s.count(old)))
        s2 = s.replace(old, new)
    if s2 == s:
        raise SystemExit("%s: no change" % name)
    p.write_text(s2)


def main():
    want = sys.argv[1:]
    rows = []
    for case in CASES:
        name, kind, prop = case[0], case[1], case[2]
        if want and not any(name.startswith(w) for w in want):
            continue
        dst = SCRATCH / name
        shutil.rmtree(dst, ignore_errors=True)
        (dst).mkdir(parents=True)
        shutil.copytree("/repo/src", dst / "src", ignore=shutil.ignore_patterns("__pycache__", "*.so", "*.c"))
        apply(case, dst)
        env = dict(os.environ, VERIF_REPO=str(dst))
        p = subprocess.run([str(ROOT / "check"), prop, "quick"], stdout=subprocess.PIPE, stderr=subprocess.STDOUT, env=env, cwd=ROOT)
        out = p.stdout.decode(errors="replace")
        keep = [l for l in out.split("\n") if l.startswith(("[T]", "[P]", "[C]", "[O]", "VIOLATION")) or " exit " in l]
        summary = []
        for l in keep:
            if l.startswith("[T]") and not l.startswith("[T] ok"):
                summary.append("T: " + l[4:200])
            if l.startswith("[P] BROKEN"):
                summary.append("P: " + l[12:260])
            if l.startswith("[C]") and ", 0 disagreements" not in l:
                summary.append("C: " + l[4:])
            if l.startswith("VIOLATION"):
                summary.append(l[:160])
        rows.append((name, kind, prop, p.returncode, " | ".join(summary) or "quiet"))
        print("%-6s %-8s %s exit %d  %s" % rows[-1], flush=True)
        shutil.rmtree(dst, ignore_errors=True)
    # leave the generated files as /repo's
    subprocess.run([str(ROOT / "check"), "setup"], stdout=subprocess.PIPE, stderr=subprocess.STDOUT, cwd=ROOT)
    shutil.rmtree(SCRATCH, ignore_errors=True)


if __name__ == "__main__":
    main()
