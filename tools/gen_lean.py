#!/usr/bin/env python3
"""gen_lean.py -- translate constants, leaf logic and identity field lists of
/repo/src/zeroconf into Lean 4 (lean/Zc/Gen/*.lean).

The translator only *parses* the working tree (python `ast`); it never imports or
executes it.  It fails closed: anything outside its subset, or a function whose
shape no longer matches the registered pattern, is a translation failure
(exit status 3, message "translation broke at <file>:<line>: ...").

Usage: gen_lean.py [--repo /repo] [--out lean/Zc/Gen] [--selftest-out FILE]
"""
from __future__ import annotations

import argparse
import ast
import json
import os
import pathlib
import sys

HERE = pathlib.Path(__file__).resolve().parent
ROOT = HERE.parent


class Fail(Exception):
    def __init__(self, msg, node=None, file=None):
        self.msg, self.node, self.file = msg, node, file
        super().__init__(msg)


# --------------------------------------------------------------------------------------
# constants


def const_eval(e, env):
    """Evaluate a module-level constant expression (ints, integral floats, str, tuples)."""
    if isinstance(e, ast.Constant) and isinstance(e.value, (int, float, str)) and not isinstance(e.value, bool):
        return e.value
    if isinstance(e, ast.Name) and e.id in env:
        return env[e.id]
    if isinstance(e, (ast.Tuple, ast.Set, ast.List)):
        out = []
        for x in e.elts:
            if isinstance(x, ast.Starred):
                out.extend(const_eval(x.value, env))
            else:
                out.append(const_eval(x, env))
        return tuple(out)
    if isinstance(e, ast.UnaryOp) and isinstance(e.op, ast.USub):
        return -const_eval(e.operand, env)
    if isinstance(e, ast.BinOp):
        a, b = const_eval(e.left, env), const_eval(e.right, env)
        if isinstance(a, str) or isinstance(b, str):
            raise Fail("string arithmetic", e)
        t = type(e.op)
        if t is ast.Add:
            return a + b
        if t is ast.Sub:
            return a - b
        if t is ast.Mult:
            return a * b
        if t is ast.BitOr:
            return a | b
        if t is ast.BitAnd:
            return a & b
        if t is ast.LShift:
            return a << b
        if t is ast.FloorDiv:
            return a // b
        if t is ast.Pow:
            return a**b
        if t is ast.Div:
            r = a / b
            if r != int(r):
                raise Fail("non-integral constant division", e)
            return int(r)
    if (
        isinstance(e, ast.Call)
        and isinstance(e.func, ast.Attribute)
        and e.func.attr == "compile"
        and isinstance(e.func.value, ast.Name)
        and e.func.value.id == "re"
    ):
        return ("re", re_compile_text(e))
    raise Fail("not a constant expression: " + ast.unparse(e), e)


RE_FLAG_LETTERS = {"I": "i", "IGNORECASE": "i", "M": "m", "MULTILINE": "m", "S": "s", "DOTALL": "s", "X": "x", "VERBOSE": "x",
                   "A": "a", "ASCII": "a", "U": "u", "UNICODE": "u", "L": "L", "LOCALE": "L"}


def re_flag_letters(e):
    """`re.I | re.M`, `re.IGNORECASE`, `0` -> set of inline-flag letters; anything else is a hard failure"""
    if isinstance(e, ast.Constant) and e.value == 0 and not isinstance(e.value, bool):
        return set()
    if isinstance(e, ast.Attribute) and isinstance(e.value, ast.Name) and e.value.id == "re" and e.attr in RE_FLAG_LETTERS:
        return {RE_FLAG_LETTERS[e.attr]}
    if isinstance(e, ast.BinOp) and isinstance(e.op, ast.BitOr):
        return re_flag_letters(e.left) | re_flag_letters(e.right)
    f = Fail("re.compile flags outside the translated subset: " + ast.unparse(e), e)
    f.hard = True
    raise f


def re_compile_text(e):
    """The pattern text of `re.compile(<str literal>[, flags][, flags=...])` with the flags folded in as Python's
    own inline group `(?imsx...)` in front, so that `re.compile(p, re.I)` and `re.compile('(?i)' + p)` translate to
    the same text and a model that does not implement a flag rejects the pattern.  Every argument is looked at:
    anything not understood is a *hard* translation failure (never a silently dropped constant)."""
    def hard(msg, node):
        f = Fail(msg, node)
        f.hard = True
        raise f

    if not e.args or not (isinstance(e.args[0], ast.Constant) and isinstance(e.args[0].value, str)):
        hard("re.compile: the pattern is not a string literal: " + ast.unparse(e), e)
    if len(e.args) > 2:
        hard("re.compile: unexpected positional arguments: " + ast.unparse(e), e)
    letters = set()
    if len(e.args) == 2:
        letters |= re_flag_letters(e.args[1])
    for kw in e.keywords:
        if kw.arg != "flags" or len(e.args) == 2:
            hard("re.compile: unexpected keyword argument: " + ast.unparse(e), e)
        letters |= re_flag_letters(kw.value)
    pat = e.args[0].value
    return ("(?%s)" % "".join(sorted(letters)) if letters else "") + pat


def module_consts(tree, env):
    out = dict(env)
    found = {}
    # constants are resolved by NAME (the library imports them from .const under their own names): an import that binds a constant's
    # name to something else (`from .const import X as _DUPLICATE_QUESTION_INTERVAL`) would be read wrongly -> hard failure
    for node in ast.walk(tree):
        if isinstance(node, ast.ImportFrom):
            for a in node.names:
                bound = a.asname or a.name
                if a.asname is not None and (bound in env or a.name in env) and env.get(bound, object()) != env.get(a.name, object()):
                    f = Fail("`from %s import %s as %s` re-binds a constant name: constants are resolved by name" % (node.module, a.name, a.asname), node)
                    f.hard = True
                    raise f
    for node in tree.body:
        tgt = None
        if isinstance(node, ast.Assign) and len(node.targets) == 1 and isinstance(node.targets[0], ast.Name):
            tgt, val = node.targets[0].id, node.value
        elif isinstance(node, ast.AnnAssign) and isinstance(node.target, ast.Name) and node.value is not None:
            tgt, val = node.target.id, node.value
        if tgt is None:
            continue
        try:
            v = const_eval(val, out)
        except Fail as f:
            if getattr(f, "hard", False):  # e.g. a compiled pattern whose arguments are not all understood
                raise
            continue
        out[tgt] = v
        found[tgt] = v
    return out, found


# --------------------------------------------------------------------------------------
# expression translation
#
# Every numeric expression is translated to a pair (lean, den): the value is
# lean / den with den a positive integer constant, so that python's float division
# by a constant can be carried exactly and eliminated by cross-multiplication at
# the enclosing comparison.  Booleans are translated to Lean `Bool`.


class Tr:
    def __init__(self, env, names, nat=False, file=None):
        self.env = env  # constants
        self.names = names  # python source text -> (lean name, 'num'|'bool')
        self.nat = nat
        self.file = file

    def fail(self, msg, node):
        raise Fail(msg, node, self.file)

    def lit(self, v):
        if isinstance(v, float):
            if v != int(v):
                raise Fail("non-integral float constant %r" % v)
            v = int(v)
        if v < 0:
            return "(%d)" % v
        return str(v)

    def num(self, e):
        """-> (lean expr, den)"""
        src = ast.unparse(e)
        if src in self.names:
            n, ty = self.names[src]
            if ty != "num":
                self.fail("expected number: " + src, e)
            return n, 1
        if isinstance(e, ast.Constant) and isinstance(e.value, (int, float)) and not isinstance(e.value, bool):
            return self.lit(e.value), 1
        if isinstance(e, ast.Name) and e.id in self.env and isinstance(self.env[e.id], (int, float)):
            return self.lit(self.env[e.id]), 1
        if isinstance(e, ast.Call) and isinstance(e.func, ast.Name) and e.func.id in ("int", "float", "_int", "_float") and len(e.args) == 1:
            n, d = self.num(e.args[0])
            if e.func.id in ("int", "_int") and d != 1:
                self.fail("int() of a fraction", e)
            return n, d
        if isinstance(e, ast.UnaryOp) and isinstance(e.op, ast.USub):
            n, d = self.num(e.operand)
            return "(-%s)" % n, d
        if isinstance(e, ast.BinOp):
            t = type(e.op)
            if t is ast.Div:
                n, d = self.num(e.left)
                k = self.constnum(e.right)
                if k <= 0:
                    self.fail("division by non-positive constant", e)
                return n, d * k
            a, da = self.num(e.left)
            b, db = self.num(e.right)
            if t in (ast.Add, ast.Sub):
                op = "+" if t is ast.Add else "-"
                if t is ast.Sub and self.nat:
                    self.fail("subtraction in a Nat leaf", e)
                if da == db:
                    return "(%s %s %s)" % (a, op, b), da
                return "(%s * %d %s %s * %d)" % (a, db, op, b, da), da * db
            if t is ast.Mult:
                return "(%s * %s)" % (a, b), da * db
            if da != 1 or db != 1:
                self.fail("fraction under integer operator", e)
            if t is ast.FloorDiv:
                k = self.constnum(e.right)
                if k <= 0:
                    self.fail("floor division by non-positive constant", e)
                if self.nat:
                    return "(%s / %d)" % (a, k), 1
                return "(Int.fdiv %s %d)" % (a, k), 1
            if t is ast.Mod:
                k = self.constnum(e.right)
                if k <= 0:
                    self.fail("mod by non-positive constant", e)
                if self.nat:
                    return "(%s %% %d)" % (a, k), 1
                return "(Int.fmod %s %d)" % (a, k), 1
            if t is ast.Pow:
                k = self.constnum(e.right)
                return "(%s ^ %d)" % (a, k), 1
            if self.nat:
                bop = {ast.BitAnd: "&&&", ast.BitOr: "|||", ast.RShift: ">>>", ast.LShift: "<<<"}.get(t)
                if bop:
                    return "(%s %s %s)" % (a, bop, b), 1
            self.fail("unsupported operator: " + src, e)
        if isinstance(e, ast.BoolOp) and isinstance(e.op, ast.Or):
            # python `a or b` on numbers: the first truthy operand, else the last
            parts = [self.num(v) for v in e.values]
            if any(d != 1 for _, d in parts):
                self.fail("fraction under `or`", e)
            acc = parts[-1][0]
            for n, _ in reversed(parts[:-1]):
                acc = "(if (decide (%s ≠ 0)) then %s else %s)" % (n, n, acc)
            return acc, 1
        if isinstance(e, ast.Call) and isinstance(e.func, ast.Name) and e.func.id in ("min", "max") and len(e.args) == 2 and not e.keywords:
            (a, da), (b, db) = self.num(e.args[0]), self.num(e.args[1])
            if da != 1 or db != 1:
                self.fail("fraction under min/max", e)
            return "(%s %s %s)" % (e.func.id, a, b), 1
        if isinstance(e, ast.IfExp):
            c = self.boolean(e.test)
            a, da = self.num(e.body)
            b, db = self.num(e.orelse)
            if da != db:
                a, b, da = "(%s * %d)" % (a, db), "(%s * %d)" % (b, da), da * db
            return "(if %s then %s else %s)" % (c, a, b), da
        self.fail("unsupported numeric expression: " + src, e)

    def constnum(self, e):
        try:
            v = const_eval(e, self.env)
        except Fail:
            self.fail("expected a constant: " + ast.unparse(e), e)
        if isinstance(v, float):
            if v != int(v):
                self.fail("non-integral constant", e)
            v = int(v)
        if not isinstance(v, int):
            self.fail("expected a numeric constant", e)
        return v

    def cmp(self, a, op, b):
        (x, dx), (y, dy) = a, b
        if dx != dy:
            x, y = ("(%s * %d)" % (x, dy) if dy != 1 else x), ("(%s * %d)" % (y, dx) if dx != 1 else y)
        sym = {ast.LtE: "≤", ast.Lt: "<", ast.GtE: "≥", ast.Gt: ">", ast.Eq: "=", ast.NotEq: "≠"}[type(op)]
        return "(decide (%s %s %s))" % (x, sym, y)

    def boolean(self, e):
        src = ast.unparse(e)
        if src in self.names:
            n, ty = self.names[src]
            if ty == "bool":
                return n
            # python truthiness of a number
            return "(decide (%s ≠ 0))" % n
        if isinstance(e, ast.Constant) and isinstance(e.value, bool):
            return "true" if e.value else "false"
        if isinstance(e, ast.BoolOp):
            parts = [self.boolean(v) for v in e.values]
            op = " && " if isinstance(e.op, ast.And) else " || "
            return "(" + op.join(parts) + ")"
        if isinstance(e, ast.UnaryOp) and isinstance(e.op, ast.Not):
            return "(!%s)" % self.boolean(e.operand)
        if isinstance(e, ast.Compare) and len(e.ops) == 1 and isinstance(e.ops[0], ast.NotIn):
            # `x not in y` where the registered parameter is the source text `x in y`
            pos = ast.unparse(ast.Compare(left=e.left, ops=[ast.In()], comparators=e.comparators))
            if pos in self.names and self.names[pos][1] == "bool":
                return "(!%s)" % self.names[pos][0]
        if isinstance(e, ast.Compare):
            items = [e.left] + list(e.comparators)
            parts = []
            for i, op in enumerate(e.ops):
                l, r = items[i], items[i + 1]
                if isinstance(op, (ast.In, ast.NotIn)):
                    if isinstance(r, (ast.Tuple, ast.Set, ast.List)):
                        elts = r.elts
                    elif isinstance(r, ast.Name) and isinstance(self.env.get(r.id), tuple):
                        elts = [ast.Constant(v) for v in self.env[r.id]]
                    else:
                        self.fail("`in` against a non-literal", e)
                    ln = self.num(l)
                    alts = [self.cmp(ln, ast.Eq(), self.num(x)) for x in elts]
                    s = "(" + " || ".join(alts) + ")" if alts else "false"
                    parts.append(s if isinstance(op, ast.In) else "(!%s)" % s)
                elif isinstance(op, (ast.Is, ast.IsNot)):
                    lsrc = ast.unparse(l) + " is None"
                    if not (isinstance(r, ast.Constant) and r.value is None) or lsrc not in self.names:
                        if isinstance(r, ast.Constant) and isinstance(r.value, bool):
                            b = self.boolean(l)
                            want = r.value if isinstance(op, ast.Is) else not r.value
                            parts.append(b if want else "(!%s)" % b)
                            continue
                        self.fail("unsupported identity test: " + src, e)
                    n = self.names[lsrc][0]
                    parts.append(n if isinstance(op, ast.Is) else "(!%s)" % n)
                else:
                    # equality between booleans?
                    try:
                        parts.append(self.cmp(self.num(l), op, self.num(r)))
                    except Fail:
                        if isinstance(op, (ast.Eq, ast.NotEq)):
                            a, b = self.boolean(l), self.boolean(r)
                            parts.append("(%s %s %s)" % (a, "==" if isinstance(op, ast.Eq) else "!=", b))
                        else:
                            raise
            return parts[0] if len(parts) == 1 else "(" + " && ".join(parts) + ")"
        if isinstance(e, ast.IfExp):
            return "(if %s then %s else %s)" % (self.boolean(e.test), self.boolean(e.body), self.boolean(e.orelse))
        if isinstance(e, ast.Call) and isinstance(e.func, ast.Name) and e.func.id == "bool" and len(e.args) == 1:
            return self.boolean(e.args[0])
        if isinstance(e, ast.BinOp):
            # python truthiness of a numeric expression (`if byte & mask:`)
            n, _d = self.num(e)
            return "(decide (%s ≠ 0))" % n
        self.fail("unsupported boolean expression: " + src, e)


# --------------------------------------------------------------------------------------
# locating code


def find_def(tree, qual):
    parts = qual.split(".")
    body = tree.body
    node = None
    for p in parts:
        node = None
        # "name@setter": the definition of that name decorated with `@<...>.setter` (a property's setter shares its getter's name)
        p, _, deco = p.partition("@")
        hits = []
        for n in body:
            if isinstance(n, (ast.ClassDef, ast.FunctionDef, ast.AsyncFunctionDef)) and n.name == p:
                if deco and not any(ast.unparse(d).split(".")[-1] == deco for d in getattr(n, "decorator_list", [])):
                    continue
                hits.append(n)
        if hits:
            node = hits[0]
            # Python binds the LAST definition of a name; a second plain definition silently replaces the one translated here.
            # (A property's `@x.setter` / `@x.deleter` definitions share the getter's name: those are looked up with "name@setter".)
            plain = [h for h in hits if deco or not any(ast.unparse(d).split(".")[-1] in ("setter", "deleter", "getter") for d in getattr(h, "decorator_list", []))]
            if len(plain) > 1:
                f = Fail("%s is defined %d times (lines %s): Python uses the last definition" % (qual, len(plain), ", ".join(str(h.lineno) for h in plain)), plain[-1])
                f.hard = True
                raise f
        if node is None:
            raise Fail("definition %s not found" % qual)
        body = node.body
    return node


def strip_doc(body):
    return [s for s in body if not (isinstance(s, ast.Expr) and isinstance(s.value, ast.Constant) and isinstance(s.value.value, str))]


def single_return(fn):
    body = strip_doc(fn.body)
    if len(body) == 1 and isinstance(body[0], ast.Return) and body[0].value is not None:
        return body[0].value
    raise Fail("%s is no longer a single `return <expr>`" % fn.name, fn)


def inline_straightline(fn):
    """assignments `x = e` followed by `return e`: returns the return expr with
    earlier assignments substituted (each variable assigned once)."""
    body = strip_doc(fn.body)
    subst = {}

    class Sub(ast.NodeTransformer):
        def visit_Name(self, n):
            if n.id in subst and isinstance(n.ctx, ast.Load):
                return subst[n.id]
            return n

    for s in body[:-1]:
        if isinstance(s, ast.Assign) and len(s.targets) == 1 and isinstance(s.targets[0], ast.Name):
            if s.targets[0].id in subst:
                raise Fail("%s: variable assigned twice" % fn.name, s)
            subst[s.targets[0].id] = Sub().visit(ast.parse(ast.unparse(s.value), mode="eval").body)
        else:
            raise Fail("%s: not straight-line code" % fn.name, s)
    if not isinstance(body[-1], ast.Return) or body[-1].value is None:
        raise Fail("%s: does not end in `return <expr>`" % fn.name, fn)
    return Sub().visit(ast.parse(ast.unparse(body[-1].value), mode="eval").body)


def find_ifs(fn):
    return [n for n in ast.walk(fn) if isinstance(n, ast.If)]


def if_test_mentioning(fn, *needles, nth=0):
    """test expression of the nth `if`/`while`/ifexp in fn whose source mentions all needles"""
    hits = []
    for n in ast.walk(fn):
        if isinstance(n, (ast.If, ast.While, ast.IfExp)):
            src = ast.unparse(n.test)
            if all(x in src for x in needles):
                hits.append(n.test)
    if len(hits) <= nth:
        raise Fail("%s: no test mentioning %s" % (fn.name, needles), fn)
    return hits[nth]


def assign_value(fn, target, nth=0):
    hits = []
    for n in ast.walk(fn):
        if isinstance(n, ast.Assign) and len(n.targets) == 1 and ast.unparse(n.targets[0]) == target:
            hits.append(n.value)
        if isinstance(n, ast.AnnAssign) and ast.unparse(n.target) == target and n.value is not None:
            hits.append(n.value)
    if len(hits) <= nth:
        raise Fail("%s: no assignment to %s" % (fn.name, target), fn)
    return hits[nth]


def call_arg(fn, callee_suffix, argidx, nth=0):
    hits = []
    for n in ast.walk(fn):
        if isinstance(n, ast.Call) and ast.unparse(n.func).endswith(callee_suffix):
            hits.append(n)
    if len(hits) <= nth:
        raise Fail("%s: no call to %s" % (fn.name, callee_suffix), fn)
    c = hits[nth]
    if len(c.args) <= argidx:
        raise Fail("%s: call to %s has too few arguments" % (fn.name, callee_suffix), c)
    return c.args[argidx]


# --------------------------------------------------------------------------------------
# the registry of leaves
#
# (lean module, lean name, source file, qualified def, locator, params, result type, options)
#   locator: ("ret",) | ("inline",) | ("if", needles..., nth) | ("assign", target, nth) | ("arg", callee, idx, nth)
#   params:  list of (python source text, lean name, 'num'|'bool')

P = lambda src, name, ty="num": (src, name, ty)


def load_leaves():
    """leaf specs live in tools/leaves/*.py, one file per area, each defining LEAVES"""
    import importlib.util

    out = []
    for f in sorted((HERE / "leaves").glob("*.py")):
        spec = importlib.util.spec_from_file_location("leaves_" + f.stem, f)
        m = importlib.util.module_from_spec(spec)
        spec.loader.exec_module(m)
        out.extend(m.LEAVES)
    return out


# identity field lists (C20): class -> extracted tuple
IDENT_CLASSES = ["DNSQuestion", "DNSAddress", "DNSHinfo", "DNSPointer", "DNSText", "DNSService", "DNSNsec"]


def locate(fn, loc):
    kind = loc[0]
    if kind == "ret":
        return single_return(fn)
    if kind == "inline":
        return inline_straightline(fn)
    if kind == "last_ret":
        body = strip_doc(fn.body)
        if not isinstance(body[-1], ast.Return) or body[-1].value is None:
            raise Fail("%s: does not end in return" % fn.name, fn)
        return body[-1].value
    if kind == "ret_conj":
        e = single_return(fn)
        if not (isinstance(e, ast.BoolOp) and isinstance(e.op, ast.And)):
            raise Fail("%s: return is not a conjunction" % fn.name, e)
        hits = [v for v in e.values if loc[1] in ast.unparse(v)]
        if len(hits) != 1:
            raise Fail("%s: expected exactly one conjunct mentioning %s" % (fn.name, loc[1]), e)
        return hits[0]
    if kind == "if":
        return if_test_mentioning(fn, *loc[1:-1], nth=loc[-1])
    if kind == "assign":
        return assign_value(fn, loc[1], loc[2])
    if kind == "arg":
        return call_arg(fn, loc[1], loc[2], loc[3])
    if kind == "has_call":
        # ("has_call", callee suffix): does the function contain, outside any nested function, a call whose callee text ends
        # with the suffix?  -> a boolean constant (e.g. "the close path cancels the timer")
        # ("has_call", callee suffix, min_count): ... at least min_count such calls (e.g. "both queues are purged")
        hits = [n for n in ast.walk(fn) if isinstance(n, ast.Call) and ast.unparse(n.func).endswith(loc[1])]
        return ast.copy_location(ast.Constant(value=len(hits) >= (loc[2] if len(loc) > 2 else 1)), fn)
    if kind == "body_empty":
        # ("body_empty",): the function does nothing (docstring / `pass` / `return` only)  -> a boolean constant
        body = [x for x in strip_doc(fn.body) if not isinstance(x, ast.Pass) and not (isinstance(x, ast.Return) and x.value is None)]
        return ast.copy_location(ast.Constant(value=not body), fn)
    if kind == "call_has_arg":
        # ("call_has_arg", callee suffix, argument source, nth): is `argument` among the positional arguments of the nth
        # call to `callee` in the function?  -> a boolean constant.  Fails closed when there is no such call.
        hits = [n for n in ast.walk(fn) if isinstance(n, ast.Call) and ast.unparse(n.func).endswith(loc[1])]
        hits.sort(key=lambda n: (n.lineno, n.col_offset))
        if len(hits) <= loc[3]:
            raise Fail("%s: no call to %s" % (fn.name, loc[1]), fn)
        c = hits[loc[3]]
        return ast.copy_location(ast.Constant(value=any(ast.unparse(a) == loc[2] for a in c.args)), c)
    if kind == "compif":
        # first `if` condition of the nth list/set/dict comprehension or generator in the function
        comps = [n for n in ast.walk(fn) if isinstance(n, (ast.ListComp, ast.SetComp, ast.DictComp, ast.GeneratorExp))]
        comps = [c for c in comps if c.generators and c.generators[0].ifs]
        if len(comps) <= loc[1]:
            raise Fail("%s: no filtered comprehension #%d" % (fn.name, loc[1]), fn)
        return comps[loc[1]].generators[0].ifs[0]
    if kind == "augassign":
        hits = [n.value for n in ast.walk(fn) if isinstance(n, ast.AugAssign) and loc[1] in ast.unparse(n.target)]
        if len(hits) <= loc[2]:
            raise Fail("%s: no augmented assignment to %s" % (fn.name, loc[1]), fn)
        return hits[loc[2]]
    if kind == "if_exact":
        hits = [n.test for n in ast.walk(fn) if isinstance(n, (ast.If, ast.While, ast.IfExp)) and ast.unparse(n.test) == loc[1]]
        if len(hits) != 1:
            raise Fail("%s: expected exactly one test `%s`, found %d" % (fn.name, loc[1], len(hits)), fn)
        return hits[0]
    if kind == "aug":
        # value of the nth (source order) `target += value`
        hits = sorted((n for n in ast.walk(fn) if isinstance(n, ast.AugAssign) and isinstance(n.op, ast.Add) and ast.unparse(n.target) == loc[1]),
                      key=lambda n: (n.lineno, n.col_offset))
        if len(hits) <= loc[2]:
            raise Fail("%s: no augmented assignment #%d to %s" % (fn.name, loc[2], loc[1]), fn)
        return hits[loc[2]].value
    if kind == "for_range":
        # the single argument of the nth (source order) `for … in range(<expr>)`
        hits = sorted((n for n in ast.walk(fn) if isinstance(n, ast.For) and isinstance(n.iter, ast.Call) and ast.unparse(n.iter.func) == "range"
                       and len(n.iter.args) == 1 and not n.iter.keywords), key=lambda n: (n.lineno, n.col_offset))
        if len(hits) <= loc[1]:
            raise Fail("%s: no `for … in range(<expr>)` loop #%d" % (fn.name, loc[1]), fn)
        return hits[loc[1]].iter.args[0]
    if kind == "for_iter":
        # ("for_iter", nth): the iterable of the nth (source order) `for` loop of the function (for shape pins)
        hits = sorted((n for n in ast.walk(fn) if isinstance(n, ast.For)), key=lambda n: (n.lineno, n.col_offset))
        if len(hits) <= loc[1]:
            raise Fail("%s: no `for` loop #%d" % (fn.name, loc[1]), fn)
        return hits[loc[1]].iter
    if kind == "fresh_dict":
        # pin: `target` is assigned a fresh empty dict literal (per-object state, not shared between objects)
        v = assign_value(fn, loc[1], 0)
        if not (isinstance(v, ast.Dict) and not v.keys):
            raise Fail("%s: %s is no longer assigned a fresh `{}` (it is `%s`): per-object state may be shared" % (fn.name, loc[1], ast.unparse(v)), v)
        n_assign = sum(1 for n in ast.walk(fn) if isinstance(n, (ast.Assign, ast.AnnAssign)) and
                       any(ast.unparse(t) == loc[1] for t in (n.targets if isinstance(n, ast.Assign) else [n.target])))
        if n_assign != 1:
            raise Fail("%s: %s is assigned %d times" % (fn.name, loc[1], n_assign), fn)
        return ast.copy_location(ast.Constant(True), v)
    if kind == "slice_upper":
        # upper bound of the nth (source order) slice `base[lo:hi]`
        hits = sorted((n for n in ast.walk(fn) if isinstance(n, ast.Subscript) and isinstance(n.slice, ast.Slice) and ast.unparse(n.value) == loc[1]
                       and n.slice.upper is not None and n.slice.step is None), key=lambda n: (n.lineno, n.col_offset))
        if len(hits) <= loc[2]:
            raise Fail("%s: no slice #%d of %s" % (fn.name, loc[2], loc[1]), fn)
        return hits[loc[2]].slice.upper
    if kind == "augassign_expr":
        # ("augassign_expr", target, nth): `target op= value` as the expression `target op value`
        hits = [n for n in ast.walk(fn) if isinstance(n, ast.AugAssign) and ast.unparse(n.target) == loc[1]]
        if len(hits) <= loc[2]:
            raise Fail("%s: no augmented assignment to %s" % (fn.name, loc[1]), fn)
        n = hits[loc[2]]
        return ast.copy_location(ast.BinOp(left=n.target, op=n.op, right=n.value), n)
    if kind == "has_call":
        # ("has_call", callee_suffix, min_count): does the function call `...callee_suffix(...)` at least min_count times?
        hits = [n for n in ast.walk(fn) if isinstance(n, ast.Call) and ast.unparse(n.func).endswith(loc[1])]
        return ast.copy_location(ast.Constant(len(hits) >= loc[2]), fn)
    if kind == "arg_is_list":
        # ("arg_is_list", callee_suffix, idx, nth): is positional argument idx of the nth call to `callee` a *materialised list* -- a list
        # display, a list comprehension, `list(...)`, or a name assigned exactly once in the function to one of these?  -> a boolean
        # constant (a generator expression handed to several consumers is exhausted by the first one).  Fails closed without such a call.
        def is_list(e, depth=0):
            if isinstance(e, (ast.List, ast.ListComp)):
                return True
            if isinstance(e, ast.Call) and ast.unparse(e.func) == "list":
                return True
            if isinstance(e, ast.Name) and depth == 0:
                defs = [n for n in ast.walk(fn) if isinstance(n, ast.Assign) and any(isinstance(t, ast.Name) and t.id == e.id for t in n.targets)]
                return len(defs) == 1 and is_list(defs[0].value, 1)
            return False
        return ast.copy_location(ast.Constant(value=bool(is_list(call_arg(fn, loc[1], loc[2], loc[3])))), fn)
    if kind == "call_before":
        # ("call_before", callee_a_suffix, callee_b_suffix): both calls occur and the first `a` precedes the first `b` in the source
        def first(suffix):
            hits = [n for n in ast.walk(fn) if isinstance(n, ast.Call) and ast.unparse(n.func).endswith(suffix)]
            return min(((n.lineno, n.col_offset) for n in hits), default=None)
        a, b = first(loc[1]), first(loc[2])
        return ast.copy_location(ast.Constant(a is not None and b is not None and a < b), fn)
    if kind == "except_catches":
        # ("except_catches", name): does some `except` clause of the function name this exception class?
        hits = []
        for n in ast.walk(fn):
            if isinstance(n, ast.Try):
                for h in n.handlers:
                    if h.type is not None:
                        names = [ast.unparse(x) for x in (h.type.elts if isinstance(h.type, ast.Tuple) else [h.type])]
                        if loc[1] in names:
                            hits.append(h)
        return ast.copy_location(ast.Constant(len(hits) >= 1), fn)
    if kind == "has_stmt":
        # ("has_stmt", statement source): does the function contain (anywhere, nested blocks included, nested functions
        # excluded) a statement whose `ast.unparse` text is exactly this?  -> a boolean constant (e.g. `self._loop_thread = None`)
        want = ast.unparse(ast.parse(loc[1]).body[0])
        inner = {id(x) for n in ast.walk(fn) if n is not fn and isinstance(n, (ast.FunctionDef, ast.AsyncFunctionDef, ast.Lambda)) for x in ast.walk(n)}
        hit = any(isinstance(n, ast.stmt) and id(n) not in inner and ast.unparse(n) == want for n in ast.walk(fn))
        return ast.copy_location(ast.Constant(value=bool(hit)), fn)
    if kind == "has_identity_test":
        # ("has_identity_test",): does the function compare objects with `is` / `is not` (other than against None)?
        hits = [n for n in ast.walk(fn) if isinstance(n, ast.Compare) and any(isinstance(o, (ast.Is, ast.IsNot)) for o in n.ops)
                and not all(isinstance(c, ast.Constant) and c.value is None for c in n.comparators)]
        return ast.copy_location(ast.Constant(len(hits) >= 1), fn)
    if kind == "for_iter_of":
        # ("for_iter_of", loop variable, nth): the iterable of the nth (source order) `for <loop variable> in <expr>`
        hits = sorted((n for n in ast.walk(fn) if isinstance(n, ast.For) and ast.unparse(n.target) == loc[1]), key=lambda n: (n.lineno, n.col_offset))
        if len(hits) <= loc[2]:
            raise Fail("%s: no `for %s in …` loop #%d" % (fn.name, loc[1], loc[2]), fn)
        return hits[loc[2]].iter
    if kind == "census":
        # ("census",): a *statement census* of the whole function -- how many statements of each kind it contains and the
        # source text of every assignment target, in source order.  A shape pin (rty "src") on it makes an ADDED statement
        # (a new `if … raise`, a `break`, a second assignment, a rebinding) visible, which per-statement pins cannot.
        kinds = {}
        targets = []
        for n in ast.walk(fn):
            if isinstance(n, ast.stmt) and n is not fn and not (isinstance(n, ast.Expr) and isinstance(n.value, ast.Constant)):
                k = type(n).__name__
                kinds[k] = kinds.get(k, 0) + 1
            if isinstance(n, (ast.Assign, ast.AugAssign, ast.AnnAssign)):
                for t in (n.targets if isinstance(n, ast.Assign) else [n.target]):
                    targets.append(((n.lineno, n.col_offset), ast.unparse(t) + ("+" if isinstance(n, ast.AugAssign) else "")))
        text = " ".join("%s:%d" % kv for kv in sorted(kinds.items())) + " | " + " ".join(t for _, t in sorted(targets))
        return ast.copy_location(ast.Constant(text), fn)
    if kind == "range_arg":
        # ("range_arg", nth): the single argument of the nth `for ... in range(<expr>)`
        hits = [n for n in ast.walk(fn) if isinstance(n, ast.For) and isinstance(n.iter, ast.Call)
                and ast.unparse(n.iter.func) == "range" and len(n.iter.args) == 1]
        if len(hits) <= loc[1]:
            raise Fail("%s: no `for ... in range(x)` loop" % fn.name, fn)
        return hits[loc[1]].iter.args[0]
    if kind == "call_nargs":
        # ("call_nargs", callee suffix, nth): how many arguments (positional and keyword) the nth call to `callee` in the function
        # passes -> a numeric constant (e.g. "`async_send(out)` is called with the packet alone": no address, i.e. multicast)
        hits = [n for n in ast.walk(fn) if isinstance(n, ast.Call) and ast.unparse(n.func).endswith(loc[1])]
        hits.sort(key=lambda n: (n.lineno, n.col_offset))
        if len(hits) <= loc[2]:
            raise Fail("%s: no call to %s" % (fn.name, loc[1]), fn)
        c = hits[loc[2]]
        if any(isinstance(a, ast.Starred) for a in c.args) or any(k.arg is None for k in c.keywords):
            raise Fail("%s: call to %s unpacks arguments" % (fn.name, loc[1]), c)
        return ast.copy_location(ast.Constant(len(c.args) + len(c.keywords)), c)
    if kind == "param_default_is_none":
        # ("param_default_is_none", parameter): is the default value of the parameter the constant `None`? -> a boolean constant
        a = fn.args
        pos = a.posonlyargs + a.args
        defaults = dict(zip([x.arg for x in pos[len(pos) - len(a.defaults):]], a.defaults))
        defaults.update({x.arg: d for x, d in zip(a.kwonlyargs, a.kw_defaults) if d is not None})
        if loc[1] not in [x.arg for x in pos + a.kwonlyargs]:
            raise Fail("%s: no parameter %s" % (fn.name, loc[1]), fn)
        d = defaults.get(loc[1])
        return ast.copy_location(ast.Constant(d is not None and isinstance(d, ast.Constant) and d.value is None), fn)
    if kind == "call":
        # ("call", callee suffix, nth): the nth (source order) call whose callee text ends with the suffix, as a whole
        # expression -- for shape pins of call sites ("which arguments, in which order")
        hits = sorted((n for n in ast.walk(fn) if isinstance(n, ast.Call) and ast.unparse(n.func).endswith(loc[1])),
                      key=lambda n: (n.lineno, n.col_offset))
        if len(hits) <= loc[2]:
            raise Fail("%s: no call #%d to %s" % (fn.name, loc[2], loc[1]), fn)
        return hits[loc[2]]
    if kind == "ifexp_test":
        # ("ifexp_test", target, nth): the test of the conditional expression `a if <test> else b` assigned to `target`
        v = assign_value(fn, loc[1], loc[2])
        if not isinstance(v, ast.IfExp):
            raise Fail("%s: %s is no longer assigned a conditional expression (it is `%s`)" % (fn.name, loc[1], ast.unparse(v)), v)
        return v.test
    if kind == "if_assigning":
        # ("if_assigning", target, nth): the test of the nth (source order) `if` statement whose body assigns `target` --
        # "the guard under which X is set", whatever the guard mentions
        def assigns(n):
            for st in n.body:
                for x in ast.walk(st):
                    if isinstance(x, ast.Assign) and any(ast.unparse(t) == loc[1] for t in x.targets):
                        return True
                    if isinstance(x, ast.AnnAssign) and ast.unparse(x.target) == loc[1] and x.value is not None:
                        return True
            return False
        hits = sorted((n for n in ast.walk(fn) if isinstance(n, ast.If) and assigns(n)), key=lambda n: (n.lineno, n.col_offset))
        if len(hits) <= loc[2]:
            raise Fail("%s: no `if` statement #%d assigning %s" % (fn.name, loc[2], loc[1]), fn)
        return hits[loc[2]].test
    if kind == "signature":
        # ("signature",): the parameter list with annotations and defaults, for shape pins of default arguments
        return fn.args
    if kind == "for_iter":
        # ("for_iter", nth): the iterable of the nth (source order) `for` statement
        hits = sorted((n for n in ast.walk(fn) if isinstance(n, ast.For)), key=lambda n: (n.lineno, n.col_offset))
        if len(hits) <= loc[1]:
            raise Fail("%s: no `for` loop #%d" % (fn.name, loc[1]), fn)
        return hits[loc[1]].iter
    if kind == "arg_elt":
        # ("arg_elt", callee suffix, argidx, nth, eltidx): one element of a tuple/list literal passed as an argument
        # (nth call in source order), e.g. the port in `sendto(packet, (real_addr, port or _MDNS_PORT, *v6_flow_scope))`
        hits = sorted((n for n in ast.walk(fn) if isinstance(n, ast.Call) and ast.unparse(n.func).endswith(loc[1])),
                      key=lambda n: (n.lineno, n.col_offset))
        if len(hits) <= loc[3]:
            raise Fail("%s: no call #%d to %s" % (fn.name, loc[3], loc[1]), fn)
        c = hits[loc[3]]
        if len(c.args) <= loc[2] or not isinstance(c.args[loc[2]], (ast.Tuple, ast.List)) or len(c.args[loc[2]].elts) <= loc[4]:
            raise Fail("%s: argument %d of %s is not a literal with %d elements" % (fn.name, loc[2], loc[1], loc[4] + 1), c)
        return c.args[loc[2]].elts[loc[4]]
    raise Fail("bad locator %r" % (loc,))


# --------------------------------------------------------------------------------------
# identity field lists


def _attr_list(e):
    """tuple expr -> list of field tags.  `self.key` -> key ; bare ctor args -> name ; `*self.rdtypes` -> rdtypes*"""
    out = []
    for x in e.elts:
        if isinstance(x, ast.Starred):
            out.append(_field_name(x.value) + "*")
        else:
            out.append(_field_name(x))
    return out


def _field_name(x):
    if isinstance(x, ast.Attribute) and isinstance(x.value, ast.Name) and x.value.id in ("self", "other"):
        return x.attr
    if isinstance(x, ast.Name):
        return x.id
    raise Fail("unsupported identity field expression: " + ast.unparse(x), x)


def ctor_shape_check(tree, cls):
    """Fail closed on anything in `cls.__init__` (and `DNSEntry._set_class`) that the identity model does not read.

    The model takes every identity attribute from the *one* assignment `self.x = <expr>` that `assign_value` finds.  That is
    only sound if there is no second assignment to the attribute, if no constructor argument is rebound before it is stored
    or hashed (`port = port & 0xFFFF`), if the base constructor receives the arguments unchanged, and if nothing else runs
    in the constructor (an `if`, a loop, a call that could store attributes).  So the body must consist of exactly:
    `super().__init__(<parameters, unchanged>)`, `self._set_class(class_)`, and `self.<attr> = <expr>` with each attribute
    assigned once.  Classes may not define hooks that change attribute access or inequality."""
    cdef = find_def(tree, cls)
    for n in cdef.body:
        if isinstance(n, (ast.FunctionDef, ast.AsyncFunctionDef)) and n.name in (
                "__ne__", "__setattr__", "__getattr__", "__getattribute__", "__new__", "__init_subclass__", "__set_name__", "__delattr__"):
            raise Fail("%s defines %s: attribute access / inequality is no longer the default the identity model assumes" % (cls, n.name), n)
    # outside the constructor (setters, mutators) only TTL, creation time and the flush/QU flag may be written: `__hash__` is
    # cached at construction, so a later write to an identity attribute (`self.class_ |= _CLASS_UNIQUE` in the `unicast` setter)
    # changes `__eq__` under a stale hash
    mutable = {"ttl", "created", "unique"}
    for m in cdef.body:
        if not isinstance(m, (ast.FunctionDef, ast.AsyncFunctionDef)) or m.name in ("__init__",) or (cls == "DNSEntry" and m.name == "_set_class"):
            continue
        for n in ast.walk(m):
            tgts = []
            if isinstance(n, ast.Assign):
                tgts = n.targets
            elif isinstance(n, (ast.AugAssign, ast.AnnAssign)):
                tgts = [n.target]
            elif isinstance(n, ast.Delete):
                tgts = n.targets
            for t in tgts:
                for x in ast.walk(t):
                    if isinstance(x, ast.Attribute) and ast.unparse(x.value) == "self" and isinstance(x.ctx, (ast.Store, ast.Del)) and x.attr not in mutable:
                        raise Fail("%s.%s writes self.%s after construction: `%s` (identity attributes and the cached hash are fixed by the constructor)"
                                   % (cls, m.name, x.attr, ast.unparse(n).split("\n")[0]), n)
            if isinstance(n, ast.Call) and ast.unparse(n.func) in ("setattr", "object.__setattr__", "delattr", "object.__delattr__") \
                    and n.args and ast.unparse(n.args[0]) == "self":
                raise Fail("%s.%s sets an attribute of self dynamically: `%s`" % (cls, m.name, ast.unparse(n)), n)
            if isinstance(n, ast.Call) and ast.unparse(n.func) == "self._set_class":
                raise Fail("%s.%s calls self._set_class after construction" % (cls, m.name), n)
    fns = [cls + ".__init__"] + ([cls + "._set_class"] if cls == "DNSEntry" else [])
    for q in fns:
        fn = find_def(tree, q)
        a = fn.args
        params = [x.arg for x in a.posonlyargs + a.args + a.kwonlyargs] + ([a.vararg.arg] if a.vararg else []) + ([a.kwarg.arg] if a.kwarg else [])
        seen = set()
        for st in strip_doc(fn.body):
            # no parameter (and no other local) may be bound anywhere in the constructor
            for n in ast.walk(st):
                if isinstance(n, ast.Name) and isinstance(n.ctx, (ast.Store, ast.Del)):
                    raise Fail("%s: %s `%s` is (re)bound in the constructor before it is stored/hashed: `%s`"
                               % (q, "constructor argument" if n.id in params else "local variable", n.id, ast.unparse(st)), st)
            if isinstance(st, ast.Expr) and isinstance(st.value, ast.Call):
                c = st.value
                f = ast.unparse(c.func)
                if f == "super().__init__" and q.endswith(".__init__"):
                    bad = [ast.unparse(x) for x in c.args if not (isinstance(x, ast.Name) and x.id in params)] + \
                          [k.arg or "**" for k in c.keywords if not (isinstance(k.value, ast.Name) and k.value.id == k.arg and k.arg in params)]
                    if bad:
                        raise Fail("%s: the base constructor no longer receives the arguments unchanged: %s" % (q, ", ".join(bad)), st)
                    continue
                if f == "self._set_class" and len(c.args) == 1 and not c.keywords and ast.unparse(c.args[0]) == "class_":
                    continue
                raise Fail("%s: statement `%s` is not one the identity model understands" % (q, ast.unparse(st)), st)
            tgt = None
            if isinstance(st, ast.Assign) and len(st.targets) == 1:
                tgt = st.targets[0]
            elif isinstance(st, ast.AnnAssign) and st.value is not None:
                tgt = st.target
            if tgt is not None and isinstance(tgt, ast.Attribute) and ast.unparse(tgt.value) == "self":
                if tgt.attr in seen:
                    raise Fail("%s: self.%s is assigned a second time: `%s` (the model reads the first assignment only)" % (q, tgt.attr, ast.unparse(st)), st)
                seen.add(tgt.attr)
                continue
            raise Fail("%s: statement `%s` is not one the identity model understands (only super().__init__(...), "
                       "self._set_class(class_) and single assignments self.<attr> = <expr>)" % (q, ast.unparse(st).split("\n")[0]), st)


def ident_info(tree, cls):
    c = find_def(tree, cls)
    init = find_def(tree, cls + ".__init__")
    # hash tuple
    hval = assign_value(init, "self._hash")
    if not (isinstance(hval, ast.Call) and ast.unparse(hval.func) == "hash" and len(hval.args) == 1 and isinstance(hval.args[0], ast.Tuple)):
        raise Fail("%s: self._hash is not hash((...))" % cls, hval)
    hfields = _attr_list(hval.args[0])
    # map ctor-arg names to attributes assigned in __init__ / base
    argmap = {"type_": "type", "class_": "class_"}
    derived = {}
    for n in ast.walk(init):
        if isinstance(n, ast.Assign) and len(n.targets) == 1 and isinstance(n.targets[0], ast.Attribute) and ast.unparse(n.targets[0].value) == "self":
            attr = n.targets[0].attr
            v = n.value
            if isinstance(v, ast.Name):
                argmap.setdefault(v.id, attr)
                derived[attr] = ("id", v.id)
            elif isinstance(v, ast.Call) and isinstance(v.func, ast.Attribute) and v.func.attr == "lower" and not v.args:
                derived[attr] = ("lower", ast.unparse(v.func.value))
            elif isinstance(v, ast.Call) and isinstance(v.func, ast.Name) and v.func.id == "sorted" and len(v.args) == 1:
                derived[attr] = ("sorted", ast.unparse(v.args[0]))
                argmap.setdefault(ast.unparse(v.args[0]), attr)
    # a bare constructor argument in the hash tuple stands for an attribute only if this __init__ assigns it unchanged
    # (`self.x = arg`, or `self.x = sorted(arg)` for the starred one) - fail closed on a normalising assignment such as
    # `self.scope_id = scope_id or None`, which would make __hash__ and _eq read different values under one field name
    raw_names = {x.id for x in hval.args[0].elts if isinstance(x, ast.Name)} | \
                {x.value.id for x in hval.args[0].elts if isinstance(x, ast.Starred) and isinstance(x.value, ast.Name)}
    base_args = {"type_": "type"}
    binit = find_def(tree, "DNSEntry.__init__")
    for a, attr in base_args.items():
        if ast.unparse(assign_value(binit, "self." + attr)) != a:
            raise Fail("DNSEntry.__init__: self.%s is no longer assigned %s unchanged" % (attr, a), binit)
    for nm in sorted(raw_names):
        if nm in base_args:
            continue
        if nm not in argmap or derived.get(argmap[nm], (None,))[0] not in ("id", "sorted") or \
                derived[argmap[nm]][1] != nm:
            raise Fail("%s: hash tuple uses constructor argument %s which is not stored unchanged as an attribute" % (cls, nm), hval)
    hfields = [argmap.get(f, f) if not f.endswith("*") else argmap.get(f[:-1], f[:-1]) + "*" for f in hfields]
    # __hash__ returns self._hash
    hfn = find_def(tree, cls + ".__hash__")
    if ast.unparse(single_return(hfn)) != "self._hash":
        raise Fail("%s.__hash__ no longer returns self._hash" % cls, hfn)
    # __eq__: isinstance(other, <cls>) and self._eq(other) | self._dns_entry_matches(other)
    eqfn = find_def(tree, cls + ".__eq__")
    eq = single_return(eqfn)
    if not (isinstance(eq, ast.BoolOp) and isinstance(eq.op, ast.And) and len(eq.values) == 2):
        raise Fail("%s.__eq__ is not `isinstance(...) and ...`" % cls, eq)
    guard, rest = eq.values
    if ast.unparse(guard) != "isinstance(other, %s)" % cls:
        raise Fail("%s.__eq__ guard is %s" % (cls, ast.unparse(guard)), guard)
    rsrc = ast.unparse(rest)
    if rsrc == "self._eq(other)":
        conj = single_return(find_def(tree, cls + "._eq"))
    elif rsrc == "self._dns_entry_matches(other)":
        conj = rest
    else:
        raise Fail("%s.__eq__ tail is %s" % (cls, rsrc), rest)
    efields = eq_fields(tree, conj)
    return {"hash": hfields, "eq": efields, "derived": derived}


def eq_fields(tree, conj):
    vals = conj.values if isinstance(conj, ast.BoolOp) and isinstance(conj.op, ast.And) else [conj]
    out = []
    for v in vals:
        if isinstance(v, ast.Compare) and len(v.ops) == 1 and isinstance(v.ops[0], ast.Eq):
            a, b = v.left, v.comparators[0]
            if not (isinstance(a, ast.Attribute) and isinstance(b, ast.Attribute) and a.attr == b.attr
                    and ast.unparse(a.value) == "self" and ast.unparse(b.value) == "other"):
                raise Fail("identity conjunct is not self.x == other.x: " + ast.unparse(v), v)
            out.append(a.attr)
        elif ast.unparse(v) == "self._dns_entry_matches(other)":
            m = single_return(find_def(tree, "DNSEntry._dns_entry_matches"))
            out.extend(eq_fields(tree, m))
        else:
            raise Fail("unsupported identity conjunct: " + ast.unparse(v), v)
    return out


# --------------------------------------------------------------------------------------
# output

CONST_FILES = [
    ("const.py", None),
    ("_dns.py", ["_EXPIRE_FULL_TIME_MS", "_EXPIRE_STALE_TIME_MS", "_RECENT_TIME_MS", "_LEN_BYTE", "_LEN_SHORT", "_LEN_INT",
                 "_BASE_MAX_SIZE", "_NAME_COMPRESSION_MIN_SIZE"]),
    ("_core.py", ["_AGGREGATION_DELAY", "_PROTECTED_AGGREGATION_DELAY", "_REGISTER_BROADCASTS"]),
    ("_handlers/answers.py", ["MULTICAST_DELAY_RANDOM_INTERVAL", "_FLAGS_QR_RESPONSE_AA"]),
    ("_listener.py", ["_TC_DELAY_RANDOM_INTERVAL"]),
    ("_services/browser.py", ["_FIRST_QUERY_DELAY_RANDOM_INTERVAL", "STARTUP_QUERIES", "RESCUE_RECORD_RETRY_TTL_PERCENTAGE", "_QU_QUESTION_IS_NONE"]),
    ("_protocol/incoming.py", ["MAX_DNS_LABELS", "MAX_NAME_LENGTH", "DNS_COMPRESSION_HEADER_LEN", "DNS_COMPRESSION_POINTER_LEN", "MAX_LABEL_LENGTH"]),
    ("_protocol/outgoing.py", ["MAX_MSG_SIZE_DELTA"]),
    ("_services/info.py", ["_AVOID_SYNC_DELAY_RANDOM_INTERVAL"]),
    ("_handlers/query_handler.py", ["_RESPOND_IMMEDIATE_TYPES"]),
    ("_utils/name.py", []),
    ("_history.py", []),
    ("_cache.py", []),
    ("_handlers/record_manager.py", []),
    ("_handlers/multicast_outgoing_queue.py", []),
    ("_services/registry.py", []),
]


def lean_ident(pyname):
    n = pyname.strip("_")
    parts = n.lower().split("_")
    return parts[0] + "".join(p.capitalize() for p in parts[1:])


def lean_str(s):
    out = []
    for ch in s:
        o = ord(ch)
        if ch == "\\":
            out.append("\\\\")
        elif ch == '"':
            out.append('\\"')
        elif ch == "\n":
            out.append("\\n")
        elif ch == "\t":
            out.append("\\t")
        elif 32 <= o < 127:
            out.append(ch)
        else:
            out.append("\\u{%x}" % o)
    return '"' + "".join(out) + '"'


def gen(repo, outdir, selftest_out=None, failures=None):
    """`failures`: when a dict is passed, a leaf that cannot be located/translated no longer aborts the whole translation:
    the failure is recorded under its Gen module (`failures[mod] = "file:line: message"`), that module's file is put back
    to the committed (validated) version, and every other module is generated as usual.  Only the properties whose proofs
    import a failed module then have a broken tie (the caller decides); constants and identity field lists stay global."""
    src = pathlib.Path(repo) / "src" / "zeroconf"
    trees = {}

    def tree(rel):
        if rel not in trees:
            p = src / rel
            try:
                trees[rel] = ast.parse(p.read_text())
            except (OSError, SyntaxError) as ex:
                raise Fail("cannot parse: %s" % ex, file=rel)
            # a function that equals its validated baseline up to a bijective renaming of local variables is read with
            # the baseline's spelling (tools/alpha.py): locators are keyed on source text, the meaning is unchanged
            try:
                import alpha

                alpha.normalise(trees[rel], rel)
            except ImportError:
                pass
        return trees[rel]

    # ---- constants
    env = {}
    per_file = {}
    try:
        cenv, _found = module_consts(tree("const.py"), {})
    except Fail as f:
        f.file = f.file or "const.py"
        raise
    for rel, wanted in CONST_FILES:
        try:
            fenv, found = module_consts(tree(rel), cenv)
        except Fail as f:
            f.file = f.file or rel
            raise
        per_file[rel] = (fenv, found)
        if rel == "const.py":
            wanted = [k for k in found if k.startswith("_") and k not in ("_MDNS_ADDR", "_MDNS_ADDR6", "_IPPROTO_IPV6", "_CLASSES", "_TYPES")]
        for k in wanted:
            if k not in found:
                if k in ("MAX_LABEL_LENGTH", "MAX_MSG_SIZE_DELTA", "_QU_QUESTION_IS_NONE"):
                    continue  # optional
                raise Fail("constant %s no longer defined in %s" % (k, rel), file=rel)
            env[k] = found[k]
    lines = ["/- GENERATED by tools/gen_lean.py from /repo/src/zeroconf -- do not edit -/", "namespace Zc.Gen", ""]
    for k, v in env.items():
        name = lean_ident(k)
        if isinstance(v, bool):
            continue
        if isinstance(v, float):
            if v != int(v):
                # the only non-integral constant: a percentage expressed as a fraction
                num = round(v * 1000)
                if abs(num / 1000 - v) > 1e-12:
                    raise Fail("constant %s = %r is not a multiple of 1/1000" % (k, v))
                lines.append("/-- `%s = %r`, as thousandths -/" % (k, v))
                lines.append("def %sPerMille : Nat := %d" % (name, num))
                continue
            v = int(v)
        if isinstance(v, int):
            if v < 0:
                raise Fail("negative constant %s" % k)
            lines.append("def %s : Nat := %d" % (name, v))
        elif isinstance(v, str):
            lines.append("def %s : String := %s" % (name, lean_str(v)))
        elif isinstance(v, tuple) and len(v) == 2 and v[0] == "re":
            lines.append("def %sPattern : String := %s" % (name, lean_str(v[1])))
        elif isinstance(v, tuple) and all(isinstance(x, int) for x in v):
            if k == "_ADDRESS_RECORD_TYPES" or k == "_RESPOND_IMMEDIATE_TYPES":
                v = tuple(sorted(v))
            lines.append("def %s : List Nat := [%s]" % (name, ", ".join(str(x) for x in v)))
        else:
            raise Fail("constant %s has unsupported value %r" % (k, v))
    # DECODE_EXCEPTIONS as list of names
    inc = tree("_protocol/incoming.py")
    de = None
    for n in inc.body:
        if isinstance(n, ast.Assign) and ast.unparse(n.targets[0]) == "DECODE_EXCEPTIONS":
            de = [ast.unparse(x) for x in n.value.elts]
    if de is None:
        raise Fail("DECODE_EXCEPTIONS not found", file="_protocol/incoming.py")
    lines.append("def decodeExceptions : List String := [%s]" % ", ".join(lean_str(x) for x in de))
    lines += ["", "end Zc.Gen", ""]
    files = {"Const.lean": "\n".join(lines)}

    # ---- leaves
    by_mod = {}
    selftests = []
    for mod, lname, rel, qual, loc, params, rty, opts in load_leaves():
      try:
        t = tree(rel)
        fenv = per_file.get(rel, (cenv, {}))[0] if rel in per_file else module_consts(t, cenv)[0]
        try:
            fn = find_def(t, qual)
            try:
                e = locate(fn, loc)
            except Fail:
                if rty == "src":
                    # a shape pin never breaks the translation (that would hit every property): the statement is
                    # simply recorded as not found, and the one GenFacts lemma that states its text fails
                    by_mod.setdefault(mod, []).append(
                        "/-- `%s` (%s): shape pin %r NOT FOUND in the working tree -/\ndef %s : String :=\n  \"<not found>\"\n"
                        % (qual, rel, loc[1:], lname))
                    continue
                # opts["absent"]: the test may legitimately not exist in the tree (a check that a pending
                # `fix:` adds); the leaf then is the given constant -- "the check never fires" -- and
                # the GenFacts lemma about it fails, so the property's proof stage still reports it.
                if "absent" not in opts:
                    raise
                if isinstance(opts["absent"], bool):
                    # the located test does not exist in this tree: the code behaves as `absent` says
                    e = ast.copy_location(ast.Constant(opts["absent"]), fn)
                else:
                    if rty != "bool":
                        raise
                    nty = "Nat" if opts.get("nat") else "Int"
                    sig = " ".join("(%s : %s)" % (("_" + p[1]), nty if p[2] == "num" else "Bool") for p in params)
                    by_mod.setdefault(mod, []).append(
                        "/-- `%s` (%s): no test matching %r in the working tree -/\ndef %s %s : Bool :=\n  %s\n"
                        % (qual, rel, loc[1:-1], lname, sig, opts["absent"]))
                    continue
            if rty == "src":
                # a *shape pin*: the located expression as source text (ast.unparse), for statements whose meaning is
                # hand-modelled; the property's GenFacts states the expected text, so an edit breaks that proof only
                by_mod.setdefault(mod, []).append(
                    "/-- `%s` (%s:%d), source text of the located expression -/\ndef %s : String :=\n  %s\n"
                    % (qual, rel, getattr(e, "lineno", fn.lineno), lname,
                       lean_str(e.value if loc[0] == "census" and isinstance(e, ast.Constant) else ast.unparse(e))))
                continue
            tr = Tr(fenv, {p[0]: (p[1], p[2]) for p in params}, nat=opts.get("nat", False), file=rel)
            if rty == "bool":
                body = tr.boolean(e)
            else:
                n, d = tr.num(e)
                if d != 1:
                    if not opts.get("floor"):
                        raise Fail("%s: fractional result without a rounding rule" % lname, e)
                    if opts.get("nat"):
                        body = "(%s / %d)" % (n, d)
                    else:
                        body = "(Int.fdiv %s %d)" % (n, d)
                else:
                    body = n
        except Fail as f:
            if opts.get("optional") and rty == "bool" and "no test mentioning" in f.msg:
                # an optional test that this tree does not contain never fires
                nty = "Nat" if opts.get("nat") else "Int"
                sig = " ".join("(_%s : %s)" % (p[1], nty if p[2] == "num" else "Bool") for p in params)
                by_mod.setdefault(mod, []).append(
                    "/-- `%s` (%s): optional test, ABSENT from this tree -/\ndef %s %s : Bool :=\n  false\n" % (qual, rel, lname, sig))
                continue
            if f.file is None:
                f.file = rel
            raise
        nty = "Nat" if opts.get("nat") else "Int"
        sig = " ".join("(%s : %s)" % (p[1], nty if p[2] == "num" else "Bool") for p in params)
        rt = "Bool" if rty == "bool" else nty
        by_mod.setdefault(mod, []).append(
            "/-- `%s` (%s:%d): `%s` -/\ndef %s %s : %s :=\n  %s\n"
            % (qual, rel, getattr(e, "lineno", fn.lineno), ast.unparse(e).replace("-/", "- /"), lname, sig, rt, body)
        )
        selftests.append({"mod": mod, "lean": lname, "file": rel, "qual": qual, "expr": ast.unparse(e),
                          "params": [list(p) for p in params], "rty": rty, "opts": opts})
      except Fail as f:
        if failures is None:
            raise
        if f.file is None:
            f.file = rel
        failures.setdefault(mod, "%s:%s: %s" % (f.file, getattr(f.node, "lineno", "?") if f.node is not None else "?", f.msg))
    for mod in list(failures or {}):
        by_mod.pop(mod, None)
        selftests[:] = [x for x in selftests if x["mod"] != mod]
    for mod, defs in by_mod.items():
        files[mod + ".lean"] = (
            "/- GENERATED by tools/gen_lean.py from /repo/src/zeroconf -- do not edit -/\nimport Zc.Gen.Const\nnamespace Zc.Gen.%s\nopen Zc.Gen\n\n" % mod
            + "\n".join(defs)
            + "\nend Zc.Gen.%s\n" % mod
        )

    # ---- identity field lists
    dns = tree("_dns.py")
    lines = ["/- GENERATED by tools/gen_lean.py from /repo/src/zeroconf/_dns.py -- do not edit -/", "namespace Zc.Gen.Ident", "",
             "/-- identity-relevant attributes of the DNS entry classes -/",
             "inductive Field where",
             "  | key | type | class_ | address | scope_id | cpu | os | alias_key | text | priority | weight | port | server_key | next_name | rdtypes",
             "  | name | ttl | created | unique | alias | server",
             "  deriving DecidableEq, Repr", ""]
    known = {"key", "type", "class_", "address", "scope_id", "cpu", "os", "alias_key", "text", "priority", "weight", "port",
             "server_key", "next_name", "rdtypes", "name", "ttl", "created", "unique", "alias", "server"}
    try:
        # attributes each class has (the model's `Rec.field` answers `.none` for any other, which would compare equal)
        base_f = {"key", "name", "type", "class_", "unique"}
        rec_f = base_f | {"ttl", "created"}
        allowed = {"DNSQuestion": base_f, "DNSAddress": rec_f | {"address", "scope_id"}, "DNSHinfo": rec_f | {"cpu", "os"},
                   "DNSPointer": rec_f | {"alias", "alias_key"}, "DNSText": rec_f | {"text"},
                   "DNSService": rec_f | {"priority", "weight", "port", "server", "server_key"},
                   "DNSNsec": rec_f | {"next_name", "rdtypes"}}
        for cls in ["DNSEntry", "DNSRecord"] + IDENT_CLASSES:
            ctor_shape_check(dns, cls)
        for cls in IDENT_CLASSES:
            info = ident_info(dns, cls)
            for lst in (info["hash"], info["eq"]):
                for f in lst:
                    if f.rstrip("*") not in known:
                        raise Fail("%s: unknown identity field %s" % (cls, f))
                    if cls in allowed and f.rstrip("*") not in allowed[cls]:
                        raise Fail("%s: identity field %s is not an attribute of this class" % (cls, f))
            # "records of different kinds are never equal" rests on the isinstance guard: no record class may derive
            # from another record class
            cdef = find_def(dns, cls)
            bases = [ast.unparse(b) for b in cdef.bases]
            if cls != "DNSQuestion" and bases != ["DNSRecord"]:
                raise Fail("%s derives from %s, not directly from DNSRecord" % (cls, bases), cdef)
            lines.append("def %sHash : List Field := [%s]" % (cls[3:].lower(), ", ".join("." + f.rstrip("*") for f in info["hash"])))
            lines.append("def %sEq : List Field := [%s]" % (cls[3:].lower(), ", ".join("." + f for f in info["eq"])))
        # derivations: key = name.lower(), alias_key = alias.lower(), server_key = server.lower(), rdtypes = sorted(rdtypes)
        want = {("DNSEntry", "key"): ("lower", "name"), ("DNSPointer", "alias_key"): ("lower", "alias"),
                ("DNSService", "server_key"): ("lower", "server"), ("DNSNsec", "rdtypes"): ("sorted", "rdtypes")}
        for (cls, attr), exp in want.items():
            init = find_def(dns, cls + ".__init__")
            v = assign_value(init, "self." + attr)
            ok = False
            if exp[0] == "lower":
                ok = ast.unparse(v) == "%s.lower()" % exp[1]
            else:
                ok = ast.unparse(v) == "sorted(%s)" % exp[1]
            if not ok:
                raise Fail("%s.%s is no longer %s(%s): %s" % (cls, attr, exp[0], exp[1], ast.unparse(v)), v)
        lines.append("/-- derivations checked by the translator: key = lower name, alias_key = lower alias, server_key = lower server, rdtypes = sorted rdtypes -/")
        lines.append("def derivationsChecked : Bool := true")
        # the base-class record __eq__ must not be a usable equality
        # DNSEntry.__eq__ guard
        # known-answer suppression on the DNSOutgoing.add_answer path compares by identity (`self == other`) first
        sba = single_return(find_def(dns, "DNSRecord._suppressed_by_answer"))
        if not (isinstance(sba, ast.BoolOp) and isinstance(sba.op, ast.And) and len(sba.values) == 2
                and ast.unparse(sba.values[0]) == "self == other"):
            raise Fail("DNSRecord._suppressed_by_answer is no longer `self == other and <ttl test>`: " + ast.unparse(sba), sba)
        eeq = single_return(find_def(dns, "DNSEntry.__eq__"))
        if ast.unparse(eeq) != "isinstance(other, DNSEntry) and self._dns_entry_matches(other)":
            raise Fail("DNSEntry.__eq__ changed: " + ast.unparse(eeq), eeq)
    except Fail as f:
        if f.file is None:
            f.file = "_dns.py"
        raise
    lines += ["", "end Zc.Gen.Ident", ""]
    files["Ident.lean"] = "\n".join(lines)

    # ---- write
    outdir = pathlib.Path(outdir)
    outdir.mkdir(parents=True, exist_ok=True)
    changed = []
    for name, text in files.items():
        p = outdir / name
        if text is None:
            continue
        if not p.exists() or p.read_text() != text:
            p.write_text(text)
            changed.append(name)
    for mod in (failures or {}):
        # a module with a leaf that no longer translates keeps its committed (validated) text
        import subprocess

        r = subprocess.run(["git", "show", "HEAD:lean/Zc/Gen/%s.lean" % mod], cwd=str(ROOT), stdout=subprocess.PIPE, stderr=subprocess.DEVNULL)
        if r.returncode == 0:
            files[mod + ".lean"] = None
            q = outdir / (mod + ".lean")
            if not q.exists() or q.read_bytes() != r.stdout:
                q.write_bytes(r.stdout)
                changed.append(mod + ".lean(committed)")
    for p in outdir.glob("*.lean"):
        if p.name not in files:
            p.unlink()
            changed.append("-" + p.name)
    if selftest_out:
        pathlib.Path(selftest_out).write_text(json.dumps({"leaves": selftests, "consts": {k: v for k, v in env.items() if isinstance(v, (int, float))}}, indent=1))
    return changed, env, selftests


def main():
    ap = argparse.ArgumentParser()
    ap.add_argument("--repo", default="/repo")
    ap.add_argument("--out", default=str(ROOT / "lean" / "Zc" / "Gen"))
    ap.add_argument("--selftest-out", default=str(ROOT / "lean" / ".gen_selftest.json"))
    a = ap.parse_args()
    try:
        changed, env, st = gen(a.repo, a.out, a.selftest_out)
    except Fail as f:
        line = getattr(f.node, "lineno", "?") if f.node is not None else "?"
        print("translation broke at %s:%s: %s" % (f.file or "?", line, f.msg))
        sys.exit(3)
    print("gen_lean: %d constants, %d leaves; changed: %s" % (len(env), len(st), ", ".join(changed) or "nothing"))


if __name__ == "__main__":
    main()
