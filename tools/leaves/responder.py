"""leaf registry: _handlers/query_handler.py, _services/info.py (C03; see tools/gen_lean.py for the format)"""
P = lambda src, name, ty="num": (src, name, ty)

QH = "_handlers/query_handler.py"
GAS = "QueryHandler._get_answer_strategies"
T = [P("type_", "type_")]
NAT = {"nat": True}

LEAVES = [
    # ---- which index lookups a question triggers (query_handler.py:352-398)
    # type_ == _TYPE_PTR and question_lower_name == _SERVICE_TYPE_ENUMERATION_NAME
    ("Responder", "q_is_enum", QH, GAS, ("if", "_SERVICE_TYPE_ENUMERATION_NAME", 0),
     T + [P("question_lower_name == _SERVICE_TYPE_ENUMERATION_NAME", "name_is_enum", "bool")], "bool", NAT),
    ("Responder", "q_wants_pointer", QH, GAS, ("if", "_TYPE_PTR", "_TYPE_ANY", 0), T, "bool", NAT),
    ("Responder", "q_wants_address", QH, GAS, ("if", "_TYPE_AAAA", 0), T, "bool", NAT),
    ("Responder", "q_wants_instance", QH, GAS, ("if", "_TYPE_SRV", "_TYPE_TXT", 0), T, "bool", NAT),
    ("Responder", "q_wants_service", QH, GAS, ("if", "_TYPE_SRV", 1), T, "bool", NAT),
    ("Responder", "q_wants_text", QH, GAS, ("if", "_TYPE_TXT", 1), T, "bool", NAT),
    # ---- _add_address_answers: `dns_address.type != type_` sends an address to the additionals
    ("Responder", "addr_is_other_type", QH, "QueryHandler._add_address_answers", ("if", "dns_address.type", 0),
     [P("dns_address.type", "rtype"), P("type_", "type_")], "bool", NAT),
    # ---- ServiceInfo._dns_addresses: `_TYPE_AAAA if ip_addr.version == 6 else _TYPE_A`
    ("Responder", "addr_type_of_version", "_services/info.py", "ServiceInfo._dns_addresses", ("arg", "DNSAddress", 1, 0),
     [P("ip_addr.version", "version")], "num", NAT),
    # ---- async_response, the D25 repair (`optional`: the test is absent from a tree without the repair and then never fires):
    # `if msg.scope_id is not None:` builds a second DNSRRSet of the known answers without the receiving socket's scope id ...
    ("Responder", "own_known_unscoped", QH, "QueryHandler.async_response", ("if", "msg.scope_id", 0),
     [P("msg.scope_id is not None", "has_scope", "bool")], "bool", {"nat": True, "optional": True}),
    # ... and `_answer_question` is handed that one (a boolean constant: is `own_known_answers` an argument of the call?)
    ("Responder", "own_known_passed", QH, "QueryHandler.async_response", ("call_has_arg", "_answer_question", "own_known_answers", 0),
     [], "bool", NAT),
]
