"""leaf registry: the route of what a host sends on its own initiative (C07's bridge: announcements, goodbyes, the close sequence
and the outgoing queues' batches go to the multicast group) -- see tools/gen_lean.py for the format.

`Zeroconf.async_send(out, addr=None, ...)`: a call that passes the packet alone has no address; `async_send_with_transport` sends a
datagram without address to the mDNS group."""
P = lambda src, name, ty="num": (src, name, ty)

LEAVES = [
    # _async_broadcast_service: `self.async_send(self.generate_service_broadcast(info, ttl, broadcast_addresses))`
    ("Link", "broadcast_send_nargs", "_core.py", "Zeroconf._async_broadcast_service", ("call_nargs", "self.async_send", 0),
     [], "num", {"nat": True}),
    # async_unregister_all_services: `self.async_send(out)`
    ("Link", "unregister_all_send_nargs", "_core.py", "Zeroconf.async_unregister_all_services", ("call_nargs", "self.async_send", 0),
     [], "num", {"nat": True}),
    # MulticastOutgoingQueue.async_ready: `zc.async_send(construct_outgoing_multicast_answers(answers))`
    ("Link", "queue_ready_send_nargs", "_handlers/multicast_outgoing_queue.py", "MulticastOutgoingQueue.async_ready",
     ("call_nargs", "zc.async_send", 0), [], "num", {"nat": True}),
    # async_send(self, out, addr=None, ...)
    ("Link", "send_addr_default_none", "_core.py", "Zeroconf.async_send", ("param_default_is_none", "addr"), [], "bool", {}),
    # async_send_with_transport: `if addr is None: real_addr = _MDNS_ADDR6 if ipv6_socket else _MDNS_ADDR`
    ("Link", "send_to_group", "_core.py", "async_send_with_transport", ("if", "addr is None", 0),
     [P("addr is None", "addr_is_none", "bool")], "bool", {}),
]
