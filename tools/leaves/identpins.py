"""leaf registry: shape pins for the hand-modelled loops of C20 (`Rec.suppressedBy`, `replyAdditionals` in
lean/Zc/Model/Dns.lean).  rty "src": the source text of the located statement; lean/Zc/GenFacts/IdentPins.lean states the
expected texts, so an edit (e.g. `for record in answers[:1]`) breaks C20's proof stage only."""

LEAVES = [
    ("IdentPins", "src_suppressed_by_answers", "_dns.py", "DNSRecord.suppressed_by", ("assign", "answers", 0), [], "src", {}),
    ("IdentPins", "src_suppressed_by_iter", "_dns.py", "DNSRecord.suppressed_by", ("for_iter_of", "record", 0), [], "src", {}),
    ("IdentPins", "src_suppressed_by_test", "_dns.py", "DNSRecord.suppressed_by", ("if", "_suppressed_by_answer", 0), [], "src", {}),
    ("IdentPins", "src_suppressed_by_census", "_dns.py", "DNSRecord.suppressed_by", ("census",), [], "src", {}),
    ("IdentPins", "src_reply_sending", "_handlers/answers.py", "_add_answers_additionals", ("assign", "sending", 0), [], "src", {}),
    ("IdentPins", "src_reply_additionals", "_handlers/answers.py", "_add_answers_additionals", ("assign", "additionals", 0), [], "src", {}),
    ("IdentPins", "src_reply_iter", "_handlers/answers.py", "_add_answers_additionals", ("for_iter_of", "additional", 0), [], "src", {}),
    ("IdentPins", "src_reply_test", "_handlers/answers.py", "_add_answers_additionals", ("if", "not in sending", 0), [], "src", {}),
    # what is put where: the record added to `sending` is the ADDITIONAL just sent (not the answer), the records written are the answer / that additional
    ("IdentPins", "src_reply_sending_add", "_handlers/answers.py", "_add_answers_additionals", ("arg", "sending.add", 0, 0), [], "src", {}),
    ("IdentPins", "src_reply_add_additional", "_handlers/answers.py", "_add_answers_additionals", ("arg", "out.add_additional_answer", 0, 0), [], "src", {}),
    ("IdentPins", "src_reply_add_answer", "_handlers/answers.py", "_add_answers_additionals", ("arg", "out.add_answer_at_time", 0, 0), [], "src", {}),
    ("IdentPins", "src_reply_answer_iter", "_handlers/answers.py", "_add_answers_additionals", ("for_iter_of", "answer", 0), [], "src", {}),
    ("IdentPins", "src_reply_census", "_handlers/answers.py", "_add_answers_additionals", ("census",), [], "src", {}),
]
