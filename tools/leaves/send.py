"""leaf registry: the send path behind the message builder (C14): _core.py Zeroconf.async_send
(see tools/gen_lean.py for the format)"""
P = lambda src, name, ty="num": (src, name, ty)

LEAVES = [
    # `if len(packet) > _MAX_MSG_ABSOLUTE:` -- the datagram (and every one behind it) is dropped with a warning
    ("Send", "send_drops", "_core.py", "Zeroconf.async_send", ("if", "len(packet)", 0), [P("len(packet)", "size")], "bool", {"nat": True}),
]
