"""leaf registry: reply timing and routing (C12, C11) -- query_handler.py, multicast_outgoing_queue.py,
_listener.py, answers.py, outgoing.py, incoming.py, _core.py / _utils/net.py (format: tools/gen_lean.py)"""
P = lambda src, name, ty="num": (src, name, ty)

QH = "_handlers/query_handler.py"
MQ = "_handlers/multicast_outgoing_queue.py"

LEAVES = [
    # ---- query_handler.py: the two "have we multicast this recently" tests
    ("Reply", "has_mcast_within_one_quarter_ttl", QH, "_QueryResponse._has_mcast_within_one_quarter_ttl", ("last_ret",),
     [P("maybe_entry is None", "entry_none", "bool"), P("maybe_entry.is_recent(self._now)", "entry_recent", "bool")], "bool", {}),
    ("Reply", "has_mcast_record_in_last_second", QH, "_QueryResponse._has_mcast_record_in_last_second", ("last_ret",),
     [P("maybe_entry is None", "entry_none", "bool"), P("self._now", "now"), P("maybe_entry.created", "created")], "bool", {}),
    # ---- add_qu_question_response: the three tests of the per-record cascade, in source order
    ("Reply", "qu_test_probe", QH, "_QueryResponse.add_qu_question_response", ("if", "self._is_probe", 0),
     [P("self._is_probe", "is_probe", "bool")], "bool", {}),
    ("Reply", "qu_test_mcast_now", QH, "_QueryResponse.add_qu_question_response", ("if", "_has_mcast_within_one_quarter_ttl", 0),
     [P("self._has_mcast_within_one_quarter_ttl(record)", "within_quarter", "bool")], "bool", {}),
    ("Reply", "qu_test_ucast", QH, "_QueryResponse.add_qu_question_response", ("if", "self._is_probe", 1),
     [P("self._is_probe", "is_probe", "bool")], "bool", {}),
    # ---- add_mcast_question_response: the four tests of the per-record cascade, in source order
    ("Reply", "mc_test_probe", QH, "_QueryResponse.add_mcast_question_response", ("if", "self._is_probe", 0),
     [P("self._is_probe", "is_probe", "bool")], "bool", {}),
    ("Reply", "mc_test_last_second", QH, "_QueryResponse.add_mcast_question_response", ("if", "_has_mcast_record_in_last_second", 0),
     [P("self._has_mcast_record_in_last_second(answer)", "in_last_second", "bool")], "bool", {}),
    ("Reply", "mc_test_single_question", QH, "_QueryResponse.add_mcast_question_response", ("if", "len(self._questions)", 0),
     [P("len(self._questions)", "num_questions")], "bool", {}),
    ("Reply", "mc_test_immediate_type", QH, "_QueryResponse.add_mcast_question_response", ("if", "_RESPOND_IMMEDIATE_TYPES", 0),
     [P("question.type", "qtype")], "bool", {}),
    # ---- async_response: routing of one question's answers
    ("Reply", "route_qu_only", QH, "QueryHandler.async_response", ("if", "ucast_source", "is_unicast", 0),
     [P("ucast_source", "ucast_source", "bool"), P("is_unicast", "is_unicast", "bool")], "bool", {}),
    ("Reply", "route_history", QH, "QueryHandler.async_response", ("if", "not is_unicast", 0),
     [P("is_unicast", "is_unicast", "bool")], "bool", {}),
    # ---- handle_assembled_query
    ("Reply", "ucast_source", QH, "QueryHandler.handle_assembled_query", ("assign", "ucast_source", 0),
     [P("port", "port")], "bool", {}),
    # ---- multicast_outgoing_queue.py
    ("Reply", "q_random_delay", MQ, "MulticastOutgoingQueue.async_add", ("assign", "random_delay", 0),
     [P("random_int", "random_int"), P("self._additional_delay", "additional_delay")], "num", {}),
    ("Reply", "q_send_after", MQ, "MulticastOutgoingQueue.async_add", ("assign", "send_after", 0),
     [P("now", "now"), P("random_delay", "random_delay")], "num", {}),
    ("Reply", "q_send_before", MQ, "MulticastOutgoingQueue.async_add", ("assign", "send_before", 0),
     [P("now", "now"), P("self._aggregation_delay", "aggregation_delay"), P("self._additional_delay", "additional_delay")], "num", {}),
    ("Reply", "q_add_nonempty", MQ, "MulticastOutgoingQueue.async_add", ("if", "len(self.queue)", 0),
     [P("len(self.queue)", "qlen")], "bool", {}),
    ("Reply", "q_add_merge", MQ, "MulticastOutgoingQueue.async_add", ("if", "last_group.send_after", 0),
     [P("send_after", "send_after"), P("last_group.send_after", "last_send_after")], "bool", {}),
    ("Reply", "q_add_timer_delay", MQ, "MulticastOutgoingQueue.async_add", ("arg", "millis_to_seconds", 0, 0),
     [P("random_delay", "random_delay")], "num", {}),
    ("Reply", "q_ready_wait", MQ, "MulticastOutgoingQueue.async_ready", ("if", "send_before > now", 0),
     [P("len(self.queue)", "qlen"), P("self.queue[0].send_before", "head_send_before"), P("now", "now")], "bool", {}),
    ("Reply", "q_ready_wait_delay", MQ, "MulticastOutgoingQueue.async_ready", ("arg", "millis_to_seconds", 0, 0),
     [P("self.queue[0].send_before", "head_send_before"), P("now", "now")], "num", {}),
    ("Reply", "q_ready_pop", MQ, "MulticastOutgoingQueue.async_ready", ("if", "send_after <= now", 0),
     [P("len(self.queue)", "qlen"), P("self.queue[0].send_after", "head_send_after"), P("now", "now")], "bool", {}),
    ("Reply", "q_ready_rearm_delay", MQ, "MulticastOutgoingQueue.async_ready", ("arg", "millis_to_seconds", 0, 1),
     [P("self.queue[0].send_after", "head_send_after"), P("now", "now")], "num", {}),
    # async_remove_answers (repair of D5): which queued answers survive a withdrawal
    ("Reply", "q_remove_keep", MQ, "MulticastOutgoingQueue.async_remove_answers", ("compif", 0),
     [P("answer in remove", "in_remove", "bool")], "bool", {}),
    # ---- _listener.py
    ("Reply", "l_oversize", "_listener.py", "AsyncListener.datagram_received", ("if", "data_len", 0),
     [P("data_len", "data_len")], "bool", {}),
    ("Reply", "l_duplicate", "_listener.py", "AsyncListener._process_datagram_at_time", ("if", "self.data == data", 0),
     [P("self.data == data", "same_data", "bool"), P("now", "now"), P("self.last_time", "last_time"),
      P("self.last_message is None", "no_last_message", "bool"),
      # fix D11c: the exemption applies to *queries* with a QU question; the model's flag means exactly that
      P("self.last_message.is_query() and self.last_message.has_qu_question()", "last_has_qu", "bool")], "bool", {}),
    ("Reply", "l_not_truncated", "_listener.py", "AsyncListener.handle_query_or_defer", ("if", "msg.truncated", 0),
     [P("msg.truncated", "truncated", "bool")], "bool", {}),
    # ---- incoming.py: the header bits the listener and the responder look at
    ("Reply", "in_truncated", "_protocol/incoming.py", "DNSIncoming.truncated", ("ret",),
     [P("self.flags", "flags")], "bool", {"nat": True}),
    ("Reply", "in_is_query", "_protocol/incoming.py", "DNSIncoming.is_query", ("ret",),
     [P("self.flags", "flags")], "bool", {"nat": True}),
    ("Reply", "in_is_probe", "_protocol/incoming.py", "DNSIncoming.is_probe", ("ret",),
     [P("self._num_authorities", "num_authorities")], "bool", {"nat": True}),
    # ---- outgoing.py: cache-flush bit and message id
    ("Reply", "out_class_flush", "_protocol/outgoing.py", "DNSOutgoing._write_record_class", ("if", "record.unique", 0),
     [P("record.unique", "unique", "bool"), P("self.multicast", "multicast", "bool")], "bool", {}),
    ("Reply", "out_class_with_flush", "_protocol/outgoing.py", "DNSOutgoing._write_record_class", ("arg", "write_short", 0, 0),
     [P("class_", "class_")], "num", {"nat": True}),
    ("Reply", "out_class_plain", "_protocol/outgoing.py", "DNSOutgoing._write_record_class", ("arg", "write_short", 0, 1),
     [P("class_", "class_")], "num", {"nat": True}),
    ("Reply", "out_id_zero", "_protocol/outgoing.py", "DNSOutgoing.packets", ("if", "self.multicast", 0),
     [P("self.multicast", "multicast", "bool")], "bool", {}),
    # ---- answers.py
    # ---- incoming.py `_read_questions`: "has a QU question" is sticky -- set (to True) by any unique question
    ("Reply", "in_qu_flag_test", "_protocol/incoming.py", "DNSIncoming._read_questions", ("if", "question.unique", 0),
     [P("question.unique", "unique", "bool")], "bool", {}),
    ("Reply", "in_qu_flag_value", "_protocol/incoming.py", "DNSIncoming._read_questions", ("assign", "self._has_qu_question", 0),
     [P("question.unique", "unique", "bool")], "bool", {}),
    # ---- answers.py: the `multicast` constructor argument of the two reply constructors
    ("Reply", "ans_unicast_multicast_arg", "_handlers/answers.py", "construct_outgoing_unicast_answers", ("arg", "DNSOutgoing", 1, 0),
     [P("id_", "id_"), P("ucast_source", "ucast_source", "bool")], "bool", {}),
    ("Reply", "ans_multicast_multicast_arg", "_handlers/answers.py", "construct_outgoing_multicast_answers", ("arg", "DNSOutgoing", 1, 0),
     [], "bool", {}),
    ("Reply", "ans_echo_questions", "_handlers/answers.py", "construct_outgoing_unicast_answers", ("if", "ucast_source", 0),
     [P("ucast_source", "ucast_source", "bool")], "bool", {}),
    # ---- _utils/net.py
    ("Reply", "can_send_to", "_utils/net.py", "can_send_to", ("ret",),
     [P("ipv6_socket", "ipv6_socket", "bool"), P("':' in address", "address_has_colon", "bool")], "bool", {}),
]
