"""leaf registry: what leaves the sockets (C11, package C11DEEP) -- `_core.py::async_send / async_send_with_transport`,
the two reply constructors of `_handlers/answers.py`, the send sites of `query_handler.py::handle_assembled_query` and
`multicast_outgoing_queue.py::async_ready`, the sockaddr split of `_listener.py`, and the class/type arguments of the record
constructors the responder answers with (`_services/info.py`, the enumeration pointer of `query_handler.py`).

Numeric / boolean leaves are translated; `src` leaves are *shape pins*: the located statement as source text, whose expected
text is stated in `lean/Zc/GenFacts/ReplyNet.lean` (the hand-written control flow of `lean/Zc/Model/ReplyNet.lean` mirrors
exactly these statements).  (format: tools/gen_lean.py)"""
P = lambda src, name, ty="num": (src, name, ty)

CORE = "_core.py"
QH = "_handlers/query_handler.py"
MQ = "_handlers/multicast_outgoing_queue.py"
ANS = "_handlers/answers.py"
LIS = "_listener.py"
INFO = "_services/info.py"
SWT = "async_send_with_transport"
HAQ = "QueryHandler.handle_assembled_query"

LEAVES = [
    # ---- _core.py: async_send_with_transport (one socket, one packet)
    ("ReplyNet", "send_addr_none", CORE, SWT, ("if_exact", "addr is None"), [P("addr is None", "addr_none", "bool")], "bool", {}),
    ("ReplyNet", "send_group_v6", CORE, SWT, ("ifexp_test", "real_addr", 0), [P("ipv6_socket", "ipv6_socket", "bool")], "bool", {}),
    ("ReplyNet", "src_group_addr", CORE, SWT, ("assign", "real_addr", 0), [], "src", {}),
    ("ReplyNet", "src_given_addr", CORE, SWT, ("assign", "real_addr", 1), [], "src", {}),
    ("ReplyNet", "src_ipv6_socket", CORE, SWT, ("assign", "ipv6_socket", 0), [], "src", {}),
    ("ReplyNet", "send_skip", CORE, SWT, ("if_exact", "not can_send_to(ipv6_socket, real_addr)"),
     [P("can_send_to(ipv6_socket, real_addr)", "can_send", "bool")], "bool", {}),
    ("ReplyNet", "send_fill_flow_scope", CORE, SWT, ("if_assigning", "v6_flow_scope", 0),
     [P("ipv6_socket", "ipv6_socket", "bool"), P("v6_flow_scope", "flow_scope_given", "bool")], "bool", {}),
    ("ReplyNet", "src_sock_name", CORE, SWT, ("assign", "(_, _, sock_flowinfo, sock_scopeid)", 0), [], "src", {}),
    ("ReplyNet", "src_sock_flow_scope", CORE, SWT, ("assign", "v6_flow_scope", 0), [], "src", {}),
    ("ReplyNet", "send_port", CORE, SWT, ("arg_elt", "transport.sendto", 1, 0, 1), [P("port", "port")], "num", {"nat": True}),
    ("ReplyNet", "src_sendto", CORE, SWT, ("call", "transport.sendto", 0), [], "src", {}),
    # ---- _core.py: Zeroconf.async_send (every packet to every chosen socket)
    ("ReplyNet", "send_one_transport", CORE, "Zeroconf.async_send", ("ifexp_test", "transports", 0), [P("transport", "transport_given", "bool")], "bool", {}),
    ("ReplyNet", "src_transports", CORE, "Zeroconf.async_send", ("assign", "transports", 0), [], "src", {}),
    ("ReplyNet", "send_oversize", CORE, "Zeroconf.async_send", ("if", "_MAX_MSG_ABSOLUTE", 0), [P("len(packet)", "packet_len")], "bool", {"nat": True}),
    ("ReplyNet", "src_packet_loop", CORE, "Zeroconf.async_send", ("for_iter", 0), [], "src", {}),
    ("ReplyNet", "src_transport_loop", CORE, "Zeroconf.async_send", ("for_iter", 1), [], "src", {}),
    ("ReplyNet", "src_send_signature", CORE, "Zeroconf.async_send", ("signature",), [], "src", {}),
    ("ReplyNet", "src_send_call", CORE, "Zeroconf.async_send", ("call", "async_send_with_transport", 0), [], "src", {}),
    # ---- query_handler.py: the two send sites of handle_assembled_query
    ("ReplyNet", "src_first_packet", QH, HAQ, ("assign", "first_packet", 0), [], "src", {}),
    ("ReplyNet", "src_ucast_questions", QH, HAQ, ("assign", "questions", 0), [], "src", {}),
    ("ReplyNet", "src_ucast_id", QH, HAQ, ("assign", "id_", 0), [], "src", {}),
    ("ReplyNet", "src_ucast_ctor", QH, HAQ, ("assign", "out", 0), [], "src", {}),
    ("ReplyNet", "src_ucast_send", QH, HAQ, ("call", "zc.async_send", 0), [], "src", {}),
    ("ReplyNet", "src_mcast_send", QH, HAQ, ("call", "zc.async_send", 1), [], "src", {}),
    # ---- multicast_outgoing_queue.py: the send site of async_ready
    ("ReplyNet", "src_queue_send", MQ, "MulticastOutgoingQueue.async_ready", ("call", "zc.async_send", 0), [], "src", {}),
    # ---- answers.py: what the two constructors put into the DNSOutgoing
    ("ReplyNet", "ans_unicast_flags", ANS, "construct_outgoing_unicast_answers", ("arg", "DNSOutgoing", 0, 0), [], "num", {"nat": True}),
    ("ReplyNet", "ans_multicast_flags", ANS, "construct_outgoing_multicast_answers", ("arg", "DNSOutgoing", 0, 0), [], "num", {"nat": True}),
    ("ReplyNet", "ans_unicast_id", ANS, "construct_outgoing_unicast_answers", ("arg", "DNSOutgoing", 2, 0), [P("id_", "id_")], "num", {"nat": True}),
    ("ReplyNet", "ans_multicast_calls_add_question", ANS, "construct_outgoing_multicast_answers", ("has_call", "add_question"), [], "bool", {}),
    ("ReplyNet", "ans_fill_calls_add_question", ANS, "_add_answers_additionals", ("has_call", "add_question"), [], "bool", {}),
    ("ReplyNet", "src_multicast_ctor", ANS, "construct_outgoing_multicast_answers", ("assign", "out", 0), [], "src", {}),
    ("ReplyNet", "src_echo_loop", ANS, "construct_outgoing_unicast_answers", ("for_iter", 0), [], "src", {}),
    ("ReplyNet", "src_echo_call", ANS, "construct_outgoing_unicast_answers", ("call", "add_question", 0), [], "src", {}),
    ("ReplyNet", "src_fill_answer", ANS, "_add_answers_additionals", ("call", "add_answer_at_time", 0), [], "src", {}),
    ("ReplyNet", "src_fill_additional", ANS, "_add_answers_additionals", ("call", "add_additional_answer", 0), [], "src", {}),
    # ---- _listener.py: the source sockaddr is split into (addr, port) and v6_flow_scope and handed on unchanged
    ("ReplyNet", "l_two_tuple", LIS, "AsyncListener._process_datagram_at_time", ("if", "len(addrs)", 0), [P("len(addrs)", "addrs_len")], "bool", {"nat": True}),
    ("ReplyNet", "src_l_flow_scope2", LIS, "AsyncListener._process_datagram_at_time", ("assign", "v6_flow_scope", 0), [], "src", {}),
    ("ReplyNet", "src_l_flow_scope4", LIS, "AsyncListener._process_datagram_at_time", ("assign", "v6_flow_scope", 1), [], "src", {}),
    ("ReplyNet", "src_l_unpack2", LIS, "AsyncListener._process_datagram_at_time", ("assign", "(addr, port)", 0), [], "src", {}),
    ("ReplyNet", "src_l_unpack4", LIS, "AsyncListener._process_datagram_at_time", ("assign", "(addr, port, flow, scope)", 0), [], "src", {}),
    ("ReplyNet", "src_l_handle", LIS, "AsyncListener._process_datagram_at_time", ("call", "handle_query_or_defer", 0), [], "src", {}),
    ("ReplyNet", "src_l_respond_now", LIS, "AsyncListener.handle_query_or_defer", ("call", "_respond_query", 0), [], "src", {}),
    ("ReplyNet", "src_l_respond_later", LIS, "AsyncListener.handle_query_or_defer", ("call", "call_at", 0), [], "src", {}),
    ("ReplyNet", "src_l_assembled", LIS, "AsyncListener._respond_query", ("call", "handle_assembled_query", 0), [], "src", {}),
    # ---- _listener.py: `self.data` / `self.last_time` (what the duplicate guard compares with) are assigned once each, behind the guard:
    #      a dropped repeat does not restart the second (wave-5 seed C11-w5-seed2)
    ("ReplyNet", "src_l_last_time", LIS, "AsyncListener._process_datagram_at_time", ("assign", "self.last_time", 0), [], "src", {}),
    ("ReplyNet", "src_l_last_time_again", LIS, "AsyncListener._process_datagram_at_time", ("assign", "self.last_time", 1), [], "src", {}),
    ("ReplyNet", "src_l_data", LIS, "AsyncListener._process_datagram_at_time", ("assign", "self.data", 0), [], "src", {}),
    ("ReplyNet", "src_l_data_again", LIS, "AsyncListener._process_datagram_at_time", ("assign", "self.data", 1), [], "src", {}),
    # ---- _listener.py::_respond_query: the deferred packets first, the packet just received last (the reply takes id and
    #      questions from `packets[0]`); _cache.py::async_get_unique: "seen" is looked up under the lower-cased name
    ("ReplyNet", "src_l_packets", LIS, "AsyncListener._respond_query", ("assign", "packets", 0), [], "src", {}),
    ("ReplyNet", "src_l_packets_append", LIS, "AsyncListener._respond_query", ("call", "packets.append", 0), [], "src", {}),
    ("ReplyNet", "l_append_if_msg", LIS, "AsyncListener._respond_query", ("if", "msg", 0), [P("msg", "msg_given", "bool")], "bool", {}),
    ("ReplyNet", "src_cache_unique_store", "_cache.py", "DNSCache.async_get_unique", ("assign", "store", 0), [], "src", {}),
    ("ReplyNet", "src_cache_unique_ret", "_cache.py", "DNSCache.async_get_unique", ("last_ret",), [], "src", {}),
    # ---- query_handler.py::async_response (C03's repair of scoped known answers, optional: absent from the unrepaired tree): known AAAA
    #      answers received on an IPv6 socket carry the interface's scope id; the repaired responder compares its own records with them
    #      after dropping it.  The harness numbers known answers accordingly (reply_common.parse_query) and the driver checks the flag.
    ("ReplyNet", "resp_known_unscoped", QH, "QueryHandler.async_response", ("if_assigning", "own_known_answers", 0),
     [P("msg.scope_id is None", "scope_none", "bool")], "bool", {"absent": False}),
    # ---- query_handler.py: does the QU rule's cache look-up go through a scope-blind helper (candidate repair of D29)?  The harness hands
    #      the model the view of "seen" the tree's own look-up has (reply_common, asm["seen"]); the driver checks the flag.
    ("ReplyNet", "qu_lookup_ignores_scope", QH, "_QueryResponse._has_mcast_within_one_quarter_ttl", ("has_call", "_get_unique_ignoring_scope"), [], "bool", {}),
    # ---- the record constructors the responder answers with: type and class arguments
    ("ReplyNet", "rec_ptr_type", INFO, "ServiceInfo._dns_pointer", ("arg", "DNSPointer", 1, 0), [], "num", {"nat": True}),
    ("ReplyNet", "rec_ptr_class", INFO, "ServiceInfo._dns_pointer", ("arg", "DNSPointer", 2, 0), [], "num", {"nat": True}),
    ("ReplyNet", "rec_srv_type", INFO, "ServiceInfo._dns_service", ("arg", "DNSService", 1, 0), [], "num", {"nat": True}),
    ("ReplyNet", "rec_srv_class", INFO, "ServiceInfo._dns_service", ("arg", "DNSService", 2, 0), [], "num", {"nat": True}),
    ("ReplyNet", "rec_txt_type", INFO, "ServiceInfo._dns_text", ("arg", "DNSText", 1, 0), [], "num", {"nat": True}),
    ("ReplyNet", "rec_txt_class", INFO, "ServiceInfo._dns_text", ("arg", "DNSText", 2, 0), [], "num", {"nat": True}),
    ("ReplyNet", "rec_nsec_type", INFO, "ServiceInfo._dns_nsec", ("arg", "DNSNsec", 1, 0), [], "num", {"nat": True}),
    ("ReplyNet", "rec_nsec_class", INFO, "ServiceInfo._dns_nsec", ("arg", "DNSNsec", 2, 0), [], "num", {"nat": True}),
    ("ReplyNet", "rec_addr_type", INFO, "ServiceInfo._dns_addresses", ("arg", "DNSAddress", 1, 0), [P("ip_addr.version", "version")], "num", {"nat": True}),
    ("ReplyNet", "rec_addr_class", INFO, "ServiceInfo._dns_addresses", ("arg", "DNSAddress", 2, 0), [P("class_", "class_")], "num", {"nat": True}),
    ("ReplyNet", "rec_addr_class_var", INFO, "ServiceInfo._dns_addresses", ("assign", "class_", 0), [], "num", {"nat": True}),
    ("ReplyNet", "rec_enum_type", QH, "QueryHandler._add_service_type_enumeration_query_answers", ("arg", "DNSPointer", 1, 0), [], "num", {"nat": True}),
    ("ReplyNet", "rec_enum_class", QH, "QueryHandler._add_service_type_enumeration_query_answers", ("arg", "DNSPointer", 2, 0), [], "num", {"nat": True}),
]
