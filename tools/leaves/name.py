"""leaf registry: _utils/name.py (C19) -- the numeric tests of the service_type_name cascade"""
P = lambda src, name, ty="num": (src, name, ty)

LEAVES = [
    # if len(type_) > 256
    ("Name", "name_too_long", "_utils/name.py", "service_type_name", ("if", "len(type_)", 0),
     [P("len(type_)", "n")], "bool", {"nat": True}),
    # if not test_service_name   (added by the D9 repair; absent = the test never fires)
    ("Name", "svc_empty", "_utils/name.py", "service_type_name", ("if", "not test_service_name", 0),
     [P("test_service_name", "n")], "bool", {"nat": True, "absent": "false"}),
    # if strict and len(test_service_name) > 15
    ("Name", "svc_too_long", "_utils/name.py", "service_type_name", ("if", "len(test_service_name)", 0),
     [P("strict", "strict", "bool"), P("len(test_service_name)", "n")], "bool", {"nat": True}),
    # if length > 63      (length = len(remaining[0].encode('utf-8')))
    ("Name", "inst_too_long", "_utils/name.py", "service_type_name", ("if", "length >", 0),
     [P("length", "length")], "bool", {"nat": True}),
]
