"""leaf registry: _utils/name.py (C19) -- the numeric tests of the service_type_name cascade"""
P = lambda src, name, ty="num": (src, name, ty)

LEAVES = [
    # if len(type_) > 256
    ("Name", "name_too_long", "_utils/name.py", "service_type_name", ("if", "len(type_)", 0),
     [P("len(type_)", "n")], "bool", {"nat": True}),
    # if not test_service_name   (added by the D9 repair; absent = the test never fires)
    ("Name", "svc_empty", "_utils/name.py", "service_type_name", ("if", "not test_service_name", 0),
     [P("test_service_name", "n")], "bool", {"nat": True, "absent": "false"}),
    # if strict and len(test_service_name) > 15
    ("Name", "svc_too_long", "_utils/name.py", "service_type_name", ("if", "len(test_service_name)", 0),
     [P("strict", "strict", "bool"), P("len(test_service_name)", "n")], "bool", {"nat": True}),
    # if length > 63      (length = len(remaining[0].encode('utf-8')))
    ("Name", "inst_too_long", "_utils/name.py", "service_type_name", ("if", "length >", 0),
     [P("length", "length")], "bool", {"nat": True}),
    # ---- shape pins (rty "src"): statements that are hand-modelled in lean/Zc/Model/Name.lean and Txt.lean; GenFacts/Name.lean
    # states the expected source text, so an edit (a `.lower()`, a different index, a dropped `or None`) breaks C19's proof stage
    ("Name", "src_suffix_test", "_utils/name.py", "service_type_name", ("if", "type_.endswith((", 0), [], "src", {}),
    ("Name", "src_local_test", "_utils/name.py", "service_type_name", ("if", "type_.endswith(_LOCAL_TRAILER)", 0), [], "src", {}),
    ("Name", "src_with_service", "_utils/name.py", "service_type_name", ("if", "strict or has_protocol", 0), [], "src", {}),
    ("Name", "src_no_service_name", "_utils/name.py", "service_type_name", ("if", "not service_name", 0), [], "src", {}),
    ("Name", "src_leading_dot", "_utils/name.py", "service_type_name", ("if", "len(remaining) == 1", 0), [], "src", {}),
    ("Name", "src_first_underscore", "_utils/name.py", "service_type_name", ("if", "service_name[0]", 0), [], "src", {}),
    ("Name", "src_test_service_name", "_utils/name.py", "service_type_name", ("assign", "test_service_name", 0), [], "src", {}),
    ("Name", "src_double_hyphen", "_utils/name.py", "service_type_name", ("if", "'--'", 0), [], "src", {}),
    ("Name", "src_edge_hyphen", "_utils/name.py", "service_type_name", ("if", "test_service_name[-1]", 0), [], "src", {}),
    ("Name", "src_letter_search", "_utils/name.py", "service_type_name", ("if", "_HAS_A_TO_Z.search", 0), [], "src", {}),
    ("Name", "src_allowed_re", "_utils/name.py", "service_type_name", ("assign", "allowed_characters_re", 0), [], "src", {}),
    ("Name", "src_chars_search", "_utils/name.py", "service_type_name", ("if", "allowed_characters_re.search", 0), [], "src", {}),
    ("Name", "src_sub_test", "_utils/name.py", "service_type_name", ("if", "'_sub'", 0), [], "src", {}),
    ("Name", "src_sub_empty", "_utils/name.py", "service_type_name", ("if", "len(remaining) == 0", 0), [], "src", {}),
    ("Name", "src_join_test", "_utils/name.py", "service_type_name", ("if", "len(remaining) > 1", 0), [], "src", {}),
    # the three assignments to `remaining` (ast.walk is breadth-first: the protocol split, the join, the bare-local split)
    ("Name", "src_split_proto", "_utils/name.py", "service_type_name", ("assign", "remaining", 0), [], "src", {}),
    ("Name", "src_join", "_utils/name.py", "service_type_name", ("assign", "remaining", 1), [], "src", {}),
    ("Name", "src_split_local", "_utils/name.py", "service_type_name", ("assign", "remaining", 2), [], "src", {}),
    ("Name", "src_trailer_proto", "_utils/name.py", "service_type_name", ("assign", "trailer", 0), [], "src", {}),
    ("Name", "src_trailer_local", "_utils/name.py", "service_type_name", ("assign", "trailer", 1), [], "src", {}),
    ("Name", "src_service_name_pop", "_utils/name.py", "service_type_name", ("assign", "service_name", 0), [], "src", {}),
    ("Name", "src_result", "_utils/name.py", "service_type_name", ("last_ret",), [], "src", {}),
    ("Name", "src_inst_length", "_utils/name.py", "service_type_name", ("assign", "length", 0), [], "src", {}),
    ("Name", "src_ctrl_search", "_utils/name.py", "service_type_name", ("if", "_HAS_ASCII_CONTROL_CHARS.search", 0), [], "src", {}),
    ("Name", "src_ctor_test", "_services/info.py", "ServiceInfo.__init__", ("if", "service_type_name(", 0), [], "src", {}),
    ("Name", "src_txt_key_is_str", "_services/info.py", "ServiceInfo._set_properties", ("if", "isinstance(key, str)", 0), [], "src", {}),
    ("Name", "src_txt_value_present", "_services/info.py", "ServiceInfo._set_properties", ("if", "value is not None", 0), [], "src", {}),
    ("Name", "src_txt_value_not_bytes", "_services/info.py", "ServiceInfo._set_properties", ("if", "isinstance(value, bytes)", 0), [], "src", {}),
    ("Name", "src_txt_value_coerce", "_services/info.py", "ServiceInfo._set_properties", ("assign", "value", 0), [], "src", {}),
    ("Name", "src_txt_item", "_services/info.py", "ServiceInfo._set_properties", ("assign", "result", 1), [], "src", {}),
    ("Name", "src_txt_alias_test", "_services/info.py", "ServiceInfo._set_properties", ("if", "properties_contain_str", 0), [], "src", {}),
    ("Name", "src_txt_loop", "_services/info.py", "ServiceInfo._unpack_text_into_properties", ("if", "index < end", 0), [], "src", {}),
    ("Name", "src_txt_slice", "_services/info.py", "ServiceInfo._unpack_text_into_properties", ("assign", "key_value", 0), [], "src", {}),
    ("Name", "src_txt_partition", "_services/info.py", "ServiceInfo._unpack_text_into_properties", ("assign", "key_sep_value", 0), [], "src", {}),
    ("Name", "src_txt_key", "_services/info.py", "ServiceInfo._unpack_text_into_properties", ("assign", "key", 0), [], "src", {}),
    ("Name", "src_txt_first_wins", "_services/info.py", "ServiceInfo._unpack_text_into_properties", ("if", "key not in properties", 0), [], "src", {}),
    ("Name", "src_txt_stored", "_services/info.py", "ServiceInfo._unpack_text_into_properties", ("assign", "properties[key]", 0), [], "src", {}),
]
