"""leaf registry: _services/info.py request loop, _is_complete, question generation; _history.py age test (C18)"""
P = lambda src, name, ty="num": (src, name, ty)

LEAVES = [
    # ---- info.py: ServiceInfo._is_complete
    ("Lookup", "is_complete", "_services/info.py", "ServiceInfo._is_complete", ("ret",),
     [P("self.text is not None", "text_set", "bool"), P("self._ipv4_addresses", "n4"), P("self._ipv6_addresses", "n6")],
     "bool", {"nat": True}),
    # ---- info.py: async_request loop
    ("Lookup", "initial_delay", "_services/info.py", "ServiceInfo._get_initial_delay", ("ret",), [], "num", {"nat": True}),
    ("Lookup", "deadline_of", "_services/info.py", "ServiceInfo.async_request", ("assign", "last", 0),
     [P("now", "now"), P("timeout", "timeout")], "num", {}),
    ("Lookup", "deadline_passed", "_services/info.py", "ServiceInfo.async_request", ("if", "last", "now", 0),
     [P("last", "last"), P("now", "now")], "bool", {}),
    ("Lookup", "query_due", "_services/info.py", "ServiceInfo.async_request", ("if", "next_", "now", 0),
     [P("next_", "next_"), P("now", "now")], "bool", {}),
    # question_type or QU_QUESTION if first_request else QM_QUESTION   (0 = None, enum members are truthy)
    ("Lookup", "this_question_type", "_services/info.py", "ServiceInfo.async_request", ("assign", "this_question_type", 0),
     [P("question_type", "question_type"), P("QU_QUESTION", "qu"), P("QM_QUESTION", "qm"), P("first_request", "first_request", "bool")],
     "num", {"nat": True}),
    ("Lookup", "next_base", "_services/info.py", "ServiceInfo.async_request", ("assign", "next_", 1),
     [P("now", "now"), P("delay", "delay")], "num", {}),
    ("Lookup", "delay_bump", "_services/info.py", "ServiceInfo.async_request", ("if", "delay <", 0),
     [P("this_question_type is QM_QUESTION", "is_qm", "bool"), P("delay", "delay")], "bool", {}),
    ("Lookup", "wait_for", "_services/info.py", "ServiceInfo.async_request", ("arg", "async_wait", 0, 0),
     [P("next_", "next_"), P("last", "last"), P("now", "now")], "num", {}),
    ("Lookup", "send_if", "_services/info.py", "ServiceInfo.async_request", ("if", "out.questions", 0),
     [P("out.questions", "n_questions")], "bool", {"nat": True}),
    # ---- info.py: _load_from_cache (repaired, D14): newest SRV/TXT key object that passes this test
    ("Lookup", "load_takes", "_services/info.py", "ServiceInfo._load_from_cache", ("if", "is_expired", 0),
     [P("record.is_expired(now)", "expired", "bool")], "bool", {}),
    # ---- info.py: _add_question_with_known_answers
    ("Lookup", "skip_known", "_services/info.py", "ServiceInfo._add_question_with_known_answers", ("if", "skip_if_known_answers", 0),
     [P("skip_if_known_answers", "skip_if_known_answers", "bool"), P("known_answers", "n_known")], "bool", {"nat": True}),
    # ---- _history.py: QuestionHistory.suppresses age test
    ("Lookup", "history_too_old", "_history.py", "QuestionHistory.suppresses", ("if", "now - than", 0),
     [P("now", "now"), P("than", "than")], "bool", {}),
]
