"""leaf registry: _cache.py, record_manager.py, browser callbacks (C05, C06, C04)"""
P = lambda src, name, ty="num": (src, name, ty)

LEAVES = [
    # ---- _cache.py
    # now - created_double > _ONE_SECOND and record not in answers_rrset
    ("Cache", "flush_test", "_cache.py", "DNSCache.async_mark_unique_records_older_than_1s_to_expire", ("if", "created_double", 0),
     [P("now", "now"), P("created_double", "created"), P("record not in answers_rrset", "not_in_answers", "bool")], "bool", {}),
    # new = record not in store and not isinstance(record, DNSNsec)
    ("Cache", "add_is_new", "_cache.py", "DNSCache._async_add", ("assign", "new", 0),
     [P("record not in store", "absent", "bool"), P("isinstance(record, DNSNsec)", "is_nsec", "bool")], "bool", {}),
    # ---- _handlers/record_manager.py
    # record_ttl and record_type == _TYPE_PTR and record_ttl < _DNS_PTR_MIN_TTL
    ("Cache", "ptr_floor_test", "_handlers/record_manager.py", "RecordManager.async_updates_from_response", ("if", "_DNS_PTR_MIN_TTL", 0),
     [P("record_ttl", "record_ttl"), P("record_type", "record_type")], "bool", {"nat": True}),
    ("Cache", "is_address_type", "_handlers/record_manager.py", "RecordManager.async_updates_from_response", ("if", "_ADDRESS_RECORD_TYPES", 0),
     [P("record_type", "record_type")], "bool", {"nat": True}),
    # the listener set is copied before it is iterated (callbacks may add/remove listeners)
    ("Cache", "updates_iterates_copy", "_handlers/record_manager.py", "RecordManager.async_updates", ("has_call", "listeners.copy", 1),
     [], "bool", {}),
    ("Cache", "complete_iterates_copy", "_handlers/record_manager.py", "RecordManager.async_updates_complete", ("has_call", "listeners.copy", 1),
     [], "bool", {}),
    # D18 repair: removing a listener that is not registered (set.remove -> KeyError) is caught
    ("Cache", "remove_listener_catches_keyerror", "_handlers/record_manager.py", "RecordManager.async_remove_listener", ("except_catches", "KeyError"),
     [], "bool", {}),
    # D23 repair: async_add_listener purges expired records (notifying the registered listeners) BEFORE it adds the new listener
    ("Cache", "add_listener_purges_first", "_handlers/record_manager.py", "RecordManager.async_add_listener", ("call_before", "cache.async_expire", "listeners.add"),
     [], "bool", {}),
    ("Cache", "add_listener_purge_expire_now", "_handlers/record_manager.py", "RecordManager.async_add_listener", ("arg", "cache.async_expire", 0, 0),
     [P("now", "now")], "num", {}),
    ("Cache", "add_listener_purge_updates_now", "_handlers/record_manager.py", "RecordManager.async_add_listener", ("arg", "self.async_updates", 0, 0),
     [P("now", "now")], "num", {}),
    # D23b repair: the replay of the cache to the new listener uses the purge's reading of the clock
    ("Cache", "add_listener_replay_now", "_handlers/record_manager.py", "RecordManager.async_add_listener", ("arg", "_async_update_matching_records", 2, 0),
     [P("now", "now")], "num", {}),
    # D24 repair: `cache.async_remove_records([record for record in removes if cache.async_get_unique(record) is not None])` -- a
    # first-round callback may have purged (async_add_listener with a question) a record the datagram withdraws.  On a tree without
    # the filter every withdrawn record is handed to async_remove_records: the leaf is the constant `True` there.
    ("Cache", "removes_keep_test", "_handlers/record_manager.py", "RecordManager.async_updates_from_response", ("compif", 0),
     [P("cache.async_get_unique(record) is not None", "still_cached", "bool")], "bool", {"absent": True}),
    # ---- _engine.py: the periodic purge uses ONE reading of the clock: the instant it sweeps the cache with is the instant it
    # tells the listeners (a second `current_time_millis()` is not in the translator's subset: fails closed)
    ("Cache", "purge_expire_now", "_engine.py", "AsyncEngine._async_cache_cleanup", ("arg", "cache.async_expire", 0, 0),
     [P("now", "now")], "num", {}),
    ("Cache", "purge_updates_now", "_engine.py", "AsyncEngine._async_cache_cleanup", ("arg", "record_manager.async_updates", 0, 0),
     [P("now", "now")], "num", {}),
    # `async_updates(now, records)` hands the SAME `records` object to every listener: it has to be a list.  A generator expression
    # there is consumed by the first listener of the set, every other listener is told about no purged record (seeded defect C05-w5-seed1)
    ("Cache", "purge_updates_is_list", "_engine.py", "AsyncEngine._async_cache_cleanup", ("arg_is_list", "record_manager.async_updates", 1, 0),
     [], "bool", {}),
    ("Cache", "add_listener_purge_updates_is_list", "_handlers/record_manager.py", "RecordManager.async_add_listener", ("arg_is_list", "self.async_updates", 1, 0),
     [], "bool", {}),
    # ---- _services/browser.py (callback side only; the scheduler belongs to C10)
    ("Cache", "enqueue_test", "_services/browser.py", "_ServiceBrowserBase._enqueue_callback", ("if", "state_change", 0),
     [P("state_change is SERVICE_STATE_CHANGE_ADDED", "is_added", "bool"),
      P("state_change is SERVICE_STATE_CHANGE_REMOVED", "is_removed", "bool"),
      P("self._pending_handlers.get(key) is not SERVICE_STATE_CHANGE_ADDED", "pending_not_added", "bool"),
      P("state_change is SERVICE_STATE_CHANGE_UPDATED", "is_updated", "bool"),
      P("key not in self._pending_handlers", "key_absent", "bool")], "bool", {}),
    # If its expired or already exists in the cache it cannot be updated.
    ("Cache", "nonptr_skip", "_services/browser.py", "_ServiceBrowserBase.async_update_records", ("if", "old_record is not None", 0),
     [P("old_record is not None", "has_old", "bool"), P("record.is_expired(now)", "expired", "bool")], "bool", {}),
    # D24b repair (D25): async_update_records_complete detaches the pending changes before it fires them
    # (`pending_handlers = self._pending_handlers; self._pending_handlers = {}; for pending in pending_handlers.items()`), so that a
    # handler that re-enters the record manager (a browser created inside add_service: purge + nested rounds) neither gets them fired
    # again nor changes the dict being iterated.  On a tree without the repair the first leaf is the constant `False`, the second `True`.
    ("Cache", "complete_takes_pending", "_services/browser.py", "_ServiceBrowserBase.async_update_records_complete", ("assign", "pending_handlers", 0),
     [P("self._pending_handlers", "live_dict", "bool")], "bool", {"absent": False}),
    ("Cache", "complete_iterates_live", "_services/browser.py", "_ServiceBrowserBase.async_update_records_complete", ("has_call", "self._pending_handlers.items", 1),
     [], "bool", {}),
    ("Cache", "browser_is_address_type", "_services/browser.py", "_ServiceBrowserBase.async_update_records", ("if", "_ADDRESS_RECORD_TYPES", 0),
     [P("record_type", "record_type")], "bool", {"nat": True}),
]
