"""leaf registry: _protocol/outgoing.py, DNSNsec.write (see tools/gen_lean.py for the format)"""
P = lambda src, name, ty="num": (src, name, ty)
F = "_protocol/outgoing.py"

LEAVES = [
    ("Outgoing", "label_too_long", F, "DNSOutgoing._write_utf", ("if", "length", 0), [P("length", "length")], "bool", {"nat": True}),
    ("Outgoing", "charstring_too_long", F, "DNSOutgoing.write_character_string", ("if", "length", 0), [P("length", "length")], "bool", {"nat": True}),
    ("Outgoing", "link_hi", F, "DNSOutgoing._write_link_to_name", ("arg", "_write_byte", 0, 0), [P("index", "index")], "num", {"nat": True}),
    ("Outgoing", "link_lo", F, "DNSOutgoing._write_link_to_name", ("arg", "_write_byte", 0, 1), [P("index", "index")], "num", {"nat": True}),
    ("Outgoing", "class_has_unique_bit", F, "DNSOutgoing._write_record_class", ("if", "unique", 0),
     [P("record.unique", "unique", "bool"), P("self.multicast", "multicast", "bool")], "bool", {"nat": True}),
    ("Outgoing", "class_with_unique", F, "DNSOutgoing._write_record_class", ("arg", "write_short", 0, 0), [P("class_", "class_")], "num", {"nat": True}),
    ("Outgoing", "ttl_field", F, "DNSOutgoing._write_ttl", ("arg", "_write_int", 0, 0),
     [P("record.ttl", "ttl"), P("now", "now"), P("record.get_remaining_ttl(now)", "remaining")], "num", {}),
    ("Outgoing", "len_limit", F, "DNSOutgoing._check_data_limit_or_rollback", ("assign", "len_limit", 0),
     [P("self.allow_long", "allow_long", "bool")], "num", {"nat": True}),
    ("Outgoing", "fits", F, "DNSOutgoing._check_data_limit_or_rollback", ("if", "len_limit", 0),
     [P("self.size", "size"), P("len_limit", "len_limit")], "bool", {"nat": True}),
    ("Outgoing", "rollback_drops", F, "DNSOutgoing._check_data_limit_or_rollback", ("compif", 0),
     [P("idx", "idx"), P("start_size_int", "start_size")], "bool", {"nat": True}),
    ("Outgoing", "is_query", F, "DNSOutgoing.is_query", ("ret",), [P("self.flags", "flags")], "bool", {"nat": True}),
    ("Outgoing", "set_tc", F, "DNSOutgoing.packets", ("if", "has_more_to_add", "is_query", 0),
     [P("has_more_to_add", "has_more", "bool"), P("self.is_query()", "is_query", "bool")], "bool", {"nat": True}),
    ("Outgoing", "flags_with_tc", F, "DNSOutgoing.packets", ("arg", "_insert_short_at_start", 0, 4), [P("self.flags", "flags")], "num", {"nat": True}),
    ("Outgoing", "has_more_to_add", F, "DNSOutgoing._has_more_to_add", ("ret",),
     [P("questions_offset", "qo"), P("answer_offset", "ao"), P("authority_offset", "auo"), P("additional_offset", "ado"),
      P("len(self.questions)", "nq"), P("len(self.answers)", "na"), P("len(self.authorities)", "nau"), P("len(self.additionals)", "nad")], "bool", {"nat": True}),
    ("Outgoing", "answer_accepted", F, "DNSOutgoing.add_answer_at_time", ("if", "record", 0),
     [P("record is not None", "present", "bool"), P("now_double", "now"), P("record.is_expired(now_double)", "expired", "bool")], "bool", {}),
    ("Outgoing", "nsec_type_too_large", "_dns.py", "DNSNsec.write", ("if", "rdtype", 0), [P("rdtype", "rdtype")], "bool", {"nat": True}),
    ("Outgoing", "nsec_byte", "_dns.py", "DNSNsec.write", ("assign", "byte", 0), [P("rdtype", "rdtype")], "num", {"nat": True}),
    ("Outgoing", "nsec_total_octets", "_dns.py", "DNSNsec.write", ("assign", "total_octets", 1), [P("byte", "byte")], "num", {"nat": True}),
    ("Outgoing", "nsec_mask", "_dns.py", "DNSNsec.write", ("augassign", "bitmap", 0), [P("rdtype", "rdtype")], "num", {"nat": True}),
]
