"""leaf registry: the API / wake-up blocks of the closed composite (C15): _core.py, _utils/asyncio.py"""
P = lambda src, name, ty="num": (src, name, ty)

LEAVES = [
    # ---- _utils/asyncio.py: waking the futures parked by waiting coroutines (lookups' `_new_records_futures`, `zc._notify_futures`).
    # `fut.set_result(None)` raises InvalidStateError on a future that is done (timed out or cancelled but still in the set: the waiter
    # discards it only when its task runs again), so the `if not fut.done()` test is what keeps a datagram that wakes a lookup from
    # raising out of `datagram_received`.
    ("SurviveApi", "fut_set_guard", "_utils/asyncio.py", "_set_future_none_if_not_done", ("if", "fut.done", 0),
     [P("fut.done()", "done", "bool")], "bool", {}),
    # `_resolve_all_futures_to_none` goes through that guard for every future of the set
    ("SurviveApi", "resolve_all_guarded", "_utils/asyncio.py", "_resolve_all_futures_to_none", ("has_call", "_set_future_none_if_not_done"),
     [], "bool", {}),
    # ---- _core.py: D28 repair -- `async_register_service` / `async_update_service` encode the service's records
    # (`generate_service_broadcast(info, None).packets()`) BEFORE the registry holds the service; false on the unrepaired tree
    ("SurviveApi", "register_encodes_first", "_core.py", "Zeroconf.async_register_service", ("call_before", ").packets", "registry.async_add"),
     [], "bool", {}),
    ("SurviveApi", "update_encodes_first", "_core.py", "Zeroconf.async_update_service", ("call_before", ").packets", "registry.async_update"),
     [], "bool", {}),
]
