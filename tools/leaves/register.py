"""leaf registry: registration (C09) and withdrawal (C08): _core.py, _cache.py, multicast_outgoing_queue.py"""
P = lambda src, name, ty="num": (src, name, ty)

LEAVES = [
    # ---- _core.py: async_check_service
    ("Register", "probe_continue", "_core.py", "Zeroconf.async_check_service", ("if", "i <", 0),
     [P("i", "i")], "bool", {"nat": True}),
    ("Register", "must_wait", "_core.py", "Zeroconf.async_check_service", ("if", "now < next_time", 0),
     [P("now", "now"), P("next_time", "next_time")], "bool", {}),
    ("Register", "wait_timeout", "_core.py", "Zeroconf.async_check_service", ("arg", "self.async_wait", 0, 0),
     [P("now", "now"), P("next_time", "next_time")], "num", {}),
    ("Register", "next_probe_time", "_core.py", "Zeroconf.async_check_service", ("augassign_expr", "next_time", 0),
     [P("next_time", "next_time")], "num", {}),
    ("Register", "next_probe_count", "_core.py", "Zeroconf.async_check_service", ("augassign_expr", "i", 0),
     [P("i", "i")], "num", {"nat": True}),
    # ---- _core.py: _async_broadcast_service
    ("Register", "broadcast_count", "_core.py", "Zeroconf._async_broadcast_service", ("range_arg", 0),
     [], "num", {"nat": True}),
    ("Register", "broadcast_sleeps", "_core.py", "Zeroconf._async_broadcast_service", ("if", "i != 0", 0),
     [P("i", "i")], "bool", {"nat": True}),
    # D6 repair: the announce loop stops when the info is no longer the registered one.
    # Absent in the unrepaired tree: then the loop never stops (`False`).
    ("Register", "announce_stops", "_core.py", "Zeroconf._async_broadcast_service", ("if", "ttl is None", "is not info", 0),
     [P("ttl is None", "ttl_is_none", "bool"), P("self.registry.async_get_info_name(info.key) is not info", "not_registered", "bool")],
     "bool", {"absent": False}),
    ("Register", "add_addresses", "_core.py", "Zeroconf._add_broadcast_answer", ("if", "broadcast_addresses", 0),
     [P("broadcast_addresses", "broadcast_addresses", "bool")], "bool", {}),
    # async_unregister_service: addresses are withdrawn only when no other service uses the host
    ("Register", "goodbye_addresses", "_core.py", "Zeroconf.async_unregister_service", ("assign", "broadcast_addresses", 0),
     [P("bool(entries)", "others_on_host", "bool")], "bool", {}),
    # D5 repair: queued answers of the withdrawn service are dropped from both queues
    ("Register", "unregister_purges_queues", "_core.py", "Zeroconf.async_unregister_service", ("has_call", "async_remove_answers", 2),
     [], "bool", {}),
    ("Register", "unregister_all_purges_queues", "_core.py", "Zeroconf.generate_unregister_all_services", ("has_call", "async_remove_answers", 2),
     [], "bool", {}),
    ("Register", "send_is_noop", "_core.py", "Zeroconf.async_send", ("if", "self.done", 0),
     [P("self.done", "done", "bool")], "bool", {}),
    # ---- _cache.py: current_entry_with_name_and_alias
    ("Register", "cache_conflict", "_cache.py", "DNSCache.current_entry_with_name_and_alias", ("if", "record.type", 0),
     [P("record.type", "rtype"), P("record.is_expired(now)", "expired", "bool"), P("cast(DNSPointer, record).alias == alias", "alias_eq", "bool")],
     "bool", {}),
    # D19 repair: the synchronous wrapper waits for the goodbye task (`await_awaitable`), like register_service / update_service
    ("Register", "sync_unregister_awaits_goodbyes", "_core.py", "Zeroconf.unregister_service", ("has_call", "await_awaitable", 1),
     [], "bool", {}),
    ("Register", "sync_register_awaits_announcements", "_core.py", "Zeroconf.register_service", ("has_call", "await_awaitable", 1),
     [], "bool", {}),
    ("Register", "sync_update_awaits_announcements", "_core.py", "Zeroconf.update_service", ("has_call", "await_awaitable", 1),
     [], "bool", {}),
    # "or its instance is closed" (C08): the public close calls say goodbye for everything still registered, and do so *before*
    # `_close` sets `done` (after which async_send is a no-op).  Call-order pins: presence of the call, and its position.
    ("Register", "async_close_unregisters_all", "asyncio.py", "AsyncZeroconf.async_close", ("has_call", "async_unregister_all_services"),
     [], "bool", {}),
    ("Register", "async_close_goodbyes_before_done", "asyncio.py", "AsyncZeroconf.async_close", ("call_before", "async_unregister_all_services", "_async_close"),
     [], "bool", {}),
    ("Register", "sync_close_unregisters_all", "_core.py", "Zeroconf.close", ("has_call", "self.unregister_all_services"),
     [], "bool", {}),
    ("Register", "sync_close_goodbyes_before_done", "_core.py", "Zeroconf.close", ("call_before", "self.unregister_all_services", "self._close"),
     [], "bool", {}),
    # since D27 the goodbyes of async_unregister_service leave through _async_send_repeatedly, those of a close / unregister-all through the
    # loop of async_unregister_all_services: the ranges and intervals of THOSE loops (the model's goodbye task and close sequence are written
    # with broadcast_count / unregisterTime; GenFacts.Goodbye.goodbye_loops proves the two goodbye loops have the same range and interval)
    ("Register", "goodbye_count", "_core.py", "Zeroconf._async_send_repeatedly", ("range_arg", 0), [], "num", {"nat": True}),
    ("Register", "goodbye_sleeps", "_core.py", "Zeroconf._async_send_repeatedly", ("if", "i != 0", 0), [P("i", "i")], "bool", {"nat": True}),
    ("Register", "goodbye_interval", "_core.py", "Zeroconf.async_unregister_service", ("arg", "_async_send_repeatedly", 1, 0), [], "num", {"nat": True}),
    ("Register", "goodbye_all_count", "_core.py", "Zeroconf.async_unregister_all_services", ("range_arg", 0), [], "num", {"nat": True}),
    ("Register", "goodbye_all_sleeps", "_core.py", "Zeroconf.async_unregister_all_services", ("if", "i != 0", 0), [P("i", "i")], "bool", {"nat": True}),
    ("Register", "goodbye_all_interval", "_core.py", "Zeroconf.async_unregister_all_services", ("arg", "millis_to_seconds", 0, 0), [], "num", {"nat": True}),
    # D27 repair: async_unregister_service builds the goodbye packet itself, at call time (the task re-sends it), instead of letting
    # the task read the ServiceInfo object again at each step (false on a tree without the repair)
    ("Register", "unregister_builds_goodbye_at_call", "_core.py", "Zeroconf.async_unregister_service", ("has_call", "self.generate_service_broadcast"),
     [], "bool", {}),
    # the registry files an info under `info.key`, the responder looks instance questions up by `name.lower()`: the key follows the name
    # through every rename (shape pins: the constructor and the `name` setter assign `self.key = name.lower()`)
    ("Register", "src_info_ctor_key", "_services/info.py", "ServiceInfo.__init__", ("assign", "self.key", 0), [], "src", {}),
    ("Register", "src_info_name_setter_key", "_services/info.py", "ServiceInfo.name@setter", ("assign", "self.key", 0), [], "src", {}),
    # D28 repair and its order: what cannot be put on the wire is refused (the dry-run `generate_service_broadcast(info, None).packets()`
    # raises) BEFORE the info reaches the registry -- a refused info in the registry would make every later goodbye raise in packets()
    ("Register", "update_encodes_before_registry", "_core.py", "Zeroconf.async_update_service", ("call_before", "generate_service_broadcast", "self.registry.async_update"),
     [], "bool", {}),
    ("Register", "register_encodes_before_registry", "_core.py", "Zeroconf.async_register_service", ("call_before", "generate_service_broadcast", "self.registry.async_add"),
     [], "bool", {}),
    # ---- the public wrappers pass their arguments on in order (shape pins on the positional arguments 2..4 of the inner call) and the
    # context managers close through the public close calls; async_unregister_service defaults a missing `server` like register / update
    ("Register", "src_sync_register_arg2", "_core.py", "Zeroconf.register_service", ("arg", "self.async_register_service", 2, 0), [], "src", {}),
    ("Register", "src_sync_register_arg3", "_core.py", "Zeroconf.register_service", ("arg", "self.async_register_service", 3, 0), [], "src", {}),
    ("Register", "src_sync_register_arg4", "_core.py", "Zeroconf.register_service", ("arg", "self.async_register_service", 4, 0), [], "src", {}),
    ("Register", "src_aio_register_arg2", "asyncio.py", "AsyncZeroconf.async_register_service", ("arg", "self.zeroconf.async_register_service", 2, 0), [], "src", {}),
    ("Register", "src_aio_register_arg3", "asyncio.py", "AsyncZeroconf.async_register_service", ("arg", "self.zeroconf.async_register_service", 3, 0), [], "src", {}),
    ("Register", "src_aio_register_arg4", "asyncio.py", "AsyncZeroconf.async_register_service", ("arg", "self.zeroconf.async_register_service", 4, 0), [], "src", {}),
    ("Register", "aexit_calls_async_close", "asyncio.py", "AsyncZeroconf.__aexit__", ("has_call", "self.async_close"), [], "bool", {}),
    ("Register", "exit_calls_close", "_core.py", "Zeroconf.__exit__", ("has_call", "self.close"), [], "bool", {}),
    ("Register", "unregister_sets_server", "_core.py", "Zeroconf.async_unregister_service", ("has_call", "info.set_server_if_missing"), [], "bool", {}),
    # the registry is keyed by name: removal is by key, never by object identity (an equal-but-distinct ServiceInfo, or the
    # handle from before update_service, withdraws the service)
    ("Register", "registry_remove_by_identity", "_services/registry.py", "ServiceRegistry.async_remove", ("has_identity_test",),
     [], "bool", {}),
    ("Register", "registry_remove_inner_by_identity", "_services/registry.py", "ServiceRegistry._remove", ("has_identity_test",),
     [], "bool", {}),
    ("Register", "registry_has_entries", "_services/registry.py", "ServiceRegistry._remove", ("assign", "self.has_entries", 0),
     [P("self._services", "n_services")], "bool", {"nat": True}),
]
