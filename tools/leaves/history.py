"""leaf registry: _history.py and the request loop of _services/info.py (C13) -- see tools/gen_lean.py for the format"""
P = lambda src, name, ty="num": (src, name, ty)

_I = "_services/info.py"

LEAVES = [
    # now - than > _DUPLICATE_QUESTION_INTERVAL  -> the earlier sighting is too old to suppress
    ("History", "too_old", "_history.py", "QuestionHistory.suppresses", ("if", "now - than", 0),
     [P("now", "now"), P("than", "than")], "bool", {}),
    ("History", "expire_old", "_history.py", "QuestionHistory.async_expire", ("if", "now - than", 0),
     [P("now", "now"), P("than", "than")], "bool", {}),
    # ServiceInfo.async_request loop
    ("LookupLoop", "timed_out", _I, "ServiceInfo.async_request", ("if", "last", "now", 0),
     [P("last", "last"), P("now", "now")], "bool", {}),
    ("LookupLoop", "query_due", _I, "ServiceInfo.async_request", ("if", "next_", "now", 0),
     [P("next_", "next_"), P("now", "now")], "bool", {}),
    ("LookupLoop", "next_base", _I, "ServiceInfo.async_request", ("assign", "next_", 1),
     [P("now", "now"), P("delay", "delay")], "num", {}),
    ("LookupLoop", "delay_bump", _I, "ServiceInfo.async_request", ("if", "delay", "_DUPLICATE_QUESTION_INTERVAL", 0),
     [P("this_question_type is QM_QUESTION", "is_qm", "bool"), P("delay", "delay")], "bool", {}),
    ("LookupLoop", "last_time", _I, "ServiceInfo.async_request", ("assign", "last", 0),
     [P("now", "now"), P("timeout", "timeout")], "num", {}),
    # the time handed to DNSOutgoing.add_answer_at_time for a known answer (0 would put the full TTL on the wire)
    ("QueryTtl", "lookup_answer_time", _I, "ServiceInfo._add_question_with_known_answers", ("arg", "add_answer_at_time", 1, 0),
     [P("now", "now")], "num", {}),
    ("QueryTtl", "bucket_answer_time", "_services/browser.py", "_DNSPointerOutgoingBucket.add", ("arg", "add_answer_at_time", 1, 0),
     [P("self.now_millis", "now_millis")], "num", {}),
    ("QueryTtl", "bucket_now_field", "_services/browser.py", "_DNSPointerOutgoingBucket.__init__", ("assign", "self.now_millis", 0),
     [P("now_millis", "now_millis")], "num", {}),
    ("QueryTtl", "bucket_ctor_time", "_services/browser.py", "_group_ptr_queries_with_known_answers", ("arg", "_DNSPointerOutgoingBucket", 0, 0),
     [P("now_millis", "now_millis")], "num", {}),
    ("QueryTtl", "group_call_time", "_services/browser.py", "generate_service_query", ("arg", "_group_ptr_queries_with_known_answers", 0, 0),
     [P("now_millis", "now_millis")], "num", {}),
    # the 10 s clean-up tick expires the question history at the current time (it must not clear it)
    ("History", "cleanup_expire_time", "_engine.py", "AsyncEngine._async_cache_cleanup", ("arg", "question_history.async_expire", 0, 0),
     [P("now", "now")], "num", {}),
]

# the browser's call of generate_service_query (review r2 E6): the clock it hands over and the question type it asks with
#   question_type = QU_QUESTION if self._question_type is None and first_request else self._question_type     (0 = None)
LEAVES += [
    ("BrowserQuery", "question_type", "_services/browser.py", "QueryScheduler.async_send_ready_queries", ("assign", "question_type", 0),
     [P("self._question_type is None", "unforced", "bool"), P("first_request", "first_request", "bool"), P("QU_QUESTION", "qu"),
      P("self._question_type", "forced")], "num", {"nat": True}),
    ("BrowserQuery", "query_time", "_services/browser.py", "QueryScheduler.async_send_ready_queries", ("arg", "generate_service_query", 1, 0),
     [P("now_millis", "now_millis")], "num", {}),
    # the time a heard question is remembered with (review r3 m7): `now = msg.now` -- the arrival time of the last packet of the
    # assembled query, not the clock at processing time (a deferred truncated query is processed 400-500 ms after it arrived) -- and that
    # `now` is what `add_question_at_time` gets
    ("BrowserQuery", "heard_stamp", "_handlers/query_handler.py", "QueryHandler.async_response", ("assign", "now", 0),
     [P("msg.now", "msg_now")], "num", {}),
    ("BrowserQuery", "heard_stamp_arg", "_handlers/query_handler.py", "QueryHandler.async_response", ("arg", "add_question_at_time", 1, 0),
     [P("now", "now")], "num", {}),
    ("BrowserQuery", "query_type_arg", "_services/browser.py", "QueryScheduler.async_send_ready_queries", ("arg", "generate_service_query", 4, 0),
     [P("question_type", "question_type")], "num", {"nat": True}),
]
