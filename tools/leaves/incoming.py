"""leaf registry: _protocol/incoming.py and the listener's size guard (C02, C15)

Every leaf is a Nat leaf (bytes, offsets, lengths).  `optional` leaves translate to the constant
`false` when the test is absent from the tree: they are the two decoder-level repairs (D2 hop
bound, D8/D8b label re-encoding test); the model follows the source either way and the GenFacts
lemma about the hop bound only builds once the test exists.
"""
P = lambda src, name, ty="num": (src, name, ty)
F = "_protocol/incoming.py"
N = {"nat": True}
DEC = "DNSIncoming._decode_labels_at_offset"

LEAVES = [
    # ---- _decode_labels_at_offset: byte classification
    ("Incoming", "in_packet", F, DEC, ("if", "off", "self._data_len", 0),
     [P("off", "off"), P("self._data_len", "data_len")], "bool", N),
    ("Incoming", "is_end", F, DEC, ("if", "length", 0), [P("length", "length")], "bool", N),
    ("Incoming", "is_label", F, DEC, ("if", "length", 1), [P("length", "length")], "bool", N),
    ("Incoming", "is_unknown", F, DEC, ("if", "length", 2), [P("length", "length")], "bool", N),
    ("Incoming", "label_idx", F, DEC, ("assign", "label_idx", 0), [P("off", "off")], "num", N),
    ("Incoming", "label_end", F, DEC, ("slice_upper", "self.data", 0),
     [P("label_idx", "label_idx"), P("length", "length")], "num", N),
    ("Incoming", "label_advance", F, DEC, ("aug", "off", 0), [P("length", "length")], "num", N),
    # ---- pointers
    ("Incoming", "link", F, DEC, ("assign", "link", 0), [P("length", "length"), P("link_data", "link_data")], "num", N),
    ("Incoming", "link_beyond", F, DEC, ("if", "link", "self._data_len", 0),
     [P("link", "link"), P("self._data_len", "data_len")], "bool", N),
    ("Incoming", "link_self", F, DEC, ("if", "link", "off", 0), [P("link", "link"), P("off", "off")], "bool", N),
    ("Incoming", "too_many_labels", F, DEC, ("if", "len(labels)", 0), [P("len(labels)", "n")], "bool", N),
    ("Incoming", "hop_limit_reached", F, DEC, ("if", "len(seen_pointers)", 0),
     [P("len(seen_pointers)", "n")], "bool", {"nat": True, "optional": True}),
    ("Incoming", "label_unencodable", F, DEC, ("if", "isascii", 0),
     [P("label.isascii()", "ascii", "bool"), P("len(label.encode('utf-8'))", "enclen")], "bool",
     {"nat": True, "optional": True}),
    # ---- _read_name
    ("Incoming", "name_too_long", F, "DNSIncoming._read_name", ("if", "len(name)", 0), [P("len(name)", "n")], "bool", N),
    # ---- header: 6 big-endian shorts at fixed indices (the index is part of the parameter text)
    ("Incoming", "hdr_len", F, "DNSIncoming._read_header", ("aug", "self.offset", 0), [], "num", N),
    ("Incoming", "hdr_id", F, "DNSIncoming._read_header", ("assign", "self.id", 0),
     [P("view[offset]", "b0"), P("view[offset + 1]", "b1")], "num", N),
    ("Incoming", "hdr_flags", F, "DNSIncoming._read_header", ("assign", "self.flags", 0),
     [P("view[offset + 2]", "b2"), P("view[offset + 3]", "b3")], "num", N),
    ("Incoming", "hdr_nq", F, "DNSIncoming._read_header", ("assign", "self._num_questions", 0),
     [P("view[offset + 4]", "b4"), P("view[offset + 5]", "b5")], "num", N),
    ("Incoming", "hdr_nan", F, "DNSIncoming._read_header", ("assign", "self._num_answers", 0),
     [P("view[offset + 6]", "b6"), P("view[offset + 7]", "b7")], "num", N),
    ("Incoming", "hdr_nau", F, "DNSIncoming._read_header", ("assign", "self._num_authorities", 0),
     [P("view[offset + 8]", "b8"), P("view[offset + 9]", "b9")], "num", N),
    ("Incoming", "hdr_nad", F, "DNSIncoming._read_header", ("assign", "self._num_additionals", 0),
     [P("view[offset + 10]", "b10"), P("view[offset + 11]", "b11")], "num", N),
    ("Incoming", "eager_others", F, "DNSIncoming._initial_parse", ("if", "self._num_questions", 0),
     [P("self._num_questions", "nq")], "bool", N),
    # ---- loop bounds of the two section loops
    ("Incoming", "q_loop_count", F, "DNSIncoming._read_questions", ("for_range", 0), [P("self._num_questions", "nq")], "num", N),
    ("Incoming", "r_loop_count", F, "DNSIncoming._read_others", ("for_range", 0), [P("n", "n")], "num", N),
    # ---- questions
    ("Incoming", "q_len", F, "DNSIncoming._read_questions", ("aug", "self.offset", 0), [], "num", N),
    ("Incoming", "q_type", F, "DNSIncoming._read_questions", ("assign", "type_", 0),
     [P("view[offset]", "b0"), P("view[offset + 1]", "b1")], "num", N),
    ("Incoming", "q_class", F, "DNSIncoming._read_questions", ("assign", "class_", 0),
     [P("view[offset + 2]", "b2"), P("view[offset + 3]", "b3")], "num", N),
    # ---- records
    ("Incoming", "others_count", F, "DNSIncoming._read_others", ("assign", "n", 0),
     [P("self._num_answers", "nan"), P("self._num_authorities", "nau"), P("self._num_additionals", "nad")], "num", N),
    ("Incoming", "r_len", F, "DNSIncoming._read_others", ("aug", "self.offset", 0), [], "num", N),
    ("Incoming", "r_type", F, "DNSIncoming._read_others", ("assign", "type_", 0),
     [P("view[offset]", "b0"), P("view[offset + 1]", "b1")], "num", N),
    ("Incoming", "r_class", F, "DNSIncoming._read_others", ("assign", "class_", 0),
     [P("view[offset + 2]", "b2"), P("view[offset + 3]", "b3")], "num", N),
    ("Incoming", "r_ttl", F, "DNSIncoming._read_others", ("assign", "ttl", 0),
     [P("view[offset + 4]", "b4"), P("view[offset + 5]", "b5"), P("view[offset + 6]", "b6"), P("view[offset + 7]", "b7")], "num", N),
    ("Incoming", "r_rdlen", F, "DNSIncoming._read_others", ("assign", "length", 0),
     [P("view[offset + 8]", "b8"), P("view[offset + 9]", "b9")], "num", N),
    ("Incoming", "r_end", F, "DNSIncoming._read_others", ("assign", "end", 0),
     [P("self.offset", "offset"), P("length", "length")], "num", N),
    # ---- _read_record: type dispatch and fixed sizes
    ("Incoming", "is_a", F, "DNSIncoming._read_record", ("if_exact", "type_ == _TYPE_A"), [P("type_", "t")], "bool", N),
    ("Incoming", "is_ptr", F, "DNSIncoming._read_record", ("if_exact", "type_ in (_TYPE_CNAME, _TYPE_PTR)"), [P("type_", "t")], "bool", N),
    ("Incoming", "is_txt", F, "DNSIncoming._read_record", ("if_exact", "type_ == _TYPE_TXT"), [P("type_", "t")], "bool", N),
    ("Incoming", "is_srv", F, "DNSIncoming._read_record", ("if_exact", "type_ == _TYPE_SRV"), [P("type_", "t")], "bool", N),
    ("Incoming", "is_hinfo", F, "DNSIncoming._read_record", ("if_exact", "type_ == _TYPE_HINFO"), [P("type_", "t")], "bool", N),
    ("Incoming", "is_aaaa", F, "DNSIncoming._read_record", ("if_exact", "type_ == _TYPE_AAAA"), [P("type_", "t")], "bool", N),
    ("Incoming", "is_nsec", F, "DNSIncoming._read_record", ("if_exact", "type_ == _TYPE_NSEC"), [P("type_", "t")], "bool", N),
    ("Incoming", "a_len", F, "DNSIncoming._read_record", ("arg", "self._read_string", 0, 0), [], "num", N),
    ("Incoming", "txt_len", F, "DNSIncoming._read_record", ("arg", "self._read_string", 0, 1), [P("length", "length")], "num", N),
    ("Incoming", "aaaa_len", F, "DNSIncoming._read_record", ("arg", "self._read_string", 0, 2), [], "num", N),
    ("Incoming", "srv_len", F, "DNSIncoming._read_record", ("aug", "self.offset", 0), [], "num", N),
    ("Incoming", "srv_priority", F, "DNSIncoming._read_record", ("assign", "priority", 0),
     [P("view[offset]", "b0"), P("view[offset + 1]", "b1")], "num", N),
    ("Incoming", "srv_weight", F, "DNSIncoming._read_record", ("assign", "weight", 0),
     [P("view[offset + 2]", "b2"), P("view[offset + 3]", "b3")], "num", N),
    ("Incoming", "srv_port", F, "DNSIncoming._read_record", ("assign", "port", 0),
     [P("view[offset + 4]", "b4"), P("view[offset + 5]", "b5")], "num", N),
    ("Incoming", "nsec_end", F, "DNSIncoming._read_record", ("arg", "self._read_bitmap", 0, 0),
     [P("name_start", "name_start"), P("length", "length")], "num", N),
    ("Incoming", "skip_unknown", F, "DNSIncoming._read_record", ("aug", "self.offset", 1), [P("length", "length")], "num", N),
    # ---- _read_bitmap
    ("Incoming", "bitmap_more", F, "DNSIncoming._read_bitmap", ("if", "self.offset", "end", 0),
     [P("self.offset", "offset"), P("end", "end_")], "bool", N),
    ("Incoming", "bitmap_end", F, "DNSIncoming._read_bitmap", ("assign", "bitmap_end", 0),
     [P("offset_plus_two", "offset_plus_two"), P("bitmap_length", "bitmap_length")], "num", N),
    ("Incoming", "bitmap_bit_set", F, "DNSIncoming._read_bitmap", ("if", "byte &", 0),
     [P("byte", "byte"), P("bit", "bit")], "bool", N),
    ("Incoming", "bitmap_rdtype", F, "DNSIncoming._read_bitmap", ("arg", "rdtypes.append", 0, 0),
     [P("bit", "bit"), P("window", "window"), P("i", "i")], "num", N),
    ("Incoming", "bitmap_advance", F, "DNSIncoming._read_bitmap", ("aug", "self.offset", 0),
     [P("bitmap_length", "bitmap_length")], "num", N),
    ("Incoming", "str_end", F, "DNSIncoming._read_string", ("slice_upper", "self.data", 0),
     [P("self.offset", "offset"), P("length", "length")], "num", N),
    # ---- character strings (HINFO)
    ("Incoming", "cstr_end", F, "DNSIncoming._read_character_string", ("slice_upper", "self.data", 0),
     [P("self.offset", "offset"), P("length", "length")], "num", N),
    # ---- _listener.py: the size guard in front of the decoder
    ("Incoming", "oversize", "_listener.py", "AsyncListener.datagram_received", ("if", "data_len", "_MAX_MSG_ABSOLUTE", 0),
     [P("data_len", "data_len")], "bool", N),
]
