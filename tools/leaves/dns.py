"""leaf registry: _dns.py (see tools/gen_lean.py for the format)"""
P = lambda src, name, ty="num": (src, name, ty)

LEAVES = [
    # ---- _dns.py
    ("Dns", "is_expired", "_dns.py", "DNSRecord.is_expired", ("ret",),
     [P("self.created", "created"), P("self.ttl", "ttl"), P("now", "now")], "bool", {}),
    ("Dns", "is_stale", "_dns.py", "DNSRecord.is_stale", ("ret",),
     [P("self.created", "created"), P("self.ttl", "ttl"), P("now", "now")], "bool", {}),
    ("Dns", "is_recent", "_dns.py", "DNSRecord.is_recent", ("ret",),
     [P("self.created", "created"), P("self.ttl", "ttl"), P("now", "now")], "bool", {}),
    ("Dns", "get_expiration_time", "_dns.py", "DNSRecord.get_expiration_time", ("ret",),
     [P("self.created", "created"), P("self.ttl", "ttl"), P("percent", "percent")], "num", {}),
    ("Dns", "get_remaining_ttl", "_dns.py", "DNSRecord.get_remaining_ttl", ("inline",),
     [P("self.created", "created"), P("self.ttl", "ttl"), P("now", "now")], "num", {"floor": True}),
    # other.ttl > self.ttl / 2   (the `self == other` conjunct is the identity test, modelled by C20)
    ("Dns", "suppressed_by_answer_ttl", "_dns.py", "DNSRecord._suppressed_by_answer", ("ret_conj", "ttl"),
     [P("self.ttl", "ttl"), P("other.ttl", "other_ttl")], "bool", {}),
    ("Dns", "rrset_suppresses_ttl", "_dns.py", "DNSRRSet.suppresses", ("last_ret",),
     [P("record.ttl", "ttl"), P("other.ttl", "other_ttl")], "bool", {}),
    ("Dns", "class_of", "_dns.py", "DNSEntry._set_class", ("assign", "self.class_", 0),
     [P("class_", "class_")], "num", {"nat": True}),
    ("Dns", "unique_of", "_dns.py", "DNSEntry._set_class", ("assign", "self.unique", 0),
     [P("class_", "class_")], "bool", {"nat": True}),
]

