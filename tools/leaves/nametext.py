"""leaf registry: the text layer of DNS names (TEXTGLUE) -- `write_name` / `_write_utf` of _protocol/outgoing.py and
`_read_name` / `_decode_labels_at_offset` of _protocol/incoming.py.

The statements below are hand-modelled in lean/Zc/Model/NameText.lean (`stripTrailingDot`, `splitDot`, `joinDot`,
`encodeText`, `decodeLabel`, `writeNameText`); they are *shape pins* (rty "src": the located expression as source text):
lean/Zc/GenFacts/NameText.lean states the expected text, so an edit (another separator, `rstrip('.')` instead of one
`[:-1]`, `'ignore'` instead of `'replace'`, a different suffix slice) breaks the proof stage of exactly the properties
that import `Zc.Gen.NameText` (C01, C02, C14, C15).  The one numeric leaf is the names-table offset of a suffix.
A separate Gen module, so that a change here does not touch the importers of `Gen.Outgoing` / `Gen.Incoming`.
"""
P = lambda src, name, ty="num": (src, name, ty)
O = "_protocol/outgoing.py"
I = "_protocol/incoming.py"
WN = "DNSOutgoing.write_name"

LEAVES = [
    # ---- write_name: one trailing dot is dropped, the rest is split at dots
    ("NameText", "src_strip_test", O, WN, ("if", "endswith", 0), [], "src", {}),
    ("NameText", "src_strip_value", O, WN, ("assign", "name", 0), [], "src", {}),
    ("NameText", "src_split", O, WN, ("assign", "labels", 0), [], "src", {}),
    # ---- write_name: the names table is keyed by the text of the (stripped) name and of every proper suffix
    ("NameText", "src_full_lookup", O, WN, ("assign", "index", 0), [], "src", {}),
    ("NameText", "src_full_register", O, WN, ("assign", "self.names[name]", 0), [], "src", {}),
    ("NameText", "src_loop_range", O, WN, ("for_iter", 0), [], "src", {}),
    ("NameText", "src_partial", O, WN, ("assign", "partial_name", 0), [], "src", {}),
    ("NameText", "src_partial_lookup", O, WN, ("assign", "index", 1), [], "src", {}),
    ("NameText", "src_name_length", O, WN, ("assign", "name_length", 1), [], "src", {}),
    # start_size + name_length - len(partial_name.encode('utf-8')): offset of the suffix's first length byte
    ("NameText", "suffix_offset", O, WN, ("assign", "self.names[partial_name]", 0),
     [P("start_size", "start_size"), P("name_length", "name_length"), P("len(partial_name.encode('utf-8'))", "partial_len")], "num", {}),
    # ---- _write_utf: per-label UTF-8
    ("NameText", "src_encode", O, "DNSOutgoing._write_utf", ("assign", "utfstr", 0), [], "src", {}),
    ("NameText", "src_encoded_len", O, "DNSOutgoing._write_utf", ("assign", "length", 0), [], "src", {}),
    # ---- _decode_labels_at_offset: per-label decoding with 'replace'
    ("NameText", "src_decode", I, "DNSIncoming._decode_labels_at_offset", ("assign", "label", 0), [], "src", {}),
    # ---- _read_name: join with dots, append the trailing dot, count characters
    ("NameText", "src_join", I, "DNSIncoming._read_name", ("assign", "name", 0), [], "src", {}),
    ("NameText", "src_len_test", I, "DNSIncoming._read_name", ("if", "len(name)", 0), [], "src", {}),
]
