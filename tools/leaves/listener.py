"""leaf registry: _listener.py duplicate guard, header predicates, QU/QM reply routing (C16)"""
P = lambda src, name, ty="num": (src, name, ty)

LEAVES = [
    # ---- _listener.py: the two guards in front of everything
    ("Listener", "oversize", "_listener.py", "AsyncListener.datagram_received", ("if", "data_len", "_MAX_MSG_ABSOLUTE", 0),
     [P("data_len", "data_len")], "bool", {}),
    # the whole duplicate guard, one leaf: dropping or altering a conjunct changes this definition.
    # `last_query` is only mentioned by the repaired guard (fix D11c: the QU exemption applies to queries only);
    # on the unrepaired tree the parameter is unused and GenFacts.Listener.dup_guard_iff fails.
    ("Listener", "dup_guard", "_listener.py", "AsyncListener._process_datagram_at_time", ("if", "self.data == data", 0),
     [P("self.data == data", "same_data", "bool"), P("now", "now"), P("self.last_time", "last_time"),
      P("self.last_message is None", "last_none", "bool"), P("self.last_message.is_query()", "last_query", "bool"),
      P("self.last_message.has_qu_question()", "last_qu", "bool")], "bool", {}),
    # the scan of the packets already deferred for the address ("if we get the same packet we ignore it"): equality of the
    # bytes, not identity -- two copies of a datagram are two objects (`is` fails the translation: unregistered name)
    ("Listener", "deferred_same_packet", "_listener.py", "AsyncListener.handle_query_or_defer", ("if", "incoming.data", 0),
     [P("incoming.data == msg.data", "same_data", "bool")], "bool", {}),
    # ---- _protocol/incoming.py: header predicates the listener branches on
    ("Listener", "is_query", "_protocol/incoming.py", "DNSIncoming.is_query", ("ret",),
     [P("self.flags", "flags")], "bool", {"nat": True}),
    ("Listener", "truncated", "_protocol/incoming.py", "DNSIncoming.truncated", ("ret",),
     [P("self.flags", "flags")], "bool", {"nat": True}),
    ("Listener", "is_probe", "_protocol/incoming.py", "DNSIncoming.is_probe", ("ret",),
     [P("self._num_authorities", "num_authorities")], "bool", {"nat": True}),
    # ---- _handlers/query_handler.py: routing of answers (what the second copy of a QU query does)
    ("Listener", "ucast_source", "_handlers/query_handler.py", "QueryHandler.handle_assembled_query", ("assign", "ucast_source", 0),
     [P("port", "port")], "bool", {"nat": True}),
    ("Listener", "mcast_within_quarter_ttl", "_handlers/query_handler.py", "_QueryResponse._has_mcast_within_one_quarter_ttl", ("last_ret",),
     [P("maybe_entry is None", "entry_none", "bool"), P("maybe_entry.is_recent(self._now)", "entry_recent", "bool")], "bool", {}),
    ("Listener", "mcast_in_last_second", "_handlers/query_handler.py", "_QueryResponse._has_mcast_record_in_last_second", ("last_ret",),
     [P("maybe_entry is None", "entry_none", "bool"), P("self._now", "now"), P("maybe_entry.created", "created")], "bool", {}),
    ("Listener", "single_question", "_handlers/query_handler.py", "_QueryResponse.add_mcast_question_response", ("if", "len(self._questions)", 0),
     [P("len(self._questions)", "n_questions")], "bool", {"nat": True}),
    ("Listener", "respond_immediate_type", "_handlers/query_handler.py", "_QueryResponse.add_mcast_question_response", ("if", "_RESPOND_IMMEDIATE_TYPES", 0),
     [P("question.type", "qtype")], "bool", {"nat": True}),
]
