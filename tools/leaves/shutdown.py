"""leaf registry: the gates that make shutdown quiet (C17): _core.py, _services/browser.py"""
P = lambda src, name, ty="num": (src, name, ty)

LEAVES = [
    # `if self.done: return` at the top of Zeroconf.async_send -- every transmission goes through it
    ("Shutdown", "send_blocked", "_core.py", "Zeroconf.async_send", ("if", "self.done", 0),
     [P("self.done", "done", "bool")], "bool", {}),
    # the two scheduler passes stop (and do not re-arm) once the instance is done
    ("Shutdown", "startup_pass_blocked", "_services/browser.py", "QueryScheduler._process_startup_queries", ("if", "self._zc.done", 0),
     [P("self._zc.done", "done", "bool")], "bool", {}),
    ("Shutdown", "ready_pass_blocked", "_services/browser.py", "QueryScheduler._process_ready_types", ("if", "self._zc.done", 0),
     [P("self._zc.done", "done", "bool")], "bool", {}),
    # Zeroconf._close is a no-op the second time
    ("Shutdown", "close_skipped", "_core.py", "Zeroconf._close", ("if", "self.done", 0),
     [P("self.done", "done", "bool")], "bool", {}),
    # AsyncZeroconf.async_close waits for start-up only when not already done
    ("Shutdown", "close_waits_for_start", "asyncio.py", "AsyncZeroconf.async_close", ("if", "self.zeroconf.done", 0),
     [P("self.zeroconf.done", "done", "bool")], "bool", {}),
    # ... and that wait swallows both its own timeout and the NotRunningException of a close that was overtaken by another
    # one during start-up (fix 25230c1, D17): membership of the `contextlib.suppress(...)` argument tuple
    ("Shutdown", "close_wait_suppresses_timeout", "asyncio.py", "AsyncZeroconf.async_close", ("call_has_arg", "contextlib.suppress", "asyncio.TimeoutError", 0),
     [], "bool", {}),
    ("Shutdown", "close_wait_suppresses_not_running", "asyncio.py", "AsyncZeroconf.async_close", ("call_has_arg", "contextlib.suppress", "NotRunningException", 0),
     [], "bool", {}),
    # async_wait_for_start raises NotRunningException at once when done
    ("Shutdown", "wait_for_start_raises", "_core.py", "Zeroconf.async_wait_for_start", ("if", "self.done", 0),
     [P("self.done", "done", "bool")], "bool", {}),
    # ... and again after the wait: the event was cleared (another close shut the engine down) or the instance is done
    ("Shutdown", "wait_for_start_raises_after", "_core.py", "Zeroconf.async_wait_for_start", ("if", "running_event.is_set()", 0),
     [P("self.engine.running_event.is_set()", "is_set", "bool"), P("self.done", "done", "bool")], "bool", {}),
    # ---- what the close path cancels / closes / leaves alone (statement-level facts, as boolean constants)
    ("Shutdown", "engine_close_cancels_cleanup", "_engine.py", "AsyncEngine._async_close", ("has_call", "self._cleanup_timer.cancel"), [], "bool", {}),
    ("Shutdown", "shutdown_closes_transports", "_engine.py", "AsyncEngine._async_shutdown", ("has_call", "transport.close"), [], "bool", {}),
    ("Shutdown", "shutdown_aborts_transports", "_engine.py", "AsyncEngine._async_shutdown", ("has_call", "transport.abort"), [], "bool", {}),
    ("Shutdown", "close_cancels_tracked_browsers", "asyncio.py", "AsyncZeroconf.async_close", ("has_call", "async_remove_all_service_listeners"), [], "bool", {}),
    ("Shutdown", "browser_cancel_stops_scheduler", "_services/browser.py", "_ServiceBrowserBase._async_cancel", ("has_call", "query_scheduler.stop"), [], "bool", {}),
    ("Shutdown", "browser_cancel_removes_listener", "_services/browser.py", "_ServiceBrowserBase._async_cancel", ("has_call", "async_remove_listener"), [], "bool", {}),
    ("Shutdown", "scheduler_stop_cancels_timer", "_services/browser.py", "QueryScheduler.stop", ("has_call", "_next_run.cancel"), [], "bool", {}),
    # transport.close() schedules protocol.connection_lost: it must not touch `_deferred` / `_timers` (it does nothing at all)
    ("Shutdown", "connection_lost_is_noop", "_listener.py", "AsyncListener.connection_lost", ("body_empty",), [], "bool", {}),
    # Zeroconf.close(): the goodbyes are skipped only when the caller is on the instance's *own* loop
    ("Shutdown", "sync_close_skips_goodbyes", "_core.py", "Zeroconf.close", ("if", "get_running_loop()", 0),
     [P("self.loop == get_running_loop()", "on_own_loop", "bool")], "bool", {}),
    ("Shutdown", "started", "_core.py", "Zeroconf.started", ("ret",),
     [P("self.done", "done", "bool"), P("self.engine.running_event", "has_event", "bool"),
      P("self.engine.running_event.is_set()", "is_set", "bool")], "bool", {}),
]
