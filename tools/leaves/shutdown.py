"""leaf registry: the gates that make shutdown quiet (C17): _core.py, _services/browser.py"""
P = lambda src, name, ty="num": (src, name, ty)

LEAVES = [
    # `if self.done: return` at the top of Zeroconf.async_send -- every transmission goes through it
    ("Shutdown", "send_blocked", "_core.py", "Zeroconf.async_send", ("if", "self.done", 0),
     [P("self.done", "done", "bool")], "bool", {}),
    # the two scheduler passes stop (and do not re-arm) once the instance is done
    ("Shutdown", "startup_pass_blocked", "_services/browser.py", "QueryScheduler._process_startup_queries", ("if", "self._zc.done", 0),
     [P("self._zc.done", "done", "bool")], "bool", {}),
    ("Shutdown", "ready_pass_blocked", "_services/browser.py", "QueryScheduler._process_ready_types", ("if", "self._zc.done", 0),
     [P("self._zc.done", "done", "bool")], "bool", {}),
    # Zeroconf._close is a no-op the second time
    ("Shutdown", "close_skipped", "_core.py", "Zeroconf._close", ("if", "self.done", 0),
     [P("self.done", "done", "bool")], "bool", {}),
    # AsyncZeroconf.async_close waits for start-up only when not already done
    ("Shutdown", "close_waits_for_start", "asyncio.py", "AsyncZeroconf.async_close", ("if", "self.zeroconf.done", 0),
     [P("self.zeroconf.done", "done", "bool")], "bool", {}),
    # ... and that wait swallows both its own timeout and the NotRunningException of a close that was overtaken by another
    # one during start-up (fix 25230c1, D17): membership of the `contextlib.suppress(...)` argument tuple
    ("Shutdown", "close_wait_suppresses_timeout", "asyncio.py", "AsyncZeroconf.async_close", ("call_has_arg", "contextlib.suppress", "asyncio.TimeoutError", 0),
     [], "bool", {}),
    ("Shutdown", "close_wait_suppresses_not_running", "asyncio.py", "AsyncZeroconf.async_close", ("call_has_arg", "contextlib.suppress", "NotRunningException", 0),
     [], "bool", {}),
    # async_wait_for_start raises NotRunningException at once when done
    ("Shutdown", "wait_for_start_raises", "_core.py", "Zeroconf.async_wait_for_start", ("if", "self.done", 0),
     [P("self.done", "done", "bool")], "bool", {}),
    # ... and again after the wait: the event was cleared (another close shut the engine down) or the instance is done
    ("Shutdown", "wait_for_start_raises_after", "_core.py", "Zeroconf.async_wait_for_start", ("if", "running_event.is_set()", 0),
     [P("self.engine.running_event.is_set()", "is_set", "bool"), P("self.done", "done", "bool")], "bool", {}),
    # ---- what the close path cancels / closes / leaves alone (statement-level facts, as boolean constants)
    ("Shutdown", "engine_close_cancels_cleanup", "_engine.py", "AsyncEngine._async_close", ("has_call", "self._cleanup_timer.cancel"), [], "bool", {}),
    ("Shutdown", "shutdown_closes_transports", "_engine.py", "AsyncEngine._async_shutdown", ("has_call", "transport.close"), [], "bool", {}),
    ("Shutdown", "shutdown_aborts_transports", "_engine.py", "AsyncEngine._async_shutdown", ("has_call", "transport.abort"), [], "bool", {}),
    ("Shutdown", "close_cancels_tracked_browsers", "asyncio.py", "AsyncZeroconf.async_close", ("has_call", "async_remove_all_service_listeners"), [], "bool", {}),
    ("Shutdown", "browser_cancel_stops_scheduler", "_services/browser.py", "_ServiceBrowserBase._async_cancel", ("has_call", "query_scheduler.stop"), [], "bool", {}),
    ("Shutdown", "browser_cancel_removes_listener", "_services/browser.py", "_ServiceBrowserBase._async_cancel", ("has_call", "async_remove_listener"), [], "bool", {}),
    ("Shutdown", "scheduler_stop_cancels_timer", "_services/browser.py", "QueryScheduler.stop", ("has_call", "_next_run.cancel"), [], "bool", {}),
    # transport.close() schedules protocol.connection_lost: it must not touch `_deferred` / `_timers` (it does nothing at all)
    ("Shutdown", "connection_lost_is_noop", "_listener.py", "AsyncListener.connection_lost", ("body_empty",), [], "bool", {}),
    # Zeroconf.close(): the goodbyes are skipped only when the caller is on the instance's *own* loop
    ("Shutdown", "sync_close_skips_goodbyes", "_core.py", "Zeroconf.close", ("if", "get_running_loop()", 0),
     [P("self.loop == get_running_loop()", "on_own_loop", "bool")], "bool", {}),
    # ---- the sync path: Zeroconf.close() from a non-loop thread = unregister_all_services(); _close(); engine.close();
    # _shutdown_threads() -- the order of the four calls and every branch they take
    ("Shutdown", "sync_close_unregisters_if_loop_running", "_core.py", "Zeroconf.close", ("if", "self.loop.is_running()", 0),
     [P("self.loop.is_running()", "loop_running", "bool")], "bool", {}),
    ("Shutdown", "sync_close_unregisters_before_done", "_core.py", "Zeroconf.close", ("call_before", "self.unregister_all_services", "self._close"), [], "bool", {}),
    ("Shutdown", "sync_close_done_before_engine_close", "_core.py", "Zeroconf.close", ("call_before", "self._close", "self.engine.close"), [], "bool", {}),
    ("Shutdown", "sync_close_engine_close_before_threads", "_core.py", "Zeroconf.close", ("call_before", "self.engine.close", "self._shutdown_threads"), [], "bool", {}),
    # Zeroconf._close(): cancels (and, for the thread-based ServiceBrowser, joins) every browser in Zeroconf.browsers
    ("Shutdown", "close_removes_service_listeners", "_core.py", "Zeroconf._close", ("has_call", "self.remove_all_service_listeners"), [], "bool", {}),
    ("Shutdown", "close_sets_done", "_core.py", "Zeroconf._close", ("has_stmt", "self.done = True"), [], "bool", {}),
    ("Shutdown", "remove_listener_cancels", "_core.py", "Zeroconf.remove_service_listener", ("has_call", "].cancel"), [], "bool", {}),
    ("Shutdown", "remove_listener_forgets", "_core.py", "Zeroconf.remove_service_listener", ("has_stmt", "del self.browsers[listener]"), [], "bool", {}),
    # ServiceBrowser.cancel() (the thread-based browser): sentinel into the queue, _async_cancel on the loop, join the thread
    ("Shutdown", "thread_cancel_signals", "_services/browser.py", "ServiceBrowser.cancel", ("call_has_arg", "self.queue.put", "None", 0), [], "bool", {}),
    ("Shutdown", "thread_cancel_schedules_async_cancel", "_services/browser.py", "ServiceBrowser.cancel",
     ("call_has_arg", "call_soon_threadsafe", "self._async_cancel", 0), [], "bool", {}),
    ("Shutdown", "thread_cancel_joins", "_services/browser.py", "ServiceBrowser.cancel", ("has_call", "self.join"), [], "bool", {}),
    # ... whoever the caller is: no `threading.current_thread() is self` test (finding D30: cancelled from its own callback
    # thread it raises RuntimeError("cannot join current thread"))
    ("Shutdown", "thread_cancel_guards_self_join", "_services/browser.py", "ServiceBrowser.cancel", ("has_identity_test",), [], "bool", {}),
    # ServiceBrowser.run(): the thread stops at the sentinel only -- neither the browser's nor the instance's `done` is
    # looked at (finding D31: an untracked browser keeps delivering what is queued after close() returned)
    ("Shutdown", "thread_run_stops", "_services/browser.py", "ServiceBrowser.run", ("if", "event is None", 0),
     [P("event is None", "sentinel", "bool"), P("self.zc.done", "zc_done", "bool"), P("self.done", "browser_done", "bool")], "bool", {}),
    # AsyncEngine.close(): three-way branch -- on the instance's own loop only `_async_shutdown()`; loop not running: nothing;
    # otherwise `_async_close()` is run on the loop **and waited for** (transports closed, cleanup timer cancelled on return)
    ("Shutdown", "engine_close_on_own_loop", "_engine.py", "AsyncEngine.close", ("if", "get_running_loop()", 0),
     [P("get_running_loop() == self.loop", "on_own_loop", "bool")], "bool", {}),
    ("Shutdown", "engine_close_skipped", "_engine.py", "AsyncEngine.close", ("if", "self.loop.is_running()", 0),
     [P("self.loop.is_running()", "loop_running", "bool")], "bool", {}),
    ("Shutdown", "engine_close_awaits_async_close", "_engine.py", "AsyncEngine.close",
     ("call_has_arg", "run_coro_with_timeout", "self._async_close()", 0), [], "bool", {}),
    ("Shutdown", "engine_async_close_shuts_down", "_engine.py", "AsyncEngine._async_close", ("has_call", "self._async_shutdown"), [], "bool", {}),
    ("Shutdown", "engine_shutdown_clears_running", "_engine.py", "AsyncEngine._async_shutdown", ("has_call", "running_event.clear"), [], "bool", {}),
    # Zeroconf._async_close(): _close(); await engine._async_close(); _shutdown_threads()
    ("Shutdown", "async_close_sets_done_first", "_core.py", "Zeroconf._async_close", ("call_before", "self._close", "engine._async_close"), [], "bool", {}),
    # Zeroconf._shutdown_threads(): nothing without a loop thread; otherwise stop the loop, join the thread, forget it
    ("Shutdown", "shutdown_threads_skipped", "_core.py", "Zeroconf._shutdown_threads", ("if", "self._loop_thread", 0),
     [P("self._loop_thread", "has_thread", "bool")], "bool", {}),
    ("Shutdown", "shutdown_threads_stops_loop", "_core.py", "Zeroconf._shutdown_threads", ("call_before", "shutdown_loop", "_loop_thread.join"), [], "bool", {}),
    ("Shutdown", "shutdown_threads_forgets_thread", "_core.py", "Zeroconf._shutdown_threads", ("has_stmt", "self._loop_thread = None"), [], "bool", {}),
    # ---- the timeout handle of a task waiting in Zeroconf.async_wait / ServiceInfo.async_wait (`wait_for_future_set_or_timeout`): it
    # outlives a close by one loop iteration (the close's last step resolves the future through `async_notify_all`, the task cancels the
    # handle only when it is resumed) -- both the handle and the notification go through the done-guard
    ("Shutdown", "waiter_timer_guarded", "_utils/asyncio.py", "wait_for_future_set_or_timeout",
     ("call_has_arg", "loop.call_later", "_set_future_none_if_not_done", 0), [], "bool", {}),
    ("Shutdown", "waiter_guard_sets", "_utils/asyncio.py", "_set_future_none_if_not_done", ("if", "fut.done()", 0),
     [P("fut.done()", "fut_done", "bool")], "bool", {}),
    ("Shutdown", "resolve_all_guarded", "_utils/asyncio.py", "_resolve_all_futures_to_none", ("has_call", "_set_future_none_if_not_done"), [], "bool", {}),
    ("Shutdown", "waiter_cancels_handle", "_utils/asyncio.py", "wait_for_future_set_or_timeout", ("has_call", "handle.cancel"), [], "bool", {}),
    # AsyncEngine._async_setup: after the endpoints are created -- does start-up look at `zc.done` (an instance closed meanwhile)?
    # optional: absent from the tree without the repair of finding R3-C17-a (notes/fixes/R3-C17-a.diff)
    ("Shutdown", "startup_closes_when_done", "_engine.py", "AsyncEngine._async_setup", ("if", "self.zc.done", 0),
     [P("self.zc.done", "done", "bool")], "bool", {"optional": True}),
    ("Shutdown", "started", "_core.py", "Zeroconf.started", ("ret",),
     [P("self.done", "done", "bool"), P("self.engine.running_event", "has_event", "bool"),
      P("self.engine.running_event.is_set()", "is_set", "bool")], "bool", {}),
]
