"""leaf registry: _services/browser.py QueryScheduler (C10) -- see tools/gen_lean.py for the format.

The D7 repair (fix commits cd8e981, d9cfacc) is in the tree, so its own tests (`_rearm_if_earlier`) are leaves as well."""
P = lambda src, name, ty="num": (src, name, ty)

_B = "_services/browser.py"

LEAVES = [
    # -min <= refresh - current.when <= min   (avoid churn: keep the current schedule)
    ("Browser", "reschedule_keep", _B, "QueryScheduler.reschedule_ptr_first_refresh",
     ("if", "refresh_time_millis - current.when_millis", 0),
     [P("self._min_time_between_queries_millis", "min_delay"), P("refresh_time_millis", "refresh"),
      P("current.when_millis", "cur_when")], "bool", {}),
    # ttl_millis = query.ttl * 1000
    ("Browser", "rescue_ttl_millis", _B, "QueryScheduler.schedule_rescue_query", ("assign", "ttl_millis", 0),
     [P("query.ttl", "ttl")], "num", {}),
    # next_query_time = now_millis + additional_wait
    ("Browser", "rescue_next", _B, "QueryScheduler.schedule_rescue_query", ("assign", "next_query_time", 0),
     [P("now_millis", "now"), P("additional_wait", "additional_wait")], "num", {}),
    # next_query_time >= query.expire_time_millis  -> give up
    ("Browser", "rescue_stop", _B, "QueryScheduler.schedule_rescue_query", ("if", "next_query_time", "query.expire_time_millis", 0),
     [P("next_query_time", "next_query_time"), P("query.expire_time_millis", "expire")], "bool", {}),
    # start-up
    ("Browser", "startup_first", _B, "QueryScheduler._process_startup_queries", ("arg", "async_send_ready_queries", 0, 0),
     [P("self._startup_queries_sent", "sent")], "bool", {}),
    ("Browser", "startup_done", _B, "QueryScheduler._process_startup_queries", ("if", "STARTUP_QUERIES", 0),
     [P("self._startup_queries_sent", "sent")], "bool", {}),
    # seconds
    ("Browser", "startup_backoff_s", _B, "QueryScheduler._process_startup_queries", ("arg", "call_later", 0, 0),
     [P("self._startup_queries_sent", "sent")], "num", {}),
    # ready pass
    ("Browser", "ready_not_due", _B, "QueryScheduler._process_ready_types", ("if", "query.when_millis", "end_time_millis", 0),
     [P("query.when_millis", "when"), P("end_time_millis", "end_time")], "bool", {}),
    ("Browser", "next_time", _B, "QueryScheduler._process_ready_types", ("assign", "next_time_millis", 0),
     [P("now_millis", "now"), P("self._min_time_between_queries_millis", "min_delay")], "num", {}),
    ("Browser", "next_is_scheduled", _B, "QueryScheduler._process_ready_types", ("if", "next_scheduled is not None", 0),
     [P("next_scheduled is not None", "has_next", "bool"), P("next_scheduled.when_millis", "next_when"),
      P("next_time_millis", "next_time")], "bool", {}),
    # _rearm_if_earlier (D7 repair)
    ("Browser", "rearm_guard", _B, "QueryScheduler._rearm_if_earlier", ("if", "STARTUP_QUERIES", 0),
     [P("self._next_run is None", "no_next_run", "bool"), P("self._startup_queries_sent", "sent")], "bool", {}),
    ("Browser", "rearm_when", _B, "QueryScheduler._rearm_if_earlier", ("assign", "next_when_millis", 0),
     [P("when_millis", "when"), P("self._earliest_next_run_millis", "earliest")], "num", {}),
    ("Browser", "rearm_lt", _B, "QueryScheduler._rearm_if_earlier", ("if", "next_when_millis", "_next_run_millis", 0),
     [P("next_when_millis", "next_when"), P("self._next_run_millis", "next_run")], "bool", {}),
]
