"""C16 -- back-to-back duplicate datagrams change nothing.

Stage O (metamorphic): the same traffic history is delivered to a real `Zeroconf` instance (registered
services, browsers, a lookup) under the virtual-time simulator twice -- once as is, once with *every*
datagram the instance receives (injected traffic and its own looped-back multicast) delivered twice in
immediate succession -- with identical randomness; the full send log and callback log must be equal,
except that a query containing a QU question may be answered by unicast twice.

Stage C: (1) every `datagram_received` / TC-timer block of both runs is replayed through the Lean listener
model (`c16run`): suppressed / processed / where it went / timers armed must agree; (2) every
`QueryHandler.async_response` call is replayed through the Lean routing model (`c16route`): the four
answer sets must agree; (3) the allowed-difference predicate itself is evaluated by Lean (`c16eq`) on
the implementation's logs and must agree with the Python comparison.
"""
from __future__ import annotations

import asyncio
import socket
import sys
import zlib

from . import common as C

TRACE = True
TRUSTED = [
    "virtual-time simulator (harness/vsim.py): fake transports, integer-millisecond clock, one IPv4 socket per instance",
    "DNSIncoming's decoding (C02 owns it): the listener model takes `valid` from the real parser; has_qu_question is derived from the question classes the harness reads off the wire with a walker of its own (the parser's flag only for packets the parser rejects); is_query/truncated are recomputed from the header by generated leaves",
    "the answer sets `_answer_question` returns (C03 owns them) are inputs of the routing model",
]
ASSUMPTIONS = [
    "'immediate succession' = the second copy is delivered at the same clock reading as the first, before any other block of the instance runs",
    "observable behaviour = datagrams sent (time, destination address and port, decoded content with the three record sections merged and sorted) + ServiceListener / browser-handler callbacks per listener + lookup results + loop exception handler; the number of RecordUpdateListener invocations is compared too (an internal listener interface, but doubled record-manager rounds show there first)",
    "every delivery is a fresh bytes object (equal, never identical), as every recvfrom of a socket is",
    "recorded findings D11 / D11b: deliveries in their input class are spared in the main comparison; in the run that spares nothing (made for every case) their second copy gets the local oracle (no callback, <= 1 unicast datagram, only to the querier's address and port and carrying nothing the first copy's unicast answer did not carry, multicast only of the predicted records -- compared as they go on the wire: name, type, class, flush bit, TTL, rdata -- in no more datagrams than the first copy sent, cache unchanged, no answer taken out of the multicast queues, queues unchanged unless the finding is D11b) and the run's difference from the reference is filed under the finding only if its FIRST departure has the shape the finding predicts (classify_full_difference); anything else is a fresh violation",
    "identical random seeds = every random draw is a function of (seed, virtual time, index of the draw within that instant, interval)",
]

TA = "_a._tcp.local."
TB = "_b._tcp.local."
MDNS = "224.0.0.251"
QUERIER = "10.9.9.9"
D11_SIG = "C16:qu-question-double-multicast"
D11B_SIG = "C16:qu-exempt-query-multicast-path-repeated"
OWN_QU = "own-qu-probe"   # not a finding: a label for deliveries whose allowed extra unicast answer feeds back into the instance


# ------------------------------------------------------------------------------------------
# traffic generator (pure: produces bytes up-front, independent of the run)


def gen_history(rng, qu_ok, n_items=None):
    from zeroconf import DNSOutgoing, DNSQuestion, const
    from zeroconf._dns import DNSAddress, DNSPointer, DNSService, DNSText

    items = []
    n = n_items or rng.randint(4, 16)
    gaps = [0, 0, 1, 5, 100, 500, 999, 1000, 1001, 3000, 11000, 60000]
    qpool = [
        (TA, const._TYPE_PTR), ("s1." + TA, const._TYPE_SRV), ("s1." + TA, const._TYPE_TXT), ("ha.local.", const._TYPE_A),
        ("ha.local.", const._TYPE_AAAA), ("s1." + TA, const._TYPE_ANY), ("_services._dns-sd._udp.local.", const._TYPE_PTR),
        ("nosuch.local.", const._TYPE_A), (TB, const._TYPE_PTR), ("S1." + TA.upper(), const._TYPE_SRV), ("s2." + TA, const._TYPE_SRV),
    ]
    for k in range(n):
        gap = rng.choice(gaps)
        r = rng.random()
        if items and r < 0.12:
            # exact repeat of an earlier datagram (the guard across history, windows 0/999/1000/1001)
            prev = rng.choice(items)
            items.append({"gap": rng.choice([0, 1, 999, 1000, 1001]), "data": prev["data"], "src": prev["src"], "kind": "repeat"})
            continue
        if r < 0.17:
            kind = rng.choice(["junk", "short", "oversize"])
            if kind == "junk":
                data = bytes(rng.randrange(256) for _ in range(rng.choice([12, 13, 40, 200])))
            elif kind == "short":
                data = bytes(rng.randrange(256) for _ in range(rng.choice([0, 1, 3, 11])))
            else:
                # (8966 bytes is the largest datagram that is still looked at: it is parsed -- here: rejected -- and remembered)
                data = bytes([k]) * rng.choice([8966, 8967, 9000])
            items.append({"gap": gap, "data": data, "src": (QUERIER, 5353), "kind": kind})
            continue
        if r < 0.60:
            tc = rng.random() < 0.15
            out = DNSOutgoing(const._FLAGS_QR_QUERY | (const._FLAGS_TC if tc else 0))
            nq = rng.choice([1, 1, 1, 2, 3])
            any_qu = False
            for _ in range(nq):
                name, t = rng.choice(qpool)
                # the responder does not look at the question class: any class is answered, only the top bit means QU
                cls = rng.choice([const._CLASS_IN] * 5 + [const._CLASS_ANY, 3, const._CLASS_NONE])
                q = DNSQuestion(name, t, cls)
                if qu_ok and rng.random() < 0.45:
                    q.unicast = True
                    any_qu = True
                out.add_question(q)
            if rng.random() < 0.25:
                ttl = rng.choice([4500, 2251, 2250, 1000])
                out.add_answer_at_time(DNSPointer(TA, const._TYPE_PTR, const._CLASS_IN, ttl, "s1." + TA), 0)
            if rng.random() < 0.10:
                out.add_authorative_answer(DNSPointer(TA, const._TYPE_PTR, const._CLASS_IN, 4500, rng.choice(["s1.", "other."]) + TA))
            src = (rng.choice([QUERIER, QUERIER, "10.9.9.8"]), rng.choice([5353, 5353, 5353, 40000]))
            data = bytearray(out.packets()[0])
            data[0], data[1] = k & 0xFF, rng.randrange(256)
            items.append({"gap": gap, "data": bytes(data), "src": src, "kind": "query-qu" if any_qu else ("query-tc" if tc else "query")})
            continue
        # (a response with the TC bit set is legal input -- RFC 6762 18.5: the bit is ignored on reception -- and must be
        # de-duplicated like any other: only *queries* have the per-source scan of deferred packets behind the guard)
        tc_resp = rng.random() < 0.12
        out = DNSOutgoing(const._FLAGS_QR_RESPONSE | const._FLAGS_AA | (const._FLAGS_TC if tc_resp else 0))
        qsec = qu_ok and rng.random() < 0.08
        if qsec:  # a response that carries a question section with the QU bit (legacy-style reply)
            q = DNSQuestion(TB, const._TYPE_PTR, const._CLASS_IN)
            q.unicast = True
            out.add_question(q)
        for _ in range(rng.randint(1, 4)):
            ttl = rng.choice([0, 1, 120, 1124, 1125, 4500])
            u = const._CLASS_UNIQUE if rng.random() < 0.4 else 0
            inst = rng.choice(["x.", "y."])
            rec = rng.choice([
                DNSPointer(TB, const._TYPE_PTR, const._CLASS_IN, ttl, inst + TB),
                DNSService(inst + TB, const._TYPE_SRV, const._CLASS_IN | u, ttl, 0, 0, rng.choice([80, 81]), "hb.local."),
                DNSText(inst + TB, const._TYPE_TXT, const._CLASS_IN | u, ttl, b"\x03a=" + bytes([rng.randint(49, 50)])),
                DNSAddress("hb.local.", const._TYPE_A, const._CLASS_IN | u, ttl, bytes([10, 0, 0, rng.randint(5, 6)])),
                DNSPointer(TA, const._TYPE_PTR, const._CLASS_IN, ttl, "other." + TA),
                DNSAddress("ha.local.", const._TYPE_A, const._CLASS_IN | u, ttl, bytes([10, 0, 0, rng.choice([1, 77])])),
            ])
            out.add_answer_at_time(rec, 0)
        items.append({"gap": gap, "data": out.packets()[0], "src": (rng.choice([QUERIER, "10.9.9.7"]), 5353),
                      "kind": "response-qsec" if qsec else ("response-tc" if tc_resp else "response")})
    return items


def gen_case(seed, idx, qu_ok):
    rng = C.rng_for(seed, "c16", idx, qu_ok)
    case = {
        "seed": seed, "idx": idx, "qu_ok": qu_ok,
        "n_services": rng.choice([1, 1, 2]),
        "browse_own": rng.random() < 0.3,
        "lookup": rng.random() < 0.4,
        "start": rng.choice([1, 40, 400, 2000, 31000, 100000, 1200000, 2000000]),
        # PTR/TXT TTL of the registered services (below the 1125 s PTR floor of the cache in two of three cases with a value)
        "other_ttl": rng.choice([None, None, 60, 300, 4500]),
        # the registry changes under the traffic: with two services on one host, the second is unregistered again right after the
        # registrations (its goodbye must leave the host's address / NSEC records alone: the first service still uses them); the host
        # name is spelled with capitals in half of the cases (every look-up by host is case-insensitive)
        "unregister_one": rng.random() < 0.4,
        "server": rng.choice(["ha.local.", "ha.local.", "Ha.Local.", "HA.local."]),
        # the socket hands over 4-tuple sources, as an IPv6 socket does
        "v6_tuple": rng.random() < 0.25,
        "maxdelay": rng.choice([0, 5, 20]),
        "tail": rng.choice([15000, 15000, 130000]),
        # the second copy of a *response* may arrive later (1..999 ms) as long as nothing else arrives in between
        "dup_gap": rng.choice([0, 0, 0, 1, 500, 999]),
        "items": [dict(it, data=it["data"].hex(), src=list(it["src"])) for it in gen_history(rng, qu_ok)],
    }
    # in half of the QU cases only the generated traffic is duplicated, not what the instance hears of itself while it starts: its
    # own looped-back QU probes (+0/175/350 ms) and its browsers' first questions (QU, +20..120 ms after creation) are in D11's
    # class / spared, so a history that contains them can never meet `NeutralAlong` (C16_history_qu_at_partial); one that starts after
    # them can -- and when none of its arrivals is in a finding's class the main comparison *is* `dupAll h`
    if qu_ok and rng.random() < 0.5 and case["start"] >= 400:
        case["dup_after_start"] = True
        case["lookup"] = False   # (a lookup's first question is QU and loops back too)
    # the registered services also have a link-local IPv6 address when the socket is an IPv6 one: the instance hears its own AAAA
    # record back *with the scope id of the receiving interface* (the cache keeps it under that identity), and "was it multicast
    # within a quarter of its TTL" must still find it (fix e375581, `_get_unique_ignoring_scope`) -- the arrival history kept here
    # ignores scope ids (`ident`), so a responder that does not re-multicasts an address the history calls recent: its QU queries
    # fall outside every recorded class and their second copies are judged on their own
    case["v6_service"] = bool(case["v6_tuple"] and C.rng_for(seed, "c16v6", idx, qu_ok).random() < 0.7)
    if case["dup_gap"]:
        case["lookup"] = False   # (a lookup's wake-ups tie with arrivals at round instants; the order of same-instant timers is unspecified)
    if qu_ok and rng.random() < 0.08:
        # family "shared host": two services on one (mixed-case) host, one of them unregistered again, and -- while the host's
        # address record is still recent -- a QU query for the address: a unicast answer per copy, nothing multicast
        from zeroconf import DNSOutgoing, DNSQuestion, const

        out = DNSOutgoing(const._FLAGS_QR_QUERY)
        q = DNSQuestion(rng.choice(["ha.local.", "HA.LOCAL."]), rng.choice([const._TYPE_A, const._TYPE_A, const._TYPE_ANY]), const._CLASS_IN)
        q.unicast = True
        out.add_question(q)
        data = bytearray(out.packets()[0])
        data[0], data[1] = 0xEE, rng.randrange(256)
        case.update(n_services=2, unregister_one=True, server=rng.choice(["Ha.Local.", "HA.local.", "hA.local."]), start=rng.choice([1, 40, 400, 2000]))
        case["items"].insert(rng.choice([0, 0, 1]), {"gap": rng.choice([0, 1, 100, 1001]), "data": bytes(data).hex(), "src": [QUERIER, 5353], "kind": "query-qu-host"})
    return case


# ------------------------------------------------------------------------------------------
# one simulated run


class KeyedRng:
    """randomness as a function of (seed, virtual time, index within the instant, interval): an extra
    draw in one run cannot desynchronise the rest of it"""

    def __init__(self, sim, salt):
        self.sim, self.salt = sim, salt
        self.t, self.k = None, {}

    def randint(self, lo, hi):
        t = self.sim.now() if self.sim.loop is not None else -1
        if t != self.t:
            self.t, self.k = t, {}
        site = sys._getframe(2).f_code.co_name  # the library function that asked
        k = self.k.get(site, 0)
        self.k[site] = k + 1
        return lo + zlib.crc32(("%s/%s/%s/%d/%d/%d/%d" % (self.salt, self.sim.seed, site, t, k, lo, hi)).encode()) % (hi - lo + 1)


def canon_packet(data):
    from zeroconf import DNSIncoming

    m = DNSIncoming(data)
    if not m.valid:
        return ["invalid", data.hex()]
    recs = []
    for r in m.answers():
        recs.append(C.rec_line(r, created=0))
    return [m.flags, sorted(C.question_line(q) for q in m.questions), sorted(recs)]


def question_classes(data):
    """raw 16-bit class fields of the question section, read off the wire by a parser of our own (names are skipped:
    labels up to a zero byte or a compression pointer); None when the section cannot be walked"""
    if len(data) < 12:
        return None
    n = data[4] << 8 | data[5]
    off = 12
    out = []
    try:
        for _ in range(n):
            while True:
                b = data[off]
                if b == 0:
                    off += 1
                    break
                if b & 0xC0 == 0xC0:
                    off += 2
                    break
                if b & 0xC0:
                    return None
                off += 1 + b
            out.append(data[off + 2] << 8 | data[off + 3])
            if off + 4 > len(data):
                return None
            off += 4
    except IndexError:
        return None
    return out


def features(data):
    """what the listener model needs to know about a datagram.  `qclasses`: the question classes *from the wire* -- the
    model derives has_qu_question from their top bit (generated leaf `unique_of`), so a parser that flags the wrong
    packets as QU disagrees with the model.  For packets the real parser rejects (valid = False) the walk may stop at
    a different place than the parser did, so there the parser's own flag is passed on (as one class with/without the bit)."""
    from zeroconf import DNSIncoming

    m = DNSIncoming(data)
    qc = question_classes(data)
    if not m.valid or qc is None:
        qc = [0x8001] if m.has_qu_question() else []
    return {"valid": bool(m.valid), "qclasses": qc, "qu": any(c & 0x8000 for c in qc), "parser_qu": bool(m.has_qu_question()),
            "query": bool(m.is_query()), "tc": bool(m.truncated)}


def rkey(r):
    """a record **as it goes on the wire**: name, type, class, flush bit, TTL, rdata -- everything but the creation time.  (What a
    recorded finding predicts for a second copy is the first copy's records *again*: the same TTLs and flush bits, not just the same
    identities -- a re-multicast with a tenth of the TTL is not "the same answer twice".)"""
    tok = (C.rec_line(r, created=0) if not isinstance(r, str) else r).split()
    return " ".join(tok[:6] + tok[7:])


def ident(r):
    """identity of a record, computed here (name and targets lower-cased, no TTL/flush/creation time, no scope id)"""
    from zeroconf import _dns as d

    if isinstance(r, d.DNSAddress):
        rd = ("a", bytes(r.address))
    elif isinstance(r, d.DNSPointer):
        rd = ("p", r.alias.lower())
    elif isinstance(r, d.DNSText):
        rd = ("t", bytes(r.text))
    elif isinstance(r, d.DNSService):
        rd = ("s", r.priority, r.weight, r.port, r.server.lower())
    elif isinstance(r, d.DNSNsec):
        rd = ("n", r.next_name.lower(), tuple(sorted(r.rdtypes)))
    elif isinstance(r, d.DNSHinfo):
        rd = ("h", r.cpu, r.os)
    else:
        rd = ("?", repr(r))
    return (r.name.lower(), r.type, r.class_, rd)


def owned_idents(zc):
    """identities of the records the instance currently answers with (its registry)"""
    out = set()
    for info in zc.registry.async_get_service_infos():
        for r in [info.dns_pointer(), info.dns_service(), info.dns_text()] + list(info.get_address_and_nsec_records()):
            out.add(ident(r))
    return out


def shadow_apply(shadow, data, now, own=None):
    """an arrival history of our own (RFC 6762 section 10 as the record manager applies it): when each record was last
    heard and with which TTL -- PTR floor 1125 s, goodbyes remove, a cache-flush record makes the other records of its
    name/type/class that are older than 1 s expire in 1 s.  It decides, independently of the implementation's cache,
    whether a record "was multicast within a quarter of its TTL"."""
    from zeroconf import DNSIncoming

    m = DNSIncoming(data)
    if not m.valid or m.is_query():
        return
    answers = m.answers()
    here = {ident(r) for r in answers}
    uniq, removes = set(), []
    orig, positive = {}, {}     # what the history said of a record before this datagram; records the datagram carries with a positive TTL
    for r in answers:
        ttl = int(r.ttl)
        if ttl and r.type == 12 and ttl < 1125:
            ttl = 1125
        if r.unique:
            uniq.add((r.name.lower(), r.type, r.class_))
        k = ident(r)
        orig.setdefault(k, shadow.get(k))
        if ttl > 0:
            shadow[k] = (now, ttl)
            positive[k] = ttl
        elif k in shadow and not (own is not None and k in own):
            # (`own`: the datagram is the instance's own looped-back multicast and the record is one a registered service of
            # the instance still stands for: a goodbye for it is not a withdrawal the instance may rely on -- its last multicast
            # with a positive TTL stays the reference for "multicast within a quarter of its TTL".  A correct instance never
            # sends such a goodbye, so nothing changes there.)
            removes.append(k)
    for k, v in list(shadow.items()):
        if k[:3] in uniq and k not in here and now - v[0] > 1000:
            expired_for = now - (v[0] + 1000 * v[1])
            if expired_for < 0:
                shadow[k] = (now, 1)
            elif expired_for <= CLEANUP_MS:
                # the record has run out but the periodic cache cleanup (every 10 s) may not have purged it yet: whether the
                # implementation's cache still holds it -- and so revives it for one more second -- depends on the phase of that
                # timer, which this history does not track: recency of this record is *unknown* until it is heard again
                shadow[k] = (now, 1, "unknown")
            else:
                del shadow[k]     # purged long ago: nothing to flush
    for k in removes:
        if k in positive:
            # the same datagram withdraws the record *and* carries it with a positive TTL.  The record manager removes what it withdraws
            # last -- if the cache held the record when the datagram arrived; a record that had run out and been purged is not
            # withdrawn (the goodbye finds nothing), the positive copy is added and stays
            old = orig.get(k)
            expired_for = None if old is None else now - (old[0] + 1000 * old[1])
            if old is None or expired_for > CLEANUP_MS:
                continue
            if expired_for >= 0:
                shadow[k] = (now, positive[k], "unknown")    # run out, perhaps not purged yet: the history cannot tell
                continue
        shadow.pop(k, None)


CLEANUP_MS = 10000 + 1000


def shadow_recent(shadow, rec, now):
    """True / False, or None when the arrival history cannot tell (see `shadow_apply`)"""
    v = shadow.get(ident(rec))
    if v is None:
        return False
    if len(v) > 2 and v[0] + 1000 * v[1] > now - CLEANUP_MS:
        return None     # (marked "unknown" in `shadow_apply`: until it has run out and must have been purged)
    return v[0] + 250 * v[1] > now


def downstream_digest(zc):
    """what a query could have changed downstream: the cache (with creation times), the two answer queues"""
    cache = sorted(C.rec_line(r, created=int(r.created)) for rs in zc.cache.cache.values() for r in rs)
    queues = [[[int(g.send_after), int(g.send_before), sorted(rkey(r) for r in g.answers)] for g in q.queue] for q in (zc.out_queue, zc.out_delay_queue)]
    return {"cache": cache, "queues": queues}


def qu_signature(zc, data, port, now, shadow):
    """the D11 signature evaluated on the instance just before the datagram is processed:
    query with a QU question, multicast source, and some answer to a QU question not multicast within TTL/4;
    also reports whether a QM question of the same packet has answers (mixed)"""
    from zeroconf import DNSIncoming
    from zeroconf._dns import DNSRRSet

    m = DNSIncoming(data, (QUERIER, port), None, now)
    out = {"qu": False, "qu_not_recent": False, "qm_answers": False, "qu_answers": False, "tc": False, "remulticast": [], "recency_mismatch": []}
    # "has a QU question" is decided here from the decoded questions' own top class bit, not from the parser's summary flag
    if not m.valid or not m.is_query() or not any(q.unique for q in m.questions) or not zc.registry.has_entries:
        return out
    out["qu"] = True
    out["tc"] = bool(m.truncated)
    known = DNSRRSet([] if m.is_probe() else m.answers())
    qh = zc.query_handler
    for q in m.questions:
        for st in qh._get_answer_strategies(q):
            ans = qh._answer_question(q, st.strategy_type, st.types, st.services, known)
            if q.unique and port == 5353:
                for rec in ans:
                    out["qu_answers"] = True
                    # "not multicast within a quarter of its TTL" is decided from the arrival history kept by the harness,
                    # *not* from the implementation's cache: a defect that makes the cache forget (wrong TTL on refresh, a
                    # record stored under another identity) must not move the delivery into the recorded finding's class
                    # (the cache's answer; for an IPv6 address read without the scope id an IPv6 socket adds to the heard record --
                    # an IPv4 address has no scope: it must be in the cache under its own identity)
                    if rec.type == 28:
                        impl_recent = any(ident(e) == ident(rec) and e.is_recent(now) for e in zc.cache.async_all_by_details(rec.name, rec.type, rec.class_))
                    else:
                        e = zc.cache.async_get_unique(rec)
                        impl_recent = e is not None and e.is_recent(now)
                    mine = shadow_recent(shadow, rec, now)
                    if mine is None:
                        mine = impl_recent      # (either answer is right there: take the implementation's)
                    if impl_recent != mine:
                        out["recency_mismatch"].append([rkey(rec), impl_recent])
                    if not mine:
                        out["qu_not_recent"] = True
                        out["remulticast"] += [rkey(x) for x in [rec] + list(ans[rec])]   # D11: the record and its additionals
            elif ans:
                out["qm_answers"] = True
                for rec in ans:
                    out["remulticast"] += [rkey(x) for x in [rec] + list(ans[rec])]       # D11b: the multicast-path answers
    return out


def known_sig(sg):
    """signature of the two recorded findings (both: the guard exempts packets with a QU question, so the second copy
    of such a query is answered again, and whatever part of the answer is multicast is multicast/queued again)"""
    if sg.get("qu") and sg.get("qu_not_recent"):
        return D11_SIG
    if sg.get("qu") and sg.get("qm_answers"):
        return D11B_SIG
    return None


def simulate(case, dupmask, skip_d11=False):
    """dupmask: None (reference) | "all" | set of delivery indices to duplicate; skip_d11: do not duplicate a
    delivery that matches the known finding D11 (QU question with an answer not multicast within TTL/4)"""
    from . import vsim
    from zeroconf import ServiceInfo, ServiceListener, ServiceStateChange
    from zeroconf.asyncio import AsyncServiceBrowser, AsyncServiceInfo
    import zeroconf._handlers.query_handler as qhm
    import zeroconf._handlers.record_manager as rmm
    import zeroconf._listener as lsm

    sim = vsim.Sim(seed=case["seed"] * 100003 + case["idx"], maxdelay=case["maxdelay"], loopback=True)
    lib_rng = KeyedRng(sim, "lib")

    def lib_randint(lo, hi):
        v = lib_rng.randint(lo, hi)
        sim.draws.append((sim.now() if sim.loop is not None else None, lo, hi, v))
        return v

    sim.randint = lib_randint              # picked up by Sim.run's patches
    sim.net_rng = KeyedRng(sim, "net")
    obs = {"sends": [], "callbacks": [], "lblocks": [], "routes": [], "sigs": {}, "rul_calls": 0, "deliveries": [], "d11": [], "d11sig": {}, "second_copies": [], "gap_copies": 0, "recency_mismatch": []}
    saved = []

    class L(ServiceListener):
        def __init__(s, tag):
            s.tag = tag

        def add_service(s, zc, t, n):
            obs["callbacks"].append([sim.now(), s.tag, "add", n])

        def remove_service(s, zc, t, n):
            obs["callbacks"].append([sim.now(), s.tag, "rem", n])

        def update_service(s, zc, t, n):
            obs["callbacks"].append([sim.now(), s.tag, "upd", n])

    def handler(zeroconf, service_type, name, state_change):
        obs["callbacks"].append([sim.now(), "h", {ServiceStateChange.Added: "add", ServiceStateChange.Removed: "rem",
                                                  ServiceStateChange.Updated: "upd"}[state_change], name])

    cur = {"down": None, "draws": None}
    dyn = {"dup_after": 10 ** 15 if case.get("dup_after_start") else case.get("dup_after", 0)}

    def patch(cls, name, fn):
        orig = getattr(cls, name)
        setattr(cls, name, fn(orig))
        saved.append((cls, name, orig))

    def w_resp(orig):
        def f(self, msg):
            if cur["down"] is not None:
                cur["down"].append("response")
            return orig(self, msg)
        return f

    def w_haq(orig):
        def f(self, packets, addr, port, transport, v6):
            if cur["down"] is not None:
                cur["down"].append("responded:%d" % len(packets))
            return orig(self, packets, addr, port, transport, v6)
        return f

    strat_log = []

    def w_answer(orig):
        def f(self, question, strategy_type, types, services, known_answers):
            res = orig(self, question, strategy_type, types, services, known_answers)
            strat_log.append((bool(question.unique), list(res)))
            return res
        return f

    def w_response(orig):
        def f(self, msgs, ucast_source):
            del strat_log[:]
            ids = {}
            res = orig(self, msgs, ucast_source)
            if res is None:
                return res
            strats = []
            for unique, recs in strat_log:
                al = []
                for r in recs:
                    i = ids.setdefault(r, len(ids))
                    # the cache entry of this record: the one heard last among those that are this record but for the scope id an
                    # IPv6 socket adds to heard addresses (read here, from the whole list -- not through the responder's own look-up)
                    # (IPv6 addresses only: an IPv4 address has no scope and is looked up as it is)
                    if r.type == 28:
                        same = [x for x in self.cache.async_all_by_details(r.name, r.type, r.class_) if ident(x) == ident(r)]
                        e = max(same, key=lambda x: x.created) if same else None
                    else:
                        e = self.cache.async_get_unique(r)
                    al.append([i, None if e is None else [int(e.created) - vsim.T0, int(e.ttl)]])
                strats.append([unique, al])
            q0 = msgs[0]._questions
            obs["routes"].append({
                "nauth": max(m._num_authorities for m in msgs), "ucast_source": bool(ucast_source), "now": int(msgs[-1].now) - vsim.T0,
                "nq": len(q0), "qtype": q0[0].type if q0 else 0, "strats": strats,
                "res": [sorted(ids[r] for r in s) for s in (res.ucast, res.mcast_now, res.mcast_aggregate, res.mcast_aggregate_last_second)],
            })
            return res
        return f

    def w_tc(orig):
        def f(self, msg, addr, port, transport, v6):
            top = msg is None
            if top:
                cur["down"] = []
            try:
                return orig(self, msg, addr, port, transport, v6)
            finally:
                if top:
                    obs["lblocks"].append({"op": "tcfire", "t": sim.now(), "addr": addr, "tag": (cur["down"] or ["none"])[0],
                                           "timers": timers_of(self), "deferred": deferred_of(self)})
                    cur["down"] = None
        return f

    def timers_of(lst):
        return sorted([a, int(round(h.when() * 1000)) - vsim.T0] for a, h in lst._timers.items())

    def deferred_of(lst):
        return sorted([a, len(v)] for a, v in lst._deferred.items() if v)

    async def main(sim):
        patch(rmm.RecordManager, "async_updates_from_response", w_resp)
        patch(qhm.QueryHandler, "handle_assembled_query", w_haq)
        patch(qhm.QueryHandler, "_answer_question", w_answer)
        patch(qhm.QueryHandler, "async_response", w_response)
        patch(lsm.AsyncListener, "_respond_query", w_tc)
        a = sim.make_host("A", "10.0.0.1")
        zc = a.zc
        await zc.async_wait_for_start()
        lst = zc.engine.protocols[0]
        count = {"n": 0}
        orig_deliver = a.deliver
        pending_copies = []
        shadow = {}

        def deliver_once(data, src):
            if a.transport is None or a.transport.closed:
                return
            before = lst.last_message
            ntimer = lst._timers.get(src[0])
            ndraw = len(sim.draws)
            entries = bool(zc.registry.has_entries)
            cur["down"] = []
            # an IPv6 socket hands over (address, port, flow, scope id): nothing may depend on the extra two
            # every delivery is a **fresh bytes object**, as every `recvfrom` of a socket is: two copies of a datagram are equal,
            # never identical -- a guard (or a deferred-packet scan) that compares with `is` must not look right here
            fresh = bytes(bytearray(data))
            assert fresh == data and (fresh is not data or not data)
            lst.datagram_received(fresh, (src[0], src[1], 0, 3) if case.get("v6_tuple") else src)
            down, cur["down"] = cur["down"], None
            processed = lst.last_message is not before
            if not processed:
                tag = "oversize" if len(data) > 8966 else "duplicate"
            elif down:
                tag = down[0]
            elif lst._timers.get(src[0]) is not ntimer and lst._timers.get(src[0]) is not None:
                tag = "deferred:%d" % (int(round(lst._timers[src[0]].when() * 1000)) - vsim.T0)
            else:
                m = lst.last_message
                tag = "invalid" if not m.valid else ("noentries" if not entries else ("deferred-same" if m.truncated else "quiet?"))
            draws = [list(d[1:]) for d in sim.draws[ndraw:]]
            tcdraw = [d for d in draws if d[0] == 400 and d[1] == 500] if processed and tag.startswith("deferred:") else []
            obs["lblocks"].append({"op": "recv", "t": sim.now(), "data": data.hex(), "addr": src[0], "port": src[1], "entries": entries,
                                   "tcdraw": tcdraw[0] if tcdraw else None, "tag": tag, "timers": timers_of(lst), "deferred": deferred_of(lst)})
            if processed and tag == "response":
                shadow_apply(shadow, data, float(sim.loop.ms), own=owned_idents(zc) if src[0] == "10.0.0.1" else None)
            return processed

        def deliver(data, src):
            # a delivery is identified by (time, bytes, source, occurrence), not by its position: an allowed extra unicast
            # answer to the instance's own looped-back probe is itself delivered to the instance and shifts positions
            k0 = "%d|%s|%s|%d" % (sim.now(), C.digest(data.hex()), src[0], src[1])
            count[k0] = count.get(k0, 0) + 1
            i = "%s|%d" % (k0, count[k0])
            obs["deliveries"].append(i)
            twice = False
            if dupmask is not None:
                sg = qu_signature(zc, data, src[1], float(sim.loop.ms), shadow)
                if sg["recency_mismatch"]:
                    obs["recency_mismatch"].append({"key": i, "t": sim.now(), "records": sg["recency_mismatch"], "data": data.hex()})
                # a QU query of the instance itself (its looped-back probe): the allowed second unicast answer goes to the
                # instance -- an arrival the reference run does not have, which refreshes its cache and moves whatever depends
                # on it (refresh queries of a browser of its own type).  Such deliveries are spared in the main comparison like
                # the ones matching a finding, and get the local oracle on their second copy in the run that spares nothing.
                own_qu = sg["qu"] and src[0] == "10.0.0.1" and not sg["tc"]
                d11 = (known_sig(sg) is not None and not sg["tc"]) or own_qu
                if d11 and sim.now() >= dyn["dup_after"]:   # (outside the duplicated part of the history nothing is spared: nothing is duplicated)
                    obs["d11"].append(i)
                    obs["d11sig"][i] = known_sig(sg) or OWN_QU
                twice = ((dupmask == "all" or (isinstance(dupmask, (set, frozenset)) and i in dupmask)) and not (skip_d11 and d11)
                         and sim.now() >= dyn["dup_after"])
                if twice:
                    obs["sigs"][i] = dict(sg, t=sim.now(), data=data.hex(), src=list(src))
            n_s, n_c = len(obs["sends"]), len(obs["callbacks"])
            deferred_before = bool(lst._deferred.get(src[0]))   # truncated packets of this address waiting: the first copy is answered together with them
            was_processed = deliver_once(data, src)
            if twice:
                gap = case.get("dup_gap", 0)
                # (a copy of a datagram that was itself dropped as a repeat of an older one is not "the same datagram twice":
                # the window counts from the older one -- `example` in Props/C16.lean -- so only processed datagrams get a late copy)
                if gap and not cur.get("injecting"):
                    return   # looped-back traffic of the instance is not given late copies (they would not be delivered in time)
                if gap and was_processed and not features(data)["query"]:
                    # a copy that arrives later (real link-layer duplicates do): still "immediate succession on the socket" only
                    # if nothing else arrived in between -- checked when the copy is due
                    def late_copy(data=data, src=src, lm=lst.last_message):
                        if lst.last_message is lm:
                            obs["gap_copies"] += 1
                            deliver_once(data, src)
                    pending_copies.append(late_copy)   # delivered by the scenario itself, `gap` ms later (no extra loop timer)
                    return
                first = {"sends": obs["sends"][n_s:], "callbacks": obs["callbacks"][n_c:]}
                n_s2, n_c2 = len(obs["sends"]), len(obs["callbacks"])
                before = downstream_digest(zc) if sg["qu"] else None
                deliver_once(data, src)
                if sg["qu"]:
                    after = downstream_digest(zc)
                    second = {"sends": obs["sends"][n_s2:], "callbacks": obs["callbacks"][n_c2:]}
                    q_before = {k_ for q_ in before["queues"] for g_ in q_ for k_ in g_[2]}
                    q_after = {k_ for q_ in after["queues"] for g_ in q_ for k_ in g_[2]}
                    obs["second_copies"].append({"key": i, "sig": known_sig(sg), "tc": sg["tc"], "qm": sg["qm_answers"], "remulticast": sorted(set(sg["remulticast"])),
                                                 "queued_lost": sorted(q_before - q_after),
                                                 "src": list(src), "first_alone": not deferred_before,
                                                 "first": first, "second": second,
                                                 "cache_same": before["cache"] == after["cache"], "queues_same": before["queues"] == after["queues"]})

        a.deliver = deliver

        def on_send(t, srch, data, addr):
            obs["sends"].append([t, addr[0], addr[1], canon_packet(data)])

        sim.net.on_send = on_send

        class RUL:
            def async_update_records(self, zc_, now, records):
                obs["rul_calls"] += 1

            def async_update_records_complete(self):
                pass

        ttl_kw = {} if not case.get("other_ttl") else {"other_ttl": case["other_ttl"]}
        infos = [ServiceInfo(TA, "s%d.%s" % (i + 1, TA), 80 + i, addresses=[socket.inet_aton("10.0.0.1")] + ([socket.inet_pton(socket.AF_INET6, "fe80::1")] if case.get("v6_service") else []),
                             server=case.get("server", "ha.local."),
                             properties={"k": "v%d" % i}, **ttl_kw) for i in range(case["n_services"])]
        for info in infos:
            t = await zc.async_register_service(info)
            await t
        if case.get("unregister_one") and len(infos) > 1:
            t = await zc.async_unregister_service(infos[-1])
            await t
        zc.async_add_listener(RUL(), None)
        browsers = [AsyncServiceBrowser(zc, [TB], listener=L("l")), AsyncServiceBrowser(zc, [TB, TA] if case["browse_own"] else [TB], handlers=[handler])]
        await sim.sleep_ms(case["start"])
        if case.get("dup_after_start"):
            dyn["dup_after"] = sim.now()
        lookup = None
        if case["lookup"]:
            async def do_lookup():
                si = AsyncServiceInfo(TB, "x." + TB)
                ok = await si.async_request(zc, 3000)
                obs["callbacks"].append([sim.now(), "lookup", "done", [bool(ok), si.port, sorted(a_.hex() for a_ in si.addresses), si.text.hex() if si.text else None]])
            lookup = asyncio.ensure_future(do_lookup())
        dgap = case.get("dup_gap", 0)
        for it in list(case["items"]) + [{"gap": case["tail"], "data": None}]:
            wait = it["gap"]
            if dgap and wait > dgap:   # room for late copies before the next arrival (the reference run sleeps the same way)
                await sim.sleep_ms(dgap)
                for f_ in pending_copies:
                    f_()
                wait -= dgap
            del pending_copies[:]
            if wait:
                await sim.sleep_ms(wait)
            if it["data"] is not None:
                cur["injecting"] = True
                a.deliver(bytes.fromhex(it["data"]), tuple(it["src"]))
                cur["injecting"] = False
        if lookup is not None:
            await lookup
        obs["cache"] = sorted(C.rec_line(r, created=int(r.created) - vsim.T0) for rs in zc.cache.cache.values() for r in rs)
        obs["end"] = sim.now()
        for b in browsers:
            await b.async_cancel()
        await zc._async_close()

    try:
        sim.run(main)
    finally:
        for cls, name, orig in saved:
            setattr(cls, name, orig)
    obs["errors"] = [str(e.get("exception") or e.get("message"))[:200] for e in sim.errors]
    return obs


# ------------------------------------------------------------------------------------------
# comparison


def is_unicast(s):
    return s[1] != MDNS


def allowed_keys(dup):
    """(time, ip, port) -> number of duplicated deliveries that are queries with a QU question from there at that instant:
    the one place where the property allows something extra -- *one* more unicast answer per duplicated query"""
    out = {}
    for sg in dup["sigs"].values():
        if sg.get("qu"):
            k = (sg["t"], sg["src"][0], sg["src"][1])
            out[k] = out.get(k, 0) + 1
    return out


def mark(obs, keys, ref=None):
    """events for the equivalence predicate: [time, allowed-extra?, digest].  An event of the duplicated run may be an
    allowed extra only if it is unicast to a duplicated QU querier at that instant and the number of extras there does not
    exceed the number of duplicated queries."""
    ref_at, n_ref, n_dup = {}, {}, {}
    for s_ in (ref or obs)["sends"]:
        if is_unicast(s_):
            k = (s_[0], s_[1], s_[2])
            ref_at.setdefault(k, set()).update(s_[3][2] if len(s_[3]) > 2 and isinstance(s_[3][2], list) else [])
            n_ref[k] = n_ref.get(k, 0) + 1
    for s_ in obs["sends"]:
        if is_unicast(s_):
            k = (s_[0], s_[1], s_[2])
            n_dup[k] = n_dup.get(k, 0) + 1
    out = []
    for s_ in obs["sends"]:
        k = (s_[0], s_[1], s_[2])
        # (no test on the content: the first copy of a query is answered together with the truncated packets deferred for its
        # address -- their questions *and* their known answers --, the second copy alone, so the second answer can carry fewer
        # records or more than the first; what is bounded is the number: one extra per duplicated query)
        ok = is_unicast(s_) and k in keys and n_dup.get(k, 0) - n_ref.get(k, 0) <= keys[k]
        out.append([s_[0], bool(ok), C.digest(s_)])
    return out


def equiv_mod_unicast(ref, dup):
    """python twin of Zc.Listener.equivModUnicast: dup = ref with allowed extra unicast answers interleaved"""
    i = 0
    for d in dup:
        if i < len(ref) and ref[i][0] == d[0] and ref[i][2] == d[2]:
            i += 1
        elif not d[1]:
            return False
    return i == len(ref)


def compare(ref, dup):
    """None when equivalent modulo extra unicast answers to duplicated QU queries, else a short description"""
    keys = allowed_keys(dup)
    if not equiv_mod_unicast(mark(ref, keys), mark(dup, keys, ref)):
        a, b = ref["sends"], dup["sends"]
        extra = [x for x in b if x not in a][:2]
        missing = [x for x in a if x not in b][:2]
        first = next((k for k in range(min(len(a), len(b))) if a[k] != b[k]), min(len(a), len(b)))
        return {"what": "sends differ", "extra_in_dup": extra, "missing_in_dup": missing, "n_ref": len(a), "n_dup": len(b),
                "first_difference": {"index": first, "ref": a[first] if first < len(a) else None, "dup": b[first] if first < len(b) else None}}
    if by_tag(ref["callbacks"]) != by_tag(dup["callbacks"]):
        extra = [x for x in dup["callbacks"] if x not in ref["callbacks"]][:3]
        missing = [x for x in ref["callbacks"] if x not in dup["callbacks"]][:3]
        return {"what": "callbacks differ", "extra_in_dup": extra, "missing_in_dup": missing}
    if ref["errors"] != dup["errors"]:
        return {"what": "loop exception handler differs", "ref": ref["errors"][:2], "dup": dup["errors"][:2]}
    return None


def by_tag(cbs):
    """callback sequences per listener: the order in which *different* listeners are called inside one
    block follows the iteration order of a set of objects (address-dependent), so only per-listener order counts"""
    out = {}
    for c in cbs:
        out.setdefault(c[1], []).append(c)
    return out


def eq_line(ref, dup):
    keys = allowed_keys(dup)

    def enc(evs):
        return "%d %s" % (len(evs), " ".join("%d %s %s" % (e[0], C.b01(e[1]), e[2]) for e in evs))

    return "c16eq %s %s" % (enc(mark(ref, keys)), enc(mark(dup, keys, ref)))


def model_lines(obs):
    """driver lines replaying the listener blocks and the routing calls of one run"""
    feats = {}
    ops = []
    for b in obs["lblocks"]:
        if b["op"] == "recv":
            f = feats.get(b["data"])
            if f is None:
                f = feats[b["data"]] = features(bytes.fromhex(b["data"]))
            ops.append("r %s %s %d %d %d %s %s %s" % (C.hx(bytes.fromhex(b["data"])), C.hs(b["addr"]), b["port"], b["t"],
                                                    b["tcdraw"][2] if b["tcdraw"] else 0, C.b01(f["valid"]), C.natlist(f["qclasses"]), C.b01(b["entries"])))
        else:
            ops.append("t %s" % C.hs(b["addr"]))
    lines = ["c16run %d %s" % (len(ops), " ".join(ops))] if ops else []
    for r in obs["routes"]:
        parts = ["c16route", str(r["nauth"]), "5353" if not r["ucast_source"] else "40000", str(r["now"]), str(r["nq"]), str(r["qtype"]), str(len(r["strats"]))]
        for unique, al in r["strats"]:
            parts += [C.b01(unique), str(len(al))]
            for i, c in al:
                parts += [str(i)] + (["-"] if c is None else ["+", str(c[0]), str(c[1])])
        lines.append(" ".join(parts))
    return lines


def check_model(res, case, obs, out, which):
    """compare one run's listener blocks / routing calls with the driver's answers"""
    k = 0
    if obs["lblocks"]:
        got = out[0].split(";")
        k = 1
        if len(got) != len(obs["lblocks"]):
            res.disagree("c16run", {"case": case, "run": which}, "%d blocks" % len(obs["lblocks"]), out[0][:300])
        else:
            for b, g in zip(obs["lblocks"], got):
                impl = "%s|%s|%s" % (b["tag"], ",".join("%s@%d" % (a, d) for a, d in b["timers"]) or "-",
                                    ",".join("%s#%d" % (a, n) for a, n in b["deferred"]) or "-")
                res.count("listener:" + b["tag"].split(":")[0])
                if b["tag"] not in ("response", "duplicate"):
                    res.nontriv("l/" + b["tag"].split(":")[0] + "/" + str(len(b["timers"])) + "/" + str(sum(n for _, n in b["deferred"])))
                if impl != g:
                    res.disagree("c16run", {"case": case, "run": which, "block": b}, impl, g)
                    break
    for r, g in zip(obs["routes"], out[k:]):
        impl = "|".join(",".join(str(i) for i in s) or "-" for s in r["res"])
        res.count("route")
        res.nontriv("rt/%s/%s/%s/%s" % (r["nauth"] > 0, r["ucast_source"], tuple(bool(s) for s in r["res"]), tuple(u for u, _ in r["strats"])))
        if impl != g:
            res.disagree("c16route", {"case": case, "run": which, "route": r}, impl, g)


WHAT = {
    D11_SIG: "a query with a QU question is delivered twice and an answer that was not multicast within a quarter of its TTL is multicast twice",
    D11B_SIG: "a query with a QU question that also has answers on the multicast path (a QM question in the same packet, or a unicast-source "
              "query) is delivered twice: those answers are multicast twice or their queued multicast is delayed to the aggregation deadline",
}


def classify(case, ref, skip_d11):
    """find one delivery whose duplication alone changes the behaviour and name the failing class"""
    culprit = None
    for i in ref["deliveries"]:
        one = simulate(case, {i}, skip_d11=skip_d11)
        if compare(ref, one) is not None:
            culprit = (i, one)
            break
    if culprit is None:
        return "C16:duplicates-change-behaviour:no-single-culprit", None
    i, one = culprit
    sg = dict(one["sigs"].get(i, {}), delivery=i)
    f = features(bytes.fromhex(sg["data"])) if "data" in sg else {}
    if known_sig(sg) is not None and not sg.get("tc"):
        return known_sig(sg), sg
    if sg.get("qu") and sg.get("src", [""])[0] == "10.0.0.1":
        return OWN_QU, sg
    if sg.get("qu"):
        return "C16:qu-query-duplicate-changes-more-than-unicast", sg
    if f.get("qu"):
        return "C16:qu-bit-non-query-duplicate", sg
    return "C16:non-qu-duplicate-changes-behaviour", sg


def first_difference(ref, full):
    """the earliest event at which the send log of the nothing-spared run departs from the reference (allowed extra unicast answers
    skipped): ("extra", event of full) | ("missing", event of ref) | None; plus whether an allowed extra unicast answer had gone to
    the instance itself before that point (one more *arrival* there: everything later may follow from it)"""
    keys = allowed_keys(full)
    mr, mf = mark(ref, keys), mark(full, keys, ref)
    i = 0
    self_extra = False
    for k, d in enumerate(mf):
        if i < len(mr) and mr[i][0] == d[0] and mr[i][2] == d[2]:
            i += 1
            continue
        ev = full["sends"][k]
        if d[1]:
            if ev[1] == "10.0.0.1":
                self_extra = True
            continue
        if i < len(mr) and mr[i][0] < d[0]:
            return ("missing", ref["sends"][i]), self_extra
        return ("extra", ev), self_extra
    if i < len(mr):
        return ("missing", ref["sends"][i]), self_extra
    return None, self_extra


def recs_of(ev):
    return {rkey(k) for k in ev[3][2]} if len(ev[3]) > 2 and isinstance(ev[3][2], list) else set()


def classify_full_difference(case, ref, full):
    """name the difference between the reference and the run that duplicates *every* delivery by what it **is**, not by which
    delivery was duplicated: a recorded finding's signature only if the first departure from the reference has the shape the
    finding predicts --
      D11:  one more multicast datagram to the mDNS group at the very instant of a duplicated query in D11's class (`mcast_now` is
            immediate), carrying only records D11 predicts for that query (`remulticast`: the not-recent answers and their additionals);
      D11b: the multicast-path answers of a duplicated query in D11b's class go through the path again -- immediate, or through the
            aggregation queues (20-120 ms jitter, 500 ms deadline, +1 s for a record multicast in the last second): within that span
            after the query, (i) one more multicast datagram carrying only records predicted for D11b queries of that span, or (ii) a
            multicast datagram of the reference carrying such a record is not sent at its time (the doubled group waits for the deadline);
    (what happens after that point follows from it and cannot be predicted: the extra multicast loops back, refreshes the cache,
    moves later answers).  A first departure of any other shape is a fresh violation."""
    fd, self_extra = first_difference(ref, full)
    sgs = [dict(sg, key=k) for k, sg in full["sigs"].items() if known_sig(sg) is not None and not sg.get("tc")]
    if fd is None:
        d = compare(ref, full)
        return "C16:duplicates-change-callbacks-or-errors-only", {"diff": d}
    kind, ev = fd
    t0 = ev[0]
    span = 1000 + 500 + 120 + case.get("maxdelay", 0)
    if not is_unicast(ev) and ev[2] == 5353 and recs_of(ev):
        if kind == "extra":
            for sg in sgs:
                if known_sig(sg) == D11_SIG and sg["t"] == t0 and recs_of(ev) <= set(sg["remulticast"]):
                    return D11_SIG, {"first_difference": [kind, ev], "culprit": sg}
        near = [sg for sg in sgs if known_sig(sg) == D11B_SIG and 0 <= t0 - sg["t"] <= span]
        predicted = set()
        for sg in near:
            predicted |= set(sg["remulticast"])
        if near and kind == "extra" and recs_of(ev) <= predicted:
            return D11B_SIG, {"first_difference": [kind, ev], "culprit": near[-1]}
        if near and kind == "extra" and recs_of(ev) & predicted:
            # the doubled answers went into the aggregation queue and were *merged with a group already waiting there* (the answers
            # to another query -- e.g. a truncated one of the same source answered together with the first copy): the datagram the
            # reference sends at this instant goes out with the predicted records added.  Everything in it that the finding does
            # not predict must be in the reference's multicast datagram(s) of this very instant.
            same_instant = set()
            for x in ref["sends"]:
                if not is_unicast(x) and x[0] == t0:
                    same_instant |= recs_of(x)
            if same_instant and recs_of(ev) - predicted <= same_instant:
                return D11B_SIG, {"first_difference": [kind, ev], "culprit": near[-1], "merged_with_reference_datagram_at": t0}
        if near and kind == "missing" and recs_of(ev) & predicted:
            # delayed, not lost: every record of the missing datagram goes out later, within the span of the doubled group
            later = set()
            for x in full["sends"]:
                if not is_unicast(x) and t0 < x[0] <= t0 + span + 1000:
                    later |= recs_of(x)
            if recs_of(ev) <= later:
                return D11B_SIG, {"first_difference": [kind, ev], "culprit": near[-1]}
            return "C16:qu-duplicate-loses-queued-multicast-answer", {"first_difference": [kind, ev], "never_sent": sorted(recs_of(ev) - later)[:4]}
        # the doubled queueing of a D11b query draws one more random delay; the draws of this harness are keyed by their index within
        # the instant, so answers queued *at that same instant* for a later packet get another jitter (a real network gives no such
        # guarantee either): the reference's datagram goes out unchanged, up to 100 ms (the width of the 20-120 ms jitter) earlier or
        # later, both instants inside the jitter window (or that window + 1 s, the last-second protection) counted from the D11b query
        md = case.get("maxdelay", 0)

        def in_jitter(dt):
            return 20 <= dt <= 120 + md or 1020 <= dt <= 1120 + md

        other = ref["sends"] if kind == "extra" else full["sends"]
        for x in other:
            if x[1:] == ev[1:] and x[0] != t0 and abs(x[0] - t0) <= 100:
                for sg in near:
                    if in_jitter(t0 - sg["t"]) and in_jitter(x[0] - sg["t"]):
                        return D11B_SIG, {"first_difference": [kind, ev], "culprit": sg, "same_datagram_with_another_jitter_at": x[0]}
    if self_extra:
        return OWN_QU, {"first_difference": [kind, ev]}
    return "C16:qu-duplicate-difference-not-predicted-by-a-finding", {"first_difference": [kind, ev],
                                                                     "known_class_deliveries": [[sg["key"], known_sig(sg)] for sg in sgs][:6]}


def second_copy_findings(obs):
    """the property's exception, checked where it applies: on the second copy of every duplicated QU query (those matching
    a recorded finding included).  Allowed: at most one unicast datagram, to the querier's address and port,
    carrying nothing the first copy's unicast answer did not carry (same records, TTLs, flush bits -- when the first copy was answered
    alone); no callback; cache as the first copy left it, no answer taken out of the queues.  Under a recorded finding, additionally: multicast of
    exactly the records the finding predicts (D11/D11b) and, for D11b, the answer queues may differ."""
    bad = []
    for sc in obs["second_copies"]:
        if sc["tc"]:
            allowed_mc = set()
        else:
            allowed_mc = set(sc["remulticast"]) if sc["sig"] else set()
        uni = [x for x in sc["second"]["sends"] if is_unicast(x)]
        mc = [x for x in sc["second"]["sends"] if not is_unicast(x)]
        first_uni = set()
        for x in sc["first"]["sends"]:
            if is_unicast(x) and len(x[3]) > 2:
                first_uni |= set(x[3][2])
        where = {"delivery": sc["key"], "finding": sc["sig"]}
        if sc["second"]["callbacks"]:
            bad.append(("C16:second-copy-fires-callbacks", "the second copy of a QU query fired %d callbacks" % len(sc["second"]["callbacks"]), where))
        # "answered by unicast twice": the second answer is the first again -- when the first copy was answered alone (with truncated
        # packets deferred for the address the first answer also covers their questions and known answers) it carries nothing the
        # first did not: same records, same TTLs, same flush bits
        second_uni = set()
        for x in uni:
            if len(x[3]) > 2:
                second_uni |= set(x[3][2])
        if sc.get("first_alone") and first_uni and second_uni - first_uni:
            bad.append(("C16:second-copy-unicast-answer-differs", "the second copy of a QU query was answered by unicast with %d records the first answer did not carry (e.g. %s)"
                        % (len(second_uni - first_uni), sorted(second_uni - first_uni)[0][:80]), where))
        # whatever the second copy does to the answer queues, it does not take answers *out* of them (a recorded finding delays a queued
        # multicast, it never cancels one)
        if sc.get("queued_lost"):
            bad.append(("C16:second-copy-removes-queued-answers", "the second copy of a QU query removed %d answers waiting in the multicast queues" % len(sc["queued_lost"]), where))
        n_first_uni = sum(1 for x in sc["first"]["sends"] if is_unicast(x))
        if len(uni) > max(1, n_first_uni):
            bad.append(("C16:second-copy-unicast-not-a-repeat", "the second copy of a QU query was answered by %d unicast datagrams (the first by %d)" % (len(uni), n_first_uni), where))
        # "answered by unicast twice": the second answer goes where the first went -- to the querier's address *and port*
        src = sc.get("src")
        stray = [x for x in uni if src is not None and (x[1], x[2]) != (src[0], src[1])]
        if stray:
            bad.append(("C16:second-copy-unicast-to-wrong-destination", "the second copy of a QU query from %s:%d was answered by unicast to %s:%d"
                        % (src[0], src[1], stray[0][1], stray[0][2]), where))
        # what a recorded finding predicts is *the first copy's multicast again*: no more datagrams than the first copy sent, to the mDNS group
        mc_first = [x for x in sc["first"]["sends"] if not is_unicast(x)]
        # (only when the first copy was answered alone: with truncated packets deferred for the address it is answered together with
        # their questions and known answers, the second copy alone -- the two answers may then differ, rightly)
        if sc["sig"] and sc.get("first_alone") and len(mc) > len(mc_first):
            bad.append(("C16:second-copy-multicast-datagram-count", "under %s the second copy was answered by %d multicast datagrams, the first by %d"
                        % (sc["sig"], len(mc), len(mc_first)), where))
        if [x for x in mc if x[2] != 5353]:
            bad.append(("C16:second-copy-multicast-to-wrong-port", "the second copy's multicast answer went to port %d" % [x for x in mc if x[2] != 5353][0][2], where))
        extra_mc = [k for x in mc if len(x[3]) > 2 for k in x[3][2] if rkey(k) not in allowed_mc]
        if mc and not sc["sig"] and not sc["tc"]:
            bad.append(("C16:second-copy-multicasts", "the second copy of a QU query whose answers were all heard within a quarter of their TTL was answered by multicast again", where))
        if extra_mc and sc["sig"]:
            bad.append(("C16:second-copy-multicasts-unpredicted-records", "under %s the second copy multicast %d records the finding does not predict" % (sc["sig"], len(extra_mc)), where))
        if not sc["cache_same"]:
            bad.append(("C16:second-copy-changes-cache", "answering the second copy of a QU query changed the cache (QueryRepeatNeutral fails on the real handler)", where))
        if not sc["queues_same"] and not sc["qm"]:
            bad.append(("C16:second-copy-changes-queues", "answering the second copy of a QU query changed the answer queues although no recorded finding applies", where))
    return bad


def shrink(case, sg):
    """try the one-datagram history consisting of the culprit alone (when it was injected traffic)"""
    if not sg or "data" not in sg:
        return None, None
    its = [it for it in case["items"] if it["data"] == sg["data"] and it["src"] == sg["src"]]
    if not its:
        return None, None
    small = dict(case, items=[dict(its[0], gap=0)], dup_after=1000, start=max(case["start"], 2000), lookup=False)
    d = compare(simulate(small, None), simulate(small, "all", skip_d11=True))
    return (small, d) if d is not None else (None, None)


def run_case(res, case, ctx, lines_acc):
    """reference vs everything duplicated except deliveries matching the known finding D11; when such deliveries
    exist, a third run duplicates them too and reports D11 under its own signature"""
    ref = simulate(case, None)
    dup = simulate(case, "all", skip_d11=True)
    res.evaluations += 1
    for it in case["items"]:
        res.count("item:" + it["kind"])
    res.count("family:" + ("qu" if case["qu_ok"] else "no-qu"))
    nsupp = sum(1 for b in dup["lblocks"] if b["tag"] == "duplicate")
    res.nontriv("case/%s/%d/%d/%s" % (case["qu_ok"], min(nsupp, 30), len(ref["sends"]), len(ref["callbacks"]) > 0))
    diff = compare(ref, dup)
    lines_acc.append((case, ref, dup, diff))
    for sig_, what_, where_ in second_copy_findings(dup):
        violate_limited(res, sig_, what_, {"case": case, "where": where_})
    res.count("second-copies-of-QU-queries-checked", len(dup["second_copies"]))
    if case.get("dup_after_start") and not dup["d11"] and dup["second_copies"] and diff is None and not second_copy_findings(dup):
        # every QU arrival of the duplicated part of the history was observed neutral (cache and queues unchanged, unicast only) and
        # nothing was spared: an instance of C16_history_qu_at_partial's hypothesis, conclusion checked by the main comparison and its
        # blocks replayed through c16run
        res.count("histories-with-QU-queries-meeting-NeutralAlong")
    for mm in dup["recency_mismatch"][:1]:
        res.disagree("c16recent", {"case": case, "delivery": mm}, "the cache's quarter-TTL test on %s" % mm["records"][:2],
                     "the arrival history kept by the harness says the opposite")
    self_extra = any(is_unicast(x) and x[1] == "10.0.0.1" for x in dup["sends"]) and len(dup["sends"]) != len(ref["sends"])
    if diff is None and not self_extra and ref["rul_calls"] != dup["rul_calls"]:
        violate_limited(res, "C16:record-update-listener-calls-differ", "RecordUpdateListener.async_update_records was called %d times in the reference run, %d times with duplicates"
                        % (ref["rul_calls"], dup["rul_calls"]), {"case": case})
    if diff is not None:
        res.count("paired-runs-that-differ")
        if res.dist["paired-runs-that-differ"] <= 8:   # naming the culprit costs one run per delivery: do it for the first few
            sig, sg = classify(case, ref, True)
            small, sdiff = shrink(case, sg)
            violate_limited(res, sig, "duplicated delivery changes the externally visible behaviour: " + (sdiff or diff)["what"],
                            {"case": small or case, "diff": sdiff or diff, "culprit": sg, "shrunk_from": None if small is None else {"seed": case["seed"], "idx": case["idx"]}})
        else:
            violate_limited(res, "C16:duplicates-change-behaviour:unclassified", "duplicated delivery changes the externally visible behaviour: " + diff["what"],
                            {"case": case, "diff": diff, "culprit": None})
    elif ref.get("cache") != dup.get("cache"):
        # the handler-level fact (the second copy of a QU query leaves cache and queues alone) is checked where it applies, in
        # `second_copy_findings`.  The caches of two equivalent runs can still differ for one reason: an allowed extra unicast
        # answer to the instance's *own* looped-back probe is delivered to the instance itself -- one more arrival, which
        # refreshes `created` of its cached copies.  Anything else is a disagreement with the model.
        res.count("cache-differs-after-equivalent-runs")
        if not self_extra:
            res.disagree("c16state", {"case": case}, "final cache differs although no extra unicast answer went to the instance itself", "equal")
    if dup["d11"]:
        res.count("runs-with-deliveries-matching-a-known-finding")
    if dup["d11"]:
        # every delivery duplicated, none spared: the deliveries matching a recorded finding get the local oracle on their
        # second copy (so a new defect there is not filed under the finding); the global difference they cause is classified
        full = simulate(case, "all")
        for sig_, what_, where_ in second_copy_findings(full):
            violate_limited(res, sig_, what_, {"case": case, "where": where_, "run": "every delivery duplicated"})
        res.count("second-copies-under-a-finding-checked", sum(1 for x in full["second_copies"] if x["sig"]))
        d2 = compare(ref, full)
        if d2 is not None and diff is None:
            # (no sampling: the classification needs no further runs)
            sig, detail = classify_full_difference(case, ref, full)
            what = WHAT.get(sig, "every delivery duplicated: the first departure from the reference run is not what a recorded finding predicts (" + d2["what"] + ")")
            if sig == OWN_QU:
                res.count("runs-that-differ-only-through-an-extra-unicast-answer-to-the-instance-itself")
            else:
                res.count("full-run-difference:" + sig)
                violate_limited(res, sig, what, {"case": case, "diff": d2, "detail": detail})
    return diff


def flush_model(res, ctx, acc):
    if not ctx["driver_ok"] or not acc:
        return
    lines = []
    spans = []
    for case, ref, dup, diff in acc:
        for which, obs in (("ref", ref), ("dup", dup)):
            ls = model_lines(obs)
            spans.append((case, which, obs, len(lines), len(ls)))
            lines += ls
        spans.append((case, "eq", (ref, dup, diff), len(lines), 1))
        lines.append(eq_line(ref, dup))
    try:
        out = C.run_driver(lines)
    except C.DriverUnavailable as ex:
        res.notes.append("driver unavailable: %s" % ex)
        return
    for case, which, obs, a, n in spans:
        if which == "eq":
            ref, dup, diff = obs
            keys = allowed_keys(dup)
            py = equiv_mod_unicast(mark(ref, keys), mark(dup, keys, ref))
            if out[a] != C.b01(py):
                res.disagree("c16eq", {"case": case}, C.b01(py), out[a])
        else:
            check_model(res, case, obs, out[a:a + n], which)


def violate_limited(res, sig, what, case, per_sig=3):
    """`Result.violations` is capped: repeated reports of one (possibly known) signature must not crowd out a new one"""
    res.count("violations:" + sig)
    if sum(1 for v in res.violations if v["sig"] == sig) < per_sig:
        res.violate(sig, what, case)


def run(ctx):
    res = C.Result("C16")
    res.rule = ("paired simulator runs of one real instance (1-2 services, two browsers, optional lookup): reference vs every delivery duplicated "
                "back-to-back, identical keyed randomness; non-trivial = distinct (family, suppressed-duplicate count, sends, callbacks) "
                "signatures + distinct listener-block classes + distinct routing shapes replayed through the Lean model")
    acc = []
    for name, body in C.load_corpus("C16"):
        run_case(res, body["case"], ctx, acc)
        res.count("corpus")
    n = C.Budget(ctx["tier"], 700, 20000).n
    if ctx["widened"]:
        n *= 2
    for idx in range(n):
        case = gen_case(ctx["seed"], idx, qu_ok=(idx % 2 == 1))
        run_case(res, case, ctx, acc)
        if idx < 2:
            res.sample({"case": {k: v for k, v in case.items() if k != "items"}, "n_items": len(case["items"])})
        if len(acc) >= 100:
            flush_model(res, ctx, acc)
            acc = []
    flush_model(res, ctx, acc)
    return res


def replay(body):
    case = body["case"]["case"] if "case" in body.get("case", {}) else body["case"]
    ref = simulate(case, None)
    dup = simulate(case, "all")
    diff = compare(ref, dup)
    out = {"violates": diff is not None, "diff": diff, "predicate": "Zc.Listener.equivModUnicast",
           "ref_sends": len(ref["sends"]), "dup_sends": len(dup["sends"])}
    if diff is not None:
        sig, sg = classify(case, ref, diff)
        out["sig"] = sig
        out["culprit"] = sg
    try:
        out["model_eq"] = C.run_driver([eq_line(ref, dup)])[0]
    except C.DriverUnavailable:
        out["model_eq"] = None
    return out
