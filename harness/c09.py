"""C09 -- registration probes first, detects conflicts, then announces completely.

Trace acceptance (DESIGN §2.4): real `Zeroconf` instances run under the virtual-time simulator; the
atomic blocks of `async_check_service` (the code between two `await self.async_wait`) are logged with the
cache bucket they saw and replayed through the Lean model (`Zc.Register`, driver command `c09run`), which
must predict every datagram, every wait and the outcome (stage C).  The property's own sentence is evaluated
on the wire-level observation by an independent oracle with the numbers of the English statement (stage O).
"""
from __future__ import annotations

import asyncio
import json
import socket

from . import common as C
from . import vsim

TRACE = True
TRUSTED = [
    "virtual-time simulator harness/vsim.py (event loop, sockets and timers replaced); DNSIncoming as the decoder of observed datagrams",
    "service_type_name (name validation) is an input of the model (C19's subject); datagrams larger than one packet are not generated",
]
ASSUMPTIONS = ["asyncio runs a task step to completion (atomic blocks); a timer never fires before its due time (WFSched, checked on every trace)"]

CHECK = 175  # ms between probes           (English statement)
ANNOUNCE = 225  # ms between announcements
WARM = 1_200_000  # registration instant: late enough for cache entries to reach the end of their 1125 s floor


# ------------------------------------------------------------------------------------------
# canonical forms (must agree with Driver/C09.lean)


def rec_canon(r):
    return C.rec_line(r, created=0).replace(" ", ",")


def pkt_canon(data):
    from zeroconf import DNSIncoming

    m = DNSIncoming(data)
    recs = list(m.answers())
    na, nu = m.num_answers, m.num_authorities
    an, au, ad = recs[:na], recs[na:na + nu], recs[na + nu:]
    qs = "|".join(C.question_line(q).replace(" ", ",") for q in m.questions)
    return "%d#%s#%s#%s#%s" % (m.flags, qs, "|".join(sorted(map(rec_canon, an))), "|".join(sorted(map(rec_canon, au))),
                               "|".join(sorted(map(rec_canon, ad))))


def msg_canon(dgs):
    """canonical form of the message one `async_send` call put on one interface: a message that needs several datagrams (a TXT
    record above 1460 bytes travels alone) is compared as a whole -- how it is cut into datagrams is C14's subject"""
    if len(dgs) <= 1:
        return ";".join(pkt_canon(d) for d in dgs)
    ms = [decode(d) for d in dgs]
    if any(m[0].is_query() for m in ms) or len({m[0].flags for m in ms}) != 1:
        return ";".join(pkt_canon(d) for d in dgs)
    return "%d##%s#%s#%s" % (ms[0][0].flags, "|".join(sorted(rec_canon(r) for m in ms for r in m[1])),
                             "|".join(sorted(rec_canon(r) for m in ms for r in m[2])), "|".join(sorted(rec_canon(r) for m in ms for r in m[3])))


def decode(data):
    from zeroconf import DNSIncoming

    m = DNSIncoming(data)
    recs = list(m.answers())
    na, nu = m.num_answers, m.num_authorities
    return m, recs[:na], recs[na:na + nu], recs[na + nu:]


# ------------------------------------------------------------------------------------------
# scenarios

INSTANCES = ["svc", "My Svc", "a", "x" * 61, "x" * 62, "x" * 63, "café", "svc-2", "日本", "Living.Room", "a.b.c"]  # an instance name may contain dots (RFC 6763 §4.3)
TYPES = ["_http._tcp.local.", "_x._udp.local.", "_HTTP._tcp.local.", "_X._udp.local."]  # types are case-insensitive: the cache files them lower-cased
BIG_TXT = (b"\xfa" + b"k=" + b"v" * 248) * 6  # 1506 bytes of TXT rdata: the record needs a datagram of its own (> 1460 bytes)
V4 = ["0a000001", "0a000002", "c0a80105"]
V6 = ["fe80000000000000000000000000000a", "20010db8000000000000000000000001"]
OFFS = [-2000, -10, -1, 0, 1, 50, 100, 174, 175, 176, 200, 300, 349, 350, 351, 400, 524, 525, 526, 699, 700, 701, 900]


def gen_scenario(rng, idx):
    kind = rng.choices(["inject", "peer", "twice", "quiet", "reuse"], [54, 18, 8, 10, 10])[0]
    inst = rng.choice(INSTANCES)
    type_ = rng.choice(TYPES)
    v4 = rng.sample(V4, rng.choice([0, 1, 1, 2]))
    v6 = rng.sample(V6, rng.choice([0, 0, 1, 2]))
    # server=None is the legacy mode (host name := instance name); with a rename it shows the known finding
    # C09:server-none-keeps-conflicting-host-name (known_findings.json, notes/agents/C09.md)
    sc = {"kind": kind, "idx": idx, "type": type_, "inst": inst, "server": rng.choice(["hosta.local.", "HostA.local.", "hosta.local.", "HostA.local.", None]),
          "port": rng.choice([80, 8080, 0, 65535]), "text": rng.choice(["", "0361 3d31".replace(" ", ""), "00", "", "03613d31", "00", BIG_TXT.hex()]),
          "v4": v4, "v6": v6, "host_ttl": rng.choice([120, 120, 1, 4500, 10]), "other_ttl": rng.choice([4500, 4500, 1125, 10, 1]),
          "ttl_arg": rng.choice([None, None, None, 60]), "allow": rng.random() < 0.7, "pre": [], "inj": [],
          "weight": rng.choice([0, 5, 7]), "priority": rng.choice([0, 3, 9]),
          "delays": [rng.choice([0, 1, 10, 50, 87, 88, 100, 149, 150, 174, 175, 176]) for _ in range(6)] + [rng.randint(0, 150) for _ in range(40)],
          "seed": rng.randrange(1 << 30)}

    def name(n):
        return "%s.%s" % (inst, type_) if n == 1 else "%s-%d.%s" % (inst, n, type_)

    def alias_choice():
        r = rng.random()
        if r < 0.55:
            return name(rng.choice([1, 1, 1, 2, 2, 3, 4]))
        if r < 0.7:
            return name(1).swapcase()  # another spelling: not a conflict for the exact-case test
        if r < 0.85:
            return "other.%s" % type_
        return name(rng.choice([1, 2])).upper()

    if kind in ("inject", "twice"):
        chain = rng.choice([0, 0, 1, 2, 3, 4])
        for n in range(1, chain + 1):
            if rng.random() < 0.85:
                # cache entry learnt before the registration; some expire right at a probe instant
                if rng.random() < 0.5:
                    sc["pre"].append({"alias": name(n), "ttl": 4500, "age": rng.choice([1, 1000, 500000])})
                else:
                    sc["pre"].append({"alias": name(n), "ttl": rng.choice([1, 1125]), "age": 1125000 - rng.choice([0, 1, 175, 176, 350, 351, 352, 525, 700, 5000])})
        for _ in range(rng.choice([0, 1, 1, 2, 3])):
            sc["inj"].append({"at": rng.choice(OFFS) if rng.random() < 0.75 else rng.randint(-20, 900), "alias": alias_choice(),
                              "ttl": rng.choice([4500, 4500, 120, 1125, 0])})
    if kind == "quiet":
        for _ in range(rng.choice([0, 1, 2])):
            sc["inj"].append({"at": rng.randint(-20, 900), "alias": "other%d.%s" % (rng.randint(0, 3), type_), "ttl": 4500})
    if kind == "peer":
        sc["peer_chain"] = rng.choice([1, 1, 2, 3])
    if rng.random() < 0.4:
        # a peer resolves the service while it is being announced (what ServiceInfo.async_request sends: SRV/TXT and A/AAAA questions
        # in one packet), QM, QU or legacy unicast; offsets are relative to the completion of the registration
        sc["qann"] = [{"off": rng.choice([1, 1, 50, 100, 224, 226, 300, 449, 451, 600]), "kind": rng.choice(["resolve", "resolve", "srv+a", "ptr+srv+aaaa", "srv"]),
                       "mode": rng.choice(["qm", "qm", "qu", "legacy"])} for _ in range(rng.choice([1, 1, 2, 3]))]
    if rng.random() < 0.12:
        # registered with strict=False: a service type that RFC 6335 does not allow (underscore inside, more than 15 characters) is
        # accepted, and so must be every '-N' candidate of a rename (C09-w5-seed2)
        sc["strict"] = False
        sc["type"] = rng.choice(["_ibisip_http._tcp.local.", "_a_very_long_service_type._udp.local."])
        for key in ("pre", "inj"):
            for e in sc[key]:
                e["alias"] = e["alias"].replace("." + type_, "." + sc["type"]).replace("." + type_.swapcase(), "." + sc["type"].swapcase()).replace("." + type_.upper(), "." + sc["type"].upper())
        type_ = sc["type"]
    if rng.random() < 0.3:
        sc["api"] = "aio"  # through the public asyncio wrapper AsyncZeroconf (async_register_service / async_unregister_service / `async with`)
    if rng.random() < 0.15:
        sc["ifaces"] = 2  # a host with two interfaces: every probe and announcement leaves on both
    if kind in ("inject", "peer", "quiet") and "qann" not in sc:
        # after the registration: questions for the names it moved away from (must stay unanswered) and for the name it holds
        sc["qab"] = {"at": rng.choice([1000, 1500, 2500]), "mode": rng.choice(["legacy", "legacy", "qm", "qu"]), "qtype": rng.choice(["srv", "srv", "txt", "any"])}
    if kind == "reuse":
        # the same ServiceInfo object: registered, unregistered, then -- while a peer's pointer for the old name is cached --
        # registered again; mostly hosts with a single address family (the NSEC record is built from the instance name)
        fam = rng.choice(["v4", "v4", "v6", "v6", "both", "none"])
        sc["v4"] = rng.sample(V4, rng.choice([1, 2])) if fam in ("v4", "both") else []
        sc["v6"] = rng.sample(V6, rng.choice([1, 2])) if fam in ("v6", "both") else []
        sc["allow"] = rng.random() < 0.85
        sc["unreg_at"] = rng.choice([900, 1000, 1500])
        sc["reuse_at"] = sc["unreg_at"] + rng.choice([300, 1000, 2000])
        if rng.random() < 0.85:
            for n in range(1, rng.choice([1, 1, 2, 3]) + 1):
                sc["inj"].append({"at": sc["unreg_at"] + 260 + rng.randint(0, 30), "alias": name(n), "ttl": 4500})
        if rng.random() < 0.3:
            sc["inj"].append({"at": sc["reuse_at"] + rng.choice(OFFS[3:]), "alias": alias_choice(), "ttl": 4500})
    return sc


def make_info(sc, name=None, port=None):
    from zeroconf import ServiceInfo

    addrs = [bytes.fromhex(a) for a in sc["v4"] + sc["v6"]]
    return ServiceInfo(sc["type"], name or "%s.%s" % (sc["inst"], sc["type"]), sc["port"] if port is None else port,
                       weight=sc.get("weight", 0), priority=sc.get("priority", 0),
                       properties=bytes.fromhex(sc["text"]), server=sc["server"], host_ttl=sc["host_ttl"], other_ttl=sc["other_ttl"],
                       addresses=addrs)


def resp_ptr(type_, alias, ttl, salt=0):
    from zeroconf import DNSOutgoing, DNSPointer, const

    out = DNSOutgoing(const._FLAGS_QR_RESPONSE | const._FLAGS_AA, id_=0)
    out.add_answer_at_time(DNSPointer(type_, const._TYPE_PTR, const._CLASS_IN, ttl, alias), 0)
    if salt:
        # make the datagram unique so that the listener's duplicate guard never drops it
        from zeroconf import DNSText

        out.add_additional_answer(DNSText("salt%d.local." % salt, const._TYPE_TXT, const._CLASS_IN, 1, b"\x00"))
    return out.packets()[0]


class Host2(vsim.Host):
    """a host with several interfaces: `vsim` keeps every transport in `self.transports` (creation order = socket order);
    `transport` (what `deliver` and the loopback use) stays the first one"""

    @property
    def transport(self):
        return self.transports[0] if getattr(self, "transports", None) else None

    @transport.setter
    def transport(self, tr):
        pass


def make_host(sim, ifaces=1, name="A", ip="10.0.0.1"):
    """one sender socket per interface (`create_sockets` replaced), no dedicated listen socket"""
    if ifaces <= 1:
        return sim.make_host(name, ip)
    from unittest import mock

    import zeroconf._core as core
    from zeroconf import Zeroconf

    host = Host2(sim, name, ip)
    socks = [vsim.FakeSock(10 + 2 * len(sim.net.hosts) + i, ("10.0.%d.1" % i, 5353)) for i in range(ifaces)]
    for sk in socks:
        vsim._sock_host[id(sk)] = host
    with mock.patch.object(core, "create_sockets", lambda *a, **k: (None, socks)):
        host.zc = Zeroconf(interfaces=[ip])
    return host


class ScriptRng:
    def __init__(self, script, seed):
        import random

        self.script = list(script)
        self.r = random.Random(seed)

    def randint(self, lo, hi):
        if self.script:
            return max(lo, min(hi, self.script.pop(0)))
        return self.r.randint(lo, hi)


class Tap:
    """class-level wrappers that log the block boundaries of async_check_service (no source hooks)"""

    def __init__(self, sim):
        self.sim = sim
        self.ev = []
        self.cur = {}
        self.saved = []
        self.cur_tr = 0  # index of the transport (interface) the datagram being sent leaves on

    def snapshot(self, zc, info):
        # times relative to the start of the simulation, like every other time of the log
        # read the store itself, not `entries_with_name` / `current_entry_with_name_and_alias` (the functions under test):
        # every bucket whose key is the type, case-insensitively
        want = info.type.lower()
        return [C.rec_line(r, created=int(r.created) - vsim.T0) for k, recs in list(zc.cache.cache.items()) if k.lower() == want for r in list(recs)]

    def install(self):
        import zeroconf._core as core
        from zeroconf._services.registry import ServiceRegistry

        tap, sim = self, self.sim
        o_wait, o_chk, o_gen, o_add = (core.Zeroconf.async_wait, core.Zeroconf.async_check_service,
                                       core.Zeroconf.generate_service_broadcast, ServiceRegistry.async_add)
        o_send = core.Zeroconf.async_send
        o_sendto = vsim.FakeTransport.sendto

        def sendto(self_, data, addr=None):
            tap.cur_tr = self_.host.transports.index(self_) if self_ in self_.host.transports else 0
            return o_sendto(self_, data, addr)

        def asend(self_, out, addr=None, port=5353, v6_flow_scope=(), transport=None):
            # delimits the datagrams of one async_send call in the event log
            tap.ev.append(("asend", sim.now(), id(self_)))
            return o_send(self_, out, addr, port, v6_flow_scope, transport)

        async def wait(self_, timeout):
            info = tap.cur.get(id(self_))
            tap.ev.append(("wait", sim.now(), id(self_), timeout))
            await o_wait(self_, timeout)
            tap.ev.append(("woke", sim.now(), id(self_), tap.snapshot(self_, info) if info is not None else [], info.name if info is not None else None))

        async def chk(self_, info, allow_name_change, cooperating_responders=False, strict=True):
            tap.cur[id(self_)] = info
            tap.ev.append(("start", sim.now(), id(self_), tap.snapshot(self_, info), info.name))
            try:
                await o_chk(self_, info, allow_name_change, cooperating_responders, strict)
            except BaseException as ex:
                tap.ev.append(("end", sim.now(), id(self_), type(ex).__name__, info.name))
                raise
            finally:
                tap.cur.pop(id(self_), None)
            tap.ev.append(("end", sim.now(), id(self_), "ok", info.name))

        def gen(self_, info, ttl, broadcast_addresses=True):
            tap.ev.append(("bcast", sim.now(), id(self_), id(info), ttl, broadcast_addresses))
            return o_gen(self_, info, ttl, broadcast_addresses)

        def add(self_, info):
            r = o_add(self_, info)  # raises ServiceNameAlreadyRegistered for a name the instance already holds
            tap.ev.append(("regadd", sim.now(), id(self_), info.name))
            return r

        core.Zeroconf.async_wait = wait
        core.Zeroconf.async_send = asend
        core.Zeroconf.async_check_service = chk
        core.Zeroconf.generate_service_broadcast = gen
        ServiceRegistry.async_add = add
        vsim.FakeTransport.sendto = sendto
        self.saved = [(vsim.FakeTransport, "sendto", o_sendto), (core.Zeroconf, "async_send", o_send), (core.Zeroconf, "async_wait", o_wait), (core.Zeroconf, "async_check_service", o_chk),
                      (core.Zeroconf, "generate_service_broadcast", o_gen), (ServiceRegistry, "async_add", o_add)]
        sim.net.on_send = lambda t, src, data, addr: tap.ev.append(("send", t, id(src.zc), data, addr, tap.cur_tr))

    def remove(self):
        for cls, name, orig in self.saved:
            setattr(cls, name, orig)


def run_scenario(sc):
    """drive the real code; returns the observation dict"""
    sim = vsim.Sim(sc["seed"], maxdelay=200)
    sim.net_rng = ScriptRng(sc["delays"], sc["seed"])
    obs = {}

    async def scenario_main(sim):
        tap = Tap(sim)
        tap.install()
        try:
            return await body(sim, tap)
        finally:
            tap.remove()

    async def body(sim, tap):
        type_ = sc["type"]
        peer = None
        if sc["kind"] == "peer":
            peer = sim.make_host("B", "10.0.0.2")
            await peer.zc.async_wait_for_start()
            for n in range(1, sc["peer_chain"] + 1):
                nm = "%s.%s" % (sc["inst"], type_) if n == 1 else "%s-%d.%s" % (sc["inst"], n, type_)
                try:
                    pi = make_info(dict(sc, server="hostb.local.", v4=["0a000002"], v6=[]), name=nm)
                except Exception:  # noqa: BLE001  (the suffixed name is not a valid service name)
                    break
                await sim.sleep_until(WARM - 20000 + n * 2000)
                t = await peer.zc.async_register_service(pi, strict=sc.get("strict", True))
                await t
        # host A is created after the peer has announced, so that it learns the conflict only from the probe replies;
        # without a peer, early enough to learn the pre-populated entries
        await sim.sleep_until(min([WARM - 5000] + [WARM - p["age"] - 1000 for p in sc["pre"]]))
        a = make_host(sim, sc.get("ifaces", 1))
        za = a.zc
        await za.async_wait_for_start()
        api = za
        if sc.get("api") == "aio":
            from zeroconf.asyncio import AsyncZeroconf

            api = AsyncZeroconf(zc=za)
        t0 = WARM
        salt = [0]

        def inj(alias, ttl):
            salt[0] += 1
            try:
                data = resp_ptr(type_, alias, ttl, salt[0])
            except Exception:  # noqa: BLE001  (a label of the alias does not fit 63 bytes: no peer could send it)
                return
            a.inject(data, "10.0.0.9")

        for p in sc["pre"]:
            sim.loop.call_at((vsim.T0 + t0 - p["age"]) / 1000.0, inj, p["alias"], p["ttl"])
        for j in sc["inj"]:
            sim.loop.call_at((vsim.T0 + t0 + j["at"]) / 1000.0, inj, j["alias"], j["ttl"])
        await sim.sleep_until(t0)
        info = make_info(sc)
        results = []

        nq = [0]

        def resolution_query(info, q):
            from zeroconf import DNSOutgoing, DNSQuestion, const

            nq[0] += 1
            out = DNSOutgoing(const._FLAGS_QR_QUERY, id_=nq[0] if q["mode"] == "legacy" else 0)
            cls = const._CLASS_IN | (const._CLASS_UNIQUE if q["mode"] == "qu" else 0)
            k = q["kind"]
            if k.startswith("ptr"):
                out.add_question(DNSQuestion(info.type, const._TYPE_PTR, cls))
            out.add_question(DNSQuestion(info.name, const._TYPE_SRV, cls))
            if k == "resolve":
                out.add_question(DNSQuestion(info.name, const._TYPE_TXT, cls))
            if k in ("resolve", "srv+a"):
                out.add_question(DNSQuestion(info.server, const._TYPE_A, cls))
            if k in ("resolve", "ptr+srv+aaaa"):
                out.add_question(DNSQuestion(info.server, const._TYPE_AAAA, cls))
            a.inject(out.packets()[0], "10.0.0.%d" % (20 + nq[0]), 40000 if q["mode"] == "legacy" else 5353)

        qab_log = []

        def name_question(nm, role, k):
            """a question for one instance name from a source of its own (a legacy-unicast reply goes back to exactly that address)"""
            from zeroconf import DNSOutgoing, DNSQuestion, const

            q = sc["qab"]
            mode = q["mode"]
            out = DNSOutgoing(const._FLAGS_QR_QUERY, id_=(100 + k) if mode == "legacy" else 0)
            cls = const._CLASS_IN | (const._CLASS_UNIQUE if mode == "qu" else 0)
            out.add_question(DNSQuestion(nm, {"srv": const._TYPE_SRV, "txt": const._TYPE_TXT, "any": const._TYPE_ANY}[q["qtype"]], cls))
            src = ("10.0.0.%d" % (60 + k), 40100 + k if mode == "legacy" else 5353)
            qab_log.append({"t": sim.now(), "name": nm, "role": role, "mode": mode, "src": list(src)})
            a.inject(out.packets()[0], src[0], src[1])

        def schedule_name_questions(info, first_name):
            if "qab" not in sc or info.name == first_name:
                return
            # the names the registration moved away from: the original one and every suffix below the final one
            inst = first_name[: -len(sc["type"]) - 1]
            names = [first_name]
            n = 2
            while "%s-%d.%s" % (inst, n, sc["type"]) != info.name and n < 6:
                names.append("%s-%d.%s" % (inst, n, sc["type"]))
                n += 1
            plan = [(nm, "abandoned") for nm in names[:3]] + [(info.name, "final")]
            for k, (nm, role) in enumerate(plan):
                sim.loop.call_later((sc["qab"]["at"] + 1400 * k) / 1000.0, name_question, nm, role, k)

        async def scenario_register(info):
            first_name = info.name
            try:
                task = await api.async_register_service(info, ttl=sc["ttl_arg"], allow_name_change=sc["allow"], strict=sc.get("strict", True))
                results.append(("ok", info.name))
                schedule_name_questions(info, first_name)
                for q in sc.get("qann", []):
                    sim.loop.call_later(q["off"] / 1000.0, resolution_query, info, q)
                await task
            except Exception as ex:  # noqa: BLE001
                results.append((type(ex).__name__, info.name))

        rt = asyncio.ensure_future(scenario_register(info))
        info2 = None
        if sc["kind"] == "twice":
            await sim.sleep_until(t0 + 3000)
            info2 = make_info(sc, port=(sc["port"] + 1) % 65536)
            rt2 = asyncio.ensure_future(scenario_register(info2))
            await rt2
        await rt
        if sc["kind"] == "reuse":
            await sim.sleep_until(t0 + sc["unreg_at"])
            if results and results[0][0] == "ok":
                gt = await api.async_unregister_service(info)
                await gt
            await sim.sleep_until(t0 + sc["reuse_at"])
            await scenario_register(info)
        await sim.sleep_until(t0 + 12000)
        obs["t0"] = t0
        obs["zc"] = id(za)
        obs["reg"] = id(za.registry)
        obs["results"] = results
        obs["infos"] = [id(info)] + ([id(info2)] if info2 is not None else []) + ([id(info)] if sc["kind"] == "reuse" else [])
        obs["info_fields"] = info_fields(info)
        obs["registry"] = {"services": sorted(za.registry._services), "types": {k: list(v) for k, v in za.registry.types.items()},
                           "servers": {k: list(v) for k, v in za.registry.servers.items()}}
        obs["ev"] = tap.ev
        obs["qab"] = qab_log
        if sc.get("api") == "aio":
            await api.__aexit__(None, None, None)
        else:
            await vsim.close_host(a)
        if peer is not None:
            await vsim.close_host(peer)

    sim.run(scenario_main)
    obs["errors"] = [repr(e.get("exception")) + " " + str(e.get("message")) for e in sim.errors]
    return obs


def info_fields(info):
    return {"type": info.type, "name": info.name, "server": info.server, "port": info.port, "weight": info.weight, "priority": info.priority,
            "text": info.text.hex(), "host_ttl": info.host_ttl, "other_ttl": info.other_ttl}


# ------------------------------------------------------------------------------------------
# block reconstruction


def blocks_of(obs, which=0):
    """the blocks of the `which`-th async_check_service call of host A:
    [{now, bucket, name, sends:[bytes], end:(kind, arg), name_after}], plus outcome"""
    zc = obs["zc"]
    calls = []
    cur = None
    blk = None
    for e in obs["ev"]:
        if e[2] != zc:
            continue
        k = e[0]
        if k == "start":
            cur = {"blocks": [], "outcome": None, "t_end": None}
            calls.append(cur)
            blk = {"now": e[1], "bucket": e[3], "name": e[4], "sends": [], "by_tr": {}}
        elif k == "woke" and cur is not None:
            blk = {"now": e[1], "bucket": e[3], "name": e[4], "sends": [], "by_tr": {}}
        elif k == "send" and blk is not None:
            # `sends` = what left on the first interface (the model's view); `by_tr` = per interface, for the oracle
            if e[5] == 0:
                blk["sends"].append(e[3])
            blk["by_tr"].setdefault(e[5], []).append(e[3])
        elif k == "wait" and blk is not None:
            blk["end"] = ("wait", e[1] + int(e[3]))
            cur["blocks"].append(blk)
            blk = None
        elif k == "end" and cur is not None:
            blk["end"] = ("done",) if e[3] == "ok" else ("raise", e[3])
            blk["name_after"] = e[4]
            cur["blocks"].append(blk)
            cur["outcome"] = e[3]
            cur["final_name"] = e[4]
            cur["t_end"] = e[1]
            blk = None
            cur = None
    return calls


def announcements_of(obs, info_id, t_from=None, t_to=None):
    """[(t, [datagrams on the first interface], {interface: [datagrams]})] of the positive-TTL broadcasts of one info: the datagrams
    of the async_send call that follows each generate_service_broadcast(info, <no goodbye>)"""
    out = []
    state = None  # None | "armed" (broadcast generated, waiting for its async_send) | "open" (collecting its datagrams)
    for e in obs["ev"]:
        if e[2] != obs["zc"]:
            continue
        if (t_from is not None and e[1] < t_from) or (t_to is not None and e[1] >= t_to):
            state = None
            continue
        if e[0] == "bcast":
            state = "armed" if (e[3] == info_id and e[4] != 0) else None
        elif e[0] == "asend":
            if state == "armed":
                out.append([e[1], [], {}])
                state = "open"
            else:
                state = None
        elif e[0] == "send":
            if state == "open":
                if e[5] == 0:
                    out[-1][1].append(e[3])
                out[-1][2].setdefault(e[5], []).append(e[3])
        elif state == "open":
            state = None
    return out


# ------------------------------------------------------------------------------------------
# model line


def svc_tokens(sc, name, ttl_arg):
    host_ttl = sc["host_ttl"] if ttl_arg is None else ttl_arg
    other_ttl = sc["other_ttl"] if ttl_arg is None else ttl_arg
    # server=None: set_server_if_missing copies the name the info had at its first registration
    server = sc["server"] or "%s.%s" % (sc["inst"], sc["type"])
    return "%s %s %s %d %d %d %s %d %s %d %s %d %d" % (
        C.hs(sc["type"]), C.hs(name), C.hs(server), sc["port"], sc.get("weight", 0), sc.get("priority", 0), C.hx(bytes.fromhex(sc["text"])),
        len(sc["v4"]), " ".join(sc["v4"]), len(sc["v6"]), " ".join(sc["v6"]), host_ttl, other_ttl)


def start_inst(sc, call):
    """instance_name_from_service_info at the start of a call: the info's current name without the type"""
    return call["blocks"][0]["name"][: -len(sc["type"]) - 1]


def invalid_names(sc, upto, inst=None):
    from zeroconf._utils.name import service_type_name

    inst = sc["inst"] if inst is None else inst
    bad = []
    for n in range(2, upto + 1):
        nm = "%s-%d.%s" % (inst, n, sc["type"])
        try:
            service_type_name(nm, strict=sc.get("strict", True))
        except Exception:  # noqa: BLE001
            bad.append(nm)
    return bad


def model_line(sc, call, port=None):
    blocks = call["blocks"]
    name0 = blocks[0]["name"]
    inst = start_inst(sc, call)
    upto = max(len(b["bucket"]) for b in blocks) + len(blocks) + 4
    bad = invalid_names(sc, upto, inst)
    toks = [svc_tokens(dict(sc, port=sc["port"] if port is None else port), name0, sc["ttl_arg"]), C.hs(inst), C.b01(sc["allow"]),
            str(len(bad))] + [C.hs(b) for b in bad]
    for i, b in enumerate(blocks):
        if i == 1:
            toks.append(str(len(blocks) - 1))
        toks.append("%d %d %s" % (b["now"], len(b["bucket"]), " ".join(b["bucket"])))
    if len(blocks) == 1:
        toks.append("0")
    return "c09run " + " ".join(t for t in toks if t != "")


def impl_blocks(call):
    out = []
    for b in call["blocks"]:
        e = b["end"]
        es = "wait:%d" % e[1] if e[0] == "wait" else ("done" if e[0] == "done" else "raise:%s" % e[1])
        out.append((";".join(pkt_canon(d) for d in b["sends"]), es))
    return out


# ------------------------------------------------------------------------------------------
# stage O: the property's own sentence on the wire-level observation


def unexpired_aliases(bucket_lines, now):
    """aliases of the PTR records of a bucket snapshot that are unexpired at `now` (independent arithmetic)"""
    out = set()
    for line in bucket_lines:
        f = line.split()
        if f[0] != "p" or int(f[2]) != 12:
            continue
        ttl, created = int(f[5]), int(f[6])
        if created + ttl * 1000 > now:
            out.add(bytes.fromhex(f[7]).decode() if f[7] != "-" else "")
    return out


def oracle(sc, obs, res, case):
    from zeroconf import const

    calls = blocks_of(obs)
    if not calls:
        res.violate("C09:no-check", "async_check_service never ran", case)
        return
    viol = []
    own_all = set()  # names this host holds through a completed registration (filled below)
    all_sends = [(e[1], e[3]) for e in obs["ev"] if e[0] == "send" and e[2] == obs["zc"]]
    ifaces = sc.get("ifaces", 1)
    abandoned_by_call = {}
    for ci, call in enumerate(calls):
        info_id = obs["infos"][ci] if ci < len(obs["infos"]) else None
        name0 = call["blocks"][0]["name"]
        inst = start_inst(sc, call)
        t_from = call["blocks"][0]["now"]
        t_to = calls[ci + 1]["blocks"][0]["now"] if ci + 1 < len(calls) else None
        # ---- every datagram of the check is a probe: QU PTR question for the type, proposed pointer in the authority section
        probes = []  # (t, proposed name)
        for b in call["blocks"]:
            if b["sends"] and any(b["by_tr"].get(tr, []) != b["sends"] for tr in range(ifaces)):
                viol.append(("C09:probe-not-on-every-interface", "a probe left on interface(s) %r of %d" % (sorted(b["by_tr"]), ifaces)))
            for d in b["sends"]:
                m, an, au, ad = decode(d)
                ok = (m.is_query() and len(m.questions) == 1 and m.questions[0].name == sc["type"] and m.questions[0].type == const._TYPE_PTR
                      and m.questions[0].unique and m.questions[0].class_ == const._CLASS_IN and not an and not ad and len(au) == 1
                      and au[0].type == const._TYPE_PTR and au[0].name == sc["type"] and not au[0].unique)
                if not ok:
                    viol.append(("C09:probe-shape", "a probe is not a QU PTR question for the type with the proposed pointer in the authority section"))
                    continue
                probes.append((b["now"], au[0].alias))
        # ---- conflicts seen by a check: same spelling, unexpired, current name
        suffix_used = 1
        cur = name0
        for bi, b in enumerate(call["blocks"]):
            taken = unexpired_aliases(b["bucket"], b["now"])
            if b["name"] != cur:
                viol.append(("C09:name-changed-between-blocks", "info.name changed outside a conflict check"))
                cur = b["name"]
            if cur in taken:
                after = call["blocks"][bi + 1]["name"] if bi + 1 < len(call["blocks"]) else call["final_name"]
                if not sc["allow"]:
                    if b["end"] != ("raise", "NonUniqueNameException"):
                        viol.append(("C09:conflict-not-raised", "cache holds the instance name at a check before the last probe, renaming not allowed, but no NonUniqueNameException"))
                else:
                    # first free "-N" above everything tried so far
                    n = max(2, suffix_used + 1)
                    trail = [cur]
                    bad = set(invalid_names(sc, n + len(taken) + 2, inst))
                    want = None
                    while True:
                        cand = "%s-%d.%s" % (inst, n, sc["type"])
                        if cand in bad:
                            break  # not a valid service name (instance label over 63 bytes): registration must fail
                        if cand not in taken:
                            want = cand
                            break
                        trail.append(cand)
                        n += 1
                    if want is None:
                        if b["end"] != ("raise", "BadTypeInNameException"):
                            viol.append(("C09:invalid-candidate-accepted", "a candidate name that is not a valid service name did not fail the registration"))
                        abandoned_by_call.setdefault(ci, set()).update(trail)
                        break
                    if b["end"][0] == "raise":
                        # the first free suffix is a valid name (under the rules the caller registered with): the registration proceeds
                        viol.append(("C09:rename-raised-although-suffix-free", "conflict, renaming allowed, first free suffix %r is a valid name (strict=%s), but the registration failed with %s"
                                     % (want, sc.get("strict", True), b["end"][1])))
                    if after != want:
                        viol.append(("C09:not-first-free-suffix", "after a conflict the name is %r, first free suffix is %r" % (after, want)))
                    elif not b["sends"]:
                        # today's code sends the first probe of the new name in this very block; the sentence does not ask for it
                        # (the three probes 175 ms apart are demanded below): counted, compared by stage C only
                        res.count("rename-without-immediate-probe")
                    abandoned_by_call.setdefault(ci, set()).update(trail)
                    suffix_used = n
                    cur = after
            else:
                if b["end"][0] == "raise":
                    viol.append(("C09:raised-without-conflict", "registration failed (%s) although the name was free" % b["end"][1]))
        # ---- schedule
        if call["outcome"] == "ok":
            fin = call["final_name"]
            if len(probes) < 3 or [p[1] for p in probes[-3:]] != [fin] * 3:
                viol.append(("C09:three-probes", "registration completed without three probes for the final name"))
            else:
                T = probes[-3][0]
                if [p[0] for p in probes[-3:]] != [T, T + CHECK, T + 2 * CHECK]:
                    viol.append(("C09:probe-spacing", "the three probes of the final name are not 175 ms apart: %r" % [p[0] - T for p in probes[-3:]]))
                if call["t_end"] != T + 2 * CHECK:
                    res.count("check-ends-after-third-probe")  # not in the sentence: stage C compares it
                # earlier probes belong to abandoned names or to a restarted sequence; same-name neighbours are 175 ms apart
            for (ta, na), (tb, nb) in zip(probes, probes[1:]):
                if na == nb and tb - ta != CHECK and not (tb - ta < CHECK and False):
                    # a restart (i := 0) for the same name cannot happen: the name changes at every restart
                    viol.append(("C09:probe-gap", "consecutive probes for one name %d ms apart" % (tb - ta)))
            ann = announcements_of(obs, info_id, t_from, t_to) if info_id is not None else []
            registered = any(e[0] == "regadd" and e[2] == obs["reg"] and e[3] == fin and e[1] == call["t_end"] for e in obs["ev"])
            api = obs["results"][ci][0] if ci < len(obs["results"]) else None
            if not registered and api == "ok":
                # async_register_service returned normally, yet the name did not enter the registry at the instant the check ended
                viol.append(("C09:not-registered-after-check", "the check completed and async_register_service returned, but registry.async_add(%r) was not observed at that instant" % fin))
            if registered:
                Tl = probes[-1][0] if probes else call["t_end"]
                times = [a[0] for a in ann]
                # "... and only then three announcements 225 ms apart": three, 225 ms apart, none before the last probe.  (That the
                # first one leaves at the very instant of the third probe is today's code, not the sentence: stage C compares it.)
                if len(times) != 3 or [t - times[0] for t in times] != [0, ANNOUNCE, 2 * ANNOUNCE]:
                    viol.append(("C09:announce-times", "%d announcements, at %r relative to the first" % (len(times), [t - times[0] for t in times])))
                elif times[0] < Tl:
                    viol.append(("C09:announced-before-last-probe", "first announcement %d ms before the last probe" % (Tl - times[0])))
                for t, dgs, per in ann:
                    if sorted(per) != list(range(ifaces)) or any(sorted(per[tr]) != sorted(dgs) for tr in per):
                        viol.append(("C09:announcement-not-on-every-interface", "an announcement left on interface(s) %r of %d" % (sorted(per), ifaces)))
                    if not dgs:
                        viol.append(("C09:announce-datagrams", "an announcement was 0 datagrams"))
                        continue
                    v = check_announcement(dict(sc, port=sc["port"] if (ci == 0 or sc["kind"] != "twice") else (sc["port"] + 1) % 65536), obs, fin, dgs)
                    if v:
                        viol.append(v)
        else:
            # failed registration: nothing is ever announced for this info
            if info_id is not None and announcements_of(obs, info_id, t_from, t_to):
                viol.append(("C09:announced-after-failure", "a failed registration was announced"))
            if any(e[0] == "regadd" and e[2] == obs["reg"] and e[1] >= call["blocks"][0]["now"] and e[1] <= call["t_end"] for e in obs["ev"]) and (ci == 0 or sc["kind"] == "reuse"):
                viol.append(("C09:registered-after-failure", "a failed registration reached the registry"))
    # ---- the conflicting name is never announced or answered for: any response datagram of the host, from the start of the
    # registration that met the conflict until the next registration starts (a later registration may obtain a name that has
    # become free meanwhile)
    for ci, call in enumerate(calls):
        lo = call["blocks"][0]["now"]
        hi = calls[ci + 1]["blocks"][0]["now"] if ci + 1 < len(calls) else None
        ab = abandoned_by_call.get(ci, set())
        # names this host itself holds from earlier registrations (none when the earlier registration was withdrawn again)
        own = set() if sc["kind"] == "reuse" else {c["final_name"] for c in calls[:ci] if c["outcome"] == "ok"}
        own_all |= {c["final_name"] for c in calls if c["outcome"] == "ok"}
        legacy_host = None if sc["server"] else "%s.%s" % (sc["inst"], sc["type"])
        for k, (t, d) in enumerate(all_sends):
            if t < lo or (hi is not None and t >= hi):
                continue
            m, an, au, ad = decode(d)
            if m.is_query():
                continue
            from zeroconf import _dns as _d

            for r in an + au + ad:
                # owner name, pointer alias, and the names inside the rdata (SRV target, NSEC next name)
                for nm in (r.name, getattr(r, "alias", None), getattr(r, "server", None), getattr(r, "next_name", None)):
                    if r.ttl > 0 and nm in ab and nm not in own:
                        if nm == legacy_host and ((isinstance(r, _d.DNSAddress) and nm == r.name) or (isinstance(r, _d.DNSService) and nm == r.server and nm != r.name)):
                            # KNOWN FINDING: server=None made the first instance name the host name; a rename does not move it
                            viol.append(("C09:server-none-keeps-conflicting-host-name",
                                         "legacy server=None: after the rename the address records are still announced under the conflicting instance name %r" % (nm,)))
                        else:
                            viol.append(("C09:conflicting-name-sent", "a %s record carries the conflicting name %r" % (type(r).__name__, nm)))
    # ---- "... or answered for": a question for a name the registration moved away from gets no reply; one for the name it holds does
    for q in obs.get("qab", []):
        replies = []
        for e in obs["ev"]:
            if e[0] != "send" or e[2] != obs["zc"] or e[1] < q["t"] or e[1] > q["t"] + 1300:
                continue
            m, an, au, ad = decode(e[3])
            if m.is_query():
                continue
            if q["mode"] == "legacy":
                if list(e[4][:2]) == q["src"]:
                    replies.append((e[1], an + ad))
            else:
                replies.append((e[1], an + ad))
        if q["role"] == "abandoned" and q["name"] not in own_all:
            from zeroconf import _dns as _d2

            legacy = None if sc["server"] else "%s.%s" % (sc["inst"], sc["type"])
            if replies and q["name"] == legacy and all(isinstance(r, (_d2.DNSAddress, _d2.DNSNsec)) and r.name == legacy for _, recs in replies for r in recs):
                # KNOWN FINDING D16: with server=None the first instance name is also the host name; the host keeps answering for it
                viol.append(("C09:server-none-keeps-conflicting-host-name",
                             "legacy server=None: after the rename a question for the conflicting instance name %r is still answered with the host's address records" % (legacy,)))
            elif replies:
                viol.append(("C09:abandoned-name-answered", "a %s question for %r -- a name the registration moved away from -- was answered %d ms later with %r"
                             % (q["mode"], q["name"], replies[0][0] - q["t"], sorted({(type(r).__name__, r.name) for r in replies[0][1]})[:4])))
        elif q["role"] == "final":
            if not any(r.name.lower() == q["name"].lower() for _, recs in replies for r in recs):
                viol.append(("C09:held-name-not-answered", "a %s question for %r -- the name the registration completed under -- got no answer" % (q["mode"], q["name"])))
    # ---- one instance never holds the same name twice
    reg = obs["registry"]
    if len(set(reg["services"])) != len(reg["services"]):
        viol.append(("C09:registry-duplicate", "registry holds a name twice"))
    for idx in ("types", "servers"):
        for k, v in reg[idx].items():
            if len(set(v)) != len(v):
                viol.append(("C09:registry-index-duplicate", "registry index %s lists a name twice" % idx))
    oks = [r for r in obs["results"] if r[0] == "ok"]
    if sc["kind"] != "reuse" and len({r[1].lower() for r in oks}) != len(oks):
        viol.append(("C09:same-name-registered-twice", "two registrations of one instance completed under the same name"))
    seen = set()
    for sig, what in viol:
        if sig not in seen:
            seen.add(sig)
            res.violate(sig, what, case)


def check_announcement(sc, obs, name, dgs):
    """PTR, SRV, TXT, every address, the NSEC record (the one get_address_and_nsec_records defines: present iff an address
    family is missing); cache-flush bit on the unique records only; custom TTLs.  Expected values come from the scenario (what the
    application passed), not from the implementation's object.  An announcement may need several datagrams (a TXT record above
    1460 bytes): the sections of all of them together are judged."""
    from zeroconf import const

    an = []
    for data in dgs:
        m, an1, au, ad = decode(data)
        if m.is_query() or au or ad or m.questions:
            return ("C09:announce-shape", "announcement is not a plain response")
        an += an1
    # the legacy `ttl=` argument overrides both TTLs; server=None: the name the info had when it was first registered (known finding D16)
    host_ttl = sc["host_ttl"] if sc.get("ttl_arg") is None else sc["ttl_arg"]
    other_ttl = sc["other_ttl"] if sc.get("ttl_arg") is None else sc["ttl_arg"]
    server = sc["server"] or "%s.%s" % (sc["inst"], sc["type"])
    want = []
    want.append(("ptr", sc["type"], const._TYPE_PTR, False, other_ttl, name))
    want.append(("srv", name, const._TYPE_SRV, True, host_ttl, (sc.get("priority", 0), sc.get("weight", 0), sc["port"], server)))
    want.append(("txt", name, const._TYPE_TXT, True, other_ttl, sc["text"]))
    for a in sc["v4"]:
        want.append(("a", server, const._TYPE_A, True, host_ttl, a))
    for a in sc["v6"]:
        want.append(("a", server, const._TYPE_AAAA, True, host_ttl, a))
    missing = ([const._TYPE_A] if not sc["v4"] else []) + ([const._TYPE_AAAA] if not sc["v6"] else [])
    if missing:
        want.append(("nsec", name, const._TYPE_NSEC, True, host_ttl, tuple(missing)))
    got = []
    from zeroconf import _dns as d

    for r in an:
        if isinstance(r, d.DNSPointer):
            got.append(("ptr", r.name, r.type, r.unique, r.ttl, r.alias))
        elif isinstance(r, d.DNSService):
            got.append(("srv", r.name, r.type, r.unique, r.ttl, (r.priority, r.weight, r.port, r.server)))
        elif isinstance(r, d.DNSText):
            got.append(("txt", r.name, r.type, r.unique, r.ttl, r.text.hex()))
        elif isinstance(r, d.DNSAddress):
            got.append(("a", r.name, r.type, r.unique, r.ttl, r.address.hex()))
        elif isinstance(r, d.DNSNsec):
            got.append(("nsec", r.name, r.type, r.unique, r.ttl, tuple(sorted(r.rdtypes))))
        else:
            got.append(("?", r.name, r.type, r.unique, r.ttl, None))
    if sorted(map(repr, got)) != sorted(map(repr, want)):
        miss = [w for w in want if w not in got]
        extra = [g for g in got if g not in want]
        kind = "missing-" + miss[0][0] if miss else "extra-" + extra[0][0]
        return ("C09:announce-content:" + kind, "announcement differs: missing %r extra %r" % (miss[:2], extra[:2]))
    return None


# ------------------------------------------------------------------------------------------


def evaluate(sc, res, lines, pending):
    obs = run_scenario(sc)
    case = {"scenario": sc}
    res.evaluations += 1
    res.count("kind:" + sc["kind"])
    for q in obs.get("qab", []):
        res.count("name-question:%s:%s" % (q["role"], q["mode"]))
    if sc.get("ifaces", 1) > 1:
        res.count("two-interfaces")
    res.count("api:" + sc.get("api", "zeroconf"))
    if not sc.get("strict", True):
        res.count("strict=False:non-rfc6335-type")
    if len(sc["text"]) > 2000:
        res.count("txt-needs-own-datagram")
    if obs["errors"]:
        res.count("loop-errors")
        # an exception that escapes a background task / timer callback into the loop's handler (a goodbye or announcement task that dies
        # half-way looks like a short sequence otherwise): never on the unchanged tree
        res.violate("C09:exception-in-event-loop", "an exception reached the event loop's handler: %s" % obs["errors"][0][:300], case)
    calls = blocks_of(obs)
    for ci, call in enumerate(calls):
        res.count("outcome:" + str(call["outcome"]))
        res.count("blocks:%d" % min(len(call["blocks"]), 8))
        renamed = call["final_name"] != "%s.%s" % (sc["inst"], sc["type"])
        key = (sc["kind"], call["outcome"], len(call["blocks"]), renamed, sc["allow"], bool(sc["v4"]), bool(sc["v6"]),
               tuple(b["now"] - obs["t0"] for b in call["blocks"][:6]))
        if len(call["blocks"]) > 3 or call["outcome"] != "ok" or renamed:
            res.nontriv(key)
        port = None if (ci == 0 or sc["kind"] != "twice") else (sc["port"] + 1) % 65536
        lines.append(model_line(sc, call, port))
        pending.append((sc, obs, call, ci))
    oracle(sc, obs, res, case)
    if len(res.samples) < 3:
        res.sample({"scenario": {k: sc[k] for k in ("kind", "inst", "type", "allow", "pre", "inj")},
                    "blocks": [[b["now"] - obs["t0"], len(b["sends"]), list(b["end"])] for c in calls for b in c["blocks"]],
                    "results": obs["results"]})
    return obs


def calls_of_obs(obs):
    if "_calls" not in obs:
        obs["_calls"] = blocks_of(obs)
    return obs["_calls"]


def next_call_start(obs, call):
    cs = calls_of_obs(obs)
    for i, c in enumerate(cs):
        if c["blocks"][0]["now"] == call["blocks"][0]["now"] and c["t_end"] == call["t_end"]:
            return cs[i + 1]["blocks"][0]["now"] if i + 1 < len(cs) else None
    return None


def compare(res, pending, model):
    for (sc, obs, call, ci), line in zip(pending, model):
        case = {"scenario": sc, "call": ci}
        toks = line.split(" ")
        if toks[0] == "bad-op":
            res.disagree("c09run", case, "parsed", "bad-op")
            continue
        impl = impl_blocks(call)
        mblocks = toks[:-1]
        tail = toks[-1].split("~")
        ok = len(mblocks) == len(impl)
        if ok:
            for (isends, iend), mb in zip(impl, mblocks):
                f = mb.split("~")
                if len(f) != 3 or f[0] != "[%s]" % isends or f[1] != iend:
                    ok = False
                    break
        want_phase = impl[-1][1]
        if ok and (len(tail) < 3 or tail[1] != want_phase or tail[2] != C.hs(call["final_name"])):
            ok = False
        if ok and call["outcome"] == "ok" and ci < len(obs["infos"]):
            ann = announcements_of(obs, obs["infos"][ci], call["blocks"][0]["now"], next_call_start(obs, call))
            registered = any(e[0] == "regadd" and e[2] == obs["reg"] and e[1] == call["t_end"] and e[3] == call["final_name"] for e in obs["ev"])
            if registered:
                got = ";".join("%d@%s" % (t, msg_canon(dgs)) for t, dgs, _ in ann)
                if len(tail) < 4 or tail[3] != got:
                    ok = False
        if not ok:
            res.disagree("c09run", case, {"blocks": impl, "final": call["final_name"], "outcome": call["outcome"]}, line[:3000])


# ------------------------------------------------------------------------------------------
# the synchronous API on real threads (the simulator cannot host them): `Zeroconf.register_service(info, allow_name_change=...)`

SYNC_FAST = 40  # ms standing for the probe interval (all protocol timers of _core shortened alike)


def sync_register_case(allow, conflict):
    """thread-backed instance, recording transports on the real loop (harness/c17_threads.Rig); the cache optionally holds a peer's
    pointer for the name.  Returns outcome, final name, the names probed for and the names announced."""
    import socket
    import time

    from . import c17_threads as T
    from zeroconf import DNSIncoming, DNSPointer, ServiceInfo, Zeroconf, const

    typ = "_sync._tcp.local."
    name = "s0." + typ
    obs = {}
    with T.Rig(fast=SYNC_FAST) as rig:
        zc = Zeroconf(interfaces=["10.0.0.1"])
        try:
            info = ServiceInfo(typ, name, 80, addresses=[socket.inet_aton("10.0.0.1")], server="hs.local.")
            if conflict:
                async def learn():
                    zc.cache.async_add_records([DNSPointer(typ, const._TYPE_PTR, const._CLASS_IN, 4500, name)])

                asyncio.run_coroutine_threadsafe(learn(), zc.loop).result(2)
            n0 = len(rig.log)
            try:
                zc.register_service(info, allow_name_change=allow)
                outcome = "ok"
            except Exception as ex:  # noqa: BLE001
                outcome = type(ex).__name__
            time.sleep(2 * SYNC_FAST / 1000.0)
            probes, announced = [], []
            for (t, kind, data, addr) in rig.log[n0:]:
                if kind != "sent":
                    continue
                m = DNSIncoming(data)
                if not m.valid:
                    continue
                recs = list(m.answers())
                if m.is_query():
                    probes += [r.alias for r in recs if isinstance(r, DNSPointer)]
                else:
                    announced += [r.alias for r in recs if isinstance(r, DNSPointer) and r.ttl > 0]
            obs = {"outcome": outcome, "final": info.name, "probes": probes, "announced": announced, "registry": sorted(zc.registry._services)}
        finally:
            try:
                zc.close()
            except Exception:  # noqa: BLE001
                pass
    return obs


def sync_register_oracle(case, obs, res):
    """the English sentence on the synchronous wrapper: three probes for the name that is registered, then the announcements; a conflict
    fails the call or renames, as the caller's `allow_name_change` says"""
    res.evaluations += 1
    res.count("sync:allow=%s:conflict=%s" % (case["allow"], case["conflict"]))
    first = "s0._sync._tcp.local."
    full = dict(case, observed=obs)
    if case["conflict"] and not case["allow"]:
        if obs["outcome"] != "NonUniqueNameException" or obs["announced"] or obs["registry"]:
            res.violate("C09:sync-register-conflict-not-raised", "register_service(info) with the name taken and renaming not allowed: outcome %s, announced %r, registry %r"
                        % (obs["outcome"], obs["announced"][:3], obs["registry"]), full)
        return
    want = "s0-2._sync._tcp.local." if case["conflict"] else first
    if obs["outcome"] != "ok" or obs["final"] != want:
        res.violate("C09:sync-register-wrong-name", "register_service(info, allow_name_change=%s), name %s: outcome %s, name %r (expected %r)"
                    % (case["allow"], "taken" if case["conflict"] else "free", obs["outcome"], obs["final"], want), full)
        return
    if len([p for p in obs["probes"] if p == want]) < 3:
        res.violate("C09:sync-register-without-probes", "register_service(info, allow_name_change=%s) registered %r after %d probes for it (probes: %r)"
                    % (case["allow"], want, len([p for p in obs["probes"] if p == want]), obs["probes"][:4]), full)
    if len([a for a in obs["announced"] if a == want]) < 3 or (case["conflict"] and first in obs["announced"]):
        res.violate("C09:sync-register-announcements", "register_service announced %r (expected three announcements of %r%s)"
                    % (obs["announced"][:4], want, ", none of the conflicting name" if case["conflict"] else ""), full)
    res.nontriv(("sync", case["allow"], case["conflict"]))


def run_sync(res, seed):
    cases = [{"stream": "sync-register", "allow": True, "conflict": True}, {"stream": "sync-register", "allow": False, "conflict": True},
             {"stream": "sync-register", "allow": bool(seed % 2), "conflict": False}]
    for case in cases:
        try:
            obs = sync_register_case(case["allow"], case["conflict"])
        except Exception as ex:  # noqa: BLE001
            res.notes.append("sync case %r could not run: %r" % (case, ex))
            continue
        sync_register_oracle(case, obs, res)


def run(ctx):
    res = C.Result("C09")
    rng = C.rng_for(ctx["seed"], "c09")
    n = C.Budget(ctx["tier"], 3000, 60000).n
    if ctx["widened"]:
        n *= 2  # (was 4: a widened quick run exceeded the 120 s cap on a loaded box)
    res.rule = ("scenarios = (service: instance/type/addresses/TTLs) x (renaming allowed?) x cache pre-populated with chains of taken names, some expiring at a probe "
                "instant x conflict/unrelated/other-spelling PTR responses injected at offsets around the probe instants (or a real peer defending the name with "
                "scripted one-way delays 0..176 ms) ; non-trivial = distinct (kind, outcome, number of blocks, renamed?, block times) with a conflict, rename, early wake or failure")
    lines, pending = [], []
    for name, body in C.load_corpus("C09"):
        evaluate(body["scenario"] if "scenario" in body else body, res, lines, pending)
        res.count("corpus")
    run_sync(res, ctx["seed"])
    for i in range(n):
        sc = gen_scenario(rng, i)
        try:
            evaluate(sc, res, lines, pending)
        except Exception as ex:  # noqa: BLE001
            res.notes.append("scenario %d crashed the harness: %r" % (i, ex))
            raise
    if ctx["driver_ok"]:
        try:
            model = C.run_driver(lines)
            compare(res, pending, model)
        except C.DriverUnavailable as ex:
            res.notes.append("driver unavailable: %s" % ex)
    return res


def replay(body):
    case = body.get("case", body)
    if case.get("stream") == "sync-register":
        res = C.Result("C09")
        obs = sync_register_case(case["allow"], case["conflict"])
        sync_register_oracle(case, obs, res)
        return {"violates": bool(res.violations), "violations": [(v["sig"], v["what"]) for v in res.violations], "observed": obs}
    sc = body["case"]["scenario"] if "case" in body else body["scenario"]
    res = C.Result("C09")
    lines, pending = [], []
    obs = evaluate(sc, res, lines, pending)
    out = {"violates": bool(res.violations), "violations": [(v["sig"], v["what"]) for v in res.violations],
           "impl": [{"blocks": impl_blocks(c), "outcome": c["outcome"], "final": c["final_name"]} for c in blocks_of(obs)]}
    try:
        model = C.run_driver(lines)
        compare(res, pending, model)
        out["model"] = model
        out["disagreements"] = res.disagreements
    except C.DriverUnavailable as ex:
        out["model"] = "unavailable: %s" % ex
    return out
