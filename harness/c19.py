"""C19 -- service-name validation (RFC 6763 grammar) and TXT property round trip.

Streams (every one is run against the real code and, when the driver is available, the Lean model):
  name   service_type_name(s, strict=b)            -> returned type | exception class
  ctor   ServiceInfo(type_, name)                  -> ok | exception class   (info.py:183-184)
  txt    ServiceInfo(..., properties=dict)         -> .text, .properties, a fresh decode of .text | exception class
  dec    ServiceInfo(..., properties=<raw bytes>)  -> .properties  (malformed TXT included; correspondence only)

Stage O evaluates the property's own sentence on the implementation's observations with oracles that
are independent of both the code and the model: `oracle_type` (the documented grammar, written with
rpartition instead of the code's split/pop cascade) and `rfc_parse` (RFC 6763 section 6).
"""
from __future__ import annotations

import collections
import itertools
import json
import re

from . import common as C

TRUSTED = [
    "C19: a Python str is modelled as a list of Unicode scalar values; str.encode('utf-8') / str(value) are CPython's "
    "(the harness encodes str keys/values before handing them to the model, with their type tags; a str with a lone surrogate is "
    "handed over as a token without bytes)",
    "C19: the `re` module is modelled only for the pattern subset `^?[class]+?($|\\Z)?` without flags (lean/Zc/Model/Name.lean: parsePat/reSearch)",
    "C19: lru_cache on service_type_name is assumed transparent",
    "C19: .properties is read once, when the object is built; that an all-bytes dictionary is handed back as the caller's own live object "
    "(compared as one bit) is a reading, not a violation: the property speaks of the dictionary given",
]
ASSUMPTIONS = [
    "C19 TXT round trip is demanded ENTRY BY ENTRY: of every entry whose key has no '=', is not the part before the first '=' of another entry's "
    "key and does not have the same bytes as another entry's key (for the RFC reader also: is not empty and not equal to another key up to ASCII case); "
    "every key[=value] item at most 255 bytes; values str/bytes/None; strs that are Unicode text (a lone surrogate -> UnicodeEncodeError, finding D33)",
    "C19 name validation is claimed for strings of Unicode scalar values (no lone surrogates)",
]

LETTERS = "abcdefghijklmnopqrstuvwxyzABCDEFGHIJKLMNOPQRSTUVWXYZ"
DIGITS = "0123456789"
PROTO_TRAILERS = ("._tcp.local.", "._udp.local.")


# ------------------------------------------------------------------------------------------
# independent oracles


def utf8len(s: str) -> int:
    n = 0
    for ch in s:
        o = ord(ch)
        n += 1 if o < 0x80 else 2 if o < 0x800 else 3 if o < 0x10000 else 4
    return n


def svc_ok(label: str, strict: bool) -> bool:
    """service label: leading underscore, letters/digits/hyphens, no leading, trailing or double hyphen, at least
    one letter, at most 15 characters; non-strict additionally allows underscores and longer labels"""
    if label[:1] != "_":
        return False
    b = label[1:]
    if b == "":
        return False
    allowed = LETTERS + DIGITS + "-" + ("" if strict else "_")
    for ch in b:
        if ch not in allowed:
            return False
    if b[0] == "-" or b[-1] == "-" or "--" in b:
        return False
    if not any(ch in LETTERS for ch in b):
        return False
    if strict and len(b) > 15:
        return False
    return True


def inst_ok(i: str) -> bool:
    """instance label at most 63 bytes without control characters"""
    if any(0xD800 <= ord(ch) <= 0xDFFF for ch in i):
        return False  # a lone surrogate has no UTF-8 form: "at most 63 bytes" cannot hold, the name is not text
    return utf8len(i) <= 63 and not any(ord(ch) <= 0x1F or ord(ch) == 0x7F for ch in i)


def prefix_ok(p: str) -> bool:
    """what may stand before the service label: <Instance> or <sub>._sub"""
    if p == "_sub":
        return False
    if p.endswith("._sub"):
        sub = p[: len(p) - 5]
        return sub != "" and sub[0] != "." and inst_ok(sub)
    return inst_ok(p)


def oracle_type(s: str, strict: bool):
    """the service type if `s` is one of the documented forms, else None"""
    if len(s) > 256:
        return None
    for tr in PROTO_TRAILERS:
        if s.endswith(tr):
            body = s[: len(s) - len(tr)]
            pre, dot, svc = body.rpartition(".")
            if not svc_ok(svc, strict):
                return None
            if dot and (pre == "" or not prefix_ok(pre)):
                return None
            return svc + tr
    if strict:
        return None
    if s.endswith(".local."):
        return "local." if prefix_ok(s[: len(s) - 7]) else None
    return None


def rfc_parse(text: bytes):
    """RFC 6763 section 6: length-prefixed strings; `key` (no value), `key=value`; empty strings and strings
    starting with '=' ignored; the first occurrence of a key (case-insensitive) wins.  None if truncated."""
    out, seen, i = [], set(), 0
    while i < len(text):
        n = text[i]
        s = text[i + 1 : i + 1 + n]
        if len(s) < n:
            return None
        i += 1 + n
        if s == b"" or s[:1] == b"=":
            continue
        k, eq, v = s.partition(b"=")
        if k.lower() in seen:
            continue
        seen.add(k.lower())
        out.append((k, v if eq else None))
    return out


def to_bytes(x):
    return x.encode("utf-8", "surrogatepass") if isinstance(x, str) else x


def expected_props(items):
    return [(to_bytes(k), None if v is None else to_bytes(v)) for k, v in items]


def canon(x):
    """total, order-able canonical form of anything the library may hand back: bytes and None are themselves,
    everything else keeps its type name and repr (so a str 'a' never equals the bytes b'a')"""
    if x is None:
        return ("0none", "")
    if type(x) is bytes:
        return ("1bytes", x.hex())
    return ("2" + type(x).__name__, repr(x))


def pairs_of(obj):
    """the (key, value) pairs of whatever `.properties` returned; never raises"""
    try:
        return list(obj.items())
    except Exception:  # noqa: BLE001 - not a mapping: one pseudo-entry that can equal nothing
        return [(("<not a mapping>", type(obj).__name__, repr(obj)[:80]), None)]


def norm(props):
    """order-insensitive, empty value = no value (the library's reading); total on any types"""
    out = []
    for k, v in props:
        if type(v) is bytes and v == b"":
            v = None
        out.append((canon(k), canon(v)))
    return sorted(out)


def exact(props):
    """order-insensitive, empty value kept (the RFC reader's reading); total on any types"""
    return sorted((canon(k), canon(v)) for k, v in props)


def not_bytes(props):
    """the entries of an observed properties mapping whose key is not bytes or whose value is neither bytes nor None"""
    return [(k, v) for k, v in props if type(k) is not bytes or not (v is None or type(v) is bytes)]


def wf_props(exp, rfc=False):
    keys = [k for k, _ in exp]
    if any(b"=" in k for k in keys):
        return False
    if len(set(keys)) != len(keys):
        return False
    if any(len(k) + (0 if v is None else 1 + len(v)) > 255 for k, v in exp):
        return False
    if rfc:
        if any(k == b"" for k in keys) or len({k.lower() for k in keys}) != len(keys):
            return False
    return True


# ------------------------------------------------------------------------------------------
# implementation observations


def impl_name(s, strict):
    from zeroconf._utils.name import service_type_name

    try:
        return ("ok", service_type_name(s, strict=strict))
    except Exception as ex:  # noqa: BLE001 - the class is the observation
        return ("err", type(ex).__name__)


def impl_name_default(s):
    """service_type_name(s) with the `strict` argument left to its default"""
    from zeroconf._utils.name import service_type_name

    try:
        return ("ok", service_type_name(s))
    except Exception as ex:  # noqa: BLE001
        return ("err", type(ex).__name__)


def impl_ctor(type_, name):
    from zeroconf import ServiceInfo

    try:
        ServiceInfo(type_, name)
        return ("ok",)
    except Exception as ex:  # noqa: BLE001
        return ("err", type(ex).__name__)


T0, N0 = "_x._tcp.local.", "n._x._tcp.local."


def impl_txt(items):
    from zeroconf import ServiceInfo

    try:
        given = dict(items)
        info = ServiceInfo(T0, N0, properties=given)
        text = info.text
        got = info.properties
        props = pairs_of(got)
        fresh = pairs_of(ServiceInfo(T0, N0, properties=text).properties) if type(text) is bytes else [(("<text is not bytes>",), None)]
        # 5th: is `.properties` the caller's own (live) dictionary?  (info.py:388-394: yes iff no str was involved)
        return ("ok", text, props, fresh, got is given)
    except Exception as ex:  # noqa: BLE001
        return ("err", type(ex).__name__)


def impl_dec(text):
    from zeroconf import ServiceInfo

    try:
        return ("ok", pairs_of(ServiceInfo(T0, N0, properties=text).properties))
    except Exception as ex:  # noqa: BLE001
        return ("err", type(ex).__name__)


# ------------------------------------------------------------------------------------------
# generators

SVC_GOOD = ["_http", "_a", "_x-y", "_a1", "_1a", "_ipp-tls", "_Z", "_a" + "b" * 14, "_0-a-9", "_mqtt",
            # every letter and digit of the service-name alphabet occurs in a valid label (a hole in a character class
            # -- `[A-Za-ln-z0-9-]` -- is then seen with a concrete name, not only by the pattern lemma)
            "_abcdefghijklmno", "_pqrstuvwxyz0123", "_ABCDEFGHIJKLMNO", "_PQRSTUVWXYZ4567", "_x89"]
# ASCII punctuation an instance label may contain ("punctuation -- including dots"), combining marks, format characters,
# non-ASCII white space and C1 controls (only 0x00-0x1F and 0x7F are forbidden)
PUNCT = "!\"#$%&'()*+,/:;<=>?@[\\]^`{|}~"
INST_PUNCT = ["a\\b", "\\", "it's \"q\"", "a/b@c", "(x),;%&*+!?#$<>|", "[]{}^~`:", "e\u0301", "a\u0308\u0323 z", "\u200d", "\u00a0", "x\u2028y", "\u0085",
              "50% off!", "C:\\dir", "a\\.b", "<tag>", "k=v&k2=v2", "\u0e01\u0e34", "\u202eabc"]
PROTOS = ["_tcp", "_udp"]
# non-ASCII characters that turn INTO ASCII letters/digits under case mapping, case-insensitive matching, casefold or
# Unicode digit tests: U+017F long s (upper -> S, re.I matches [a-z]), U+212A Kelvin sign (lower -> k, re.I matches),
# U+0130 / U+0131 dotted/dotless i, U+00DF sharp s (casefold -> ss), U+FB01 fi ligature, fullwidth A, superscript two,
# Arabic-Indic three.  None of them is a letter or digit of the service-name alphabet.
CASEMAP = ["\u017f", "\u212a", "\u0130", "\u0131", "\u00df", "\ufb01", "\uff21", "\u00b2", "\u0663"]

INST_GOOD = ["Kelvin \u212a", "\u017ftra\u00dfe \u0130\u0131", "foo", "My Printer", "é", "日本語", "😀 office", "a.b", "a.b.c", "x" * 63, "é" * 31 + "x", "日" * 21, "😀" * 15 + "abc",
             "_foo", "1", " ", "a=b", "_sub2", "sub", "_tcp", "x._tcp", "local", "A" * 62] + INST_PUNCT


_INST_W = [1, 1, 1, 2, 3, 4]
# per UTF-8 width: 70 % plain ASCII, 30 % ASCII punctuation; e acute / combining acute / NBSP / NEL; CJK / LINE SEPARATOR / ZWJ; an emoji
_INST_ALPH = {1: "aZ 9_-" * 12 + PUNCT, 2: "é\u0301\u00a0\u0085", 3: "日\u2028\u200d", 4: "😀"}


# the 33 ASCII control characters (0x00-0x1F, 0x7F) an instance label must not contain: every one of them is generated
CONTROLS = [chr(i) for i in range(32)] + ["\x7f"]


def inst_of_bytes(rng, nbytes):
    """an instance label of exactly nbytes UTF-8 bytes from mixed-width characters"""
    out, n = [], 0
    while n < nbytes:
        w = _INST_W[int(rng.random() * 6)]
        if n + w > nbytes:
            w = 1
        alph = _INST_ALPH[w]
        out.append(alph[int(rng.random() * len(alph))])
        n += w
    return "".join(out)


def gen_svc(rng, strict_hint):
    """(label, tag) -- a service label, valid or violating one or more rules"""
    r = rng.random()
    if r < 0.35:
        return rng.choice(SVC_GOOD), "ok"
    n = rng.choice([1, 2, 3, 8, 14, 15, 16, 17, 30])
    body = [rng.choice("abcxyzABZ019") if rng.random() < 0.5 else rng.choice(LETTERS + DIGITS) for _ in range(n)]
    if not any(c in LETTERS for c in body):
        body[rng.randrange(n)] = "q"
    tags = []
    for _ in range(rng.choice([0, 1, 1, 1, 2, 2, 3])):
        m = rng.choice(["lead-", "trail-", "dbl-", "noletter", "under", "bad", "nounder", "empty", "nl", "hy", "long", "casemap", "casemap"])
        tags.append(m)
        if m == "lead-":
            body[0] = "-"
        elif m == "trail-":
            body[-1] = "-"
        elif m == "dbl-" and n >= 4:
            i = rng.randrange(1, n - 2)
            body[i] = body[i + 1] = "-"
        elif m == "hy" and n >= 3:
            body[rng.randrange(1, n - 1)] = "-"
        elif m == "noletter":
            body = [c if c not in LETTERS else rng.choice(DIGITS) for c in body]
        elif m == "under":
            body[rng.randrange(n)] = "_"
        elif m == "bad":
            body[rng.randrange(n)] = rng.choice([" ", "é", "\n", "\x00", "\x7f", "/", "@", "[", "`", "{", ":", "Ｚ", "٣", "\u0301"] + list(PUNCT) + CASEMAP)
        elif m == "casemap":
            # one look-alike in an otherwise valid label, or a label whose ONLY "letter" is the look-alike
            if rng.random() < 0.5:
                body[rng.randrange(n)] = rng.choice(CASEMAP)
            else:
                body = [rng.choice(CASEMAP)] + [rng.choice("0123456789-")[0] for _ in range(rng.choice([0, 0, 1, 2]))]
                if body[-1] == "-":
                    body[-1] = "1"
                n = len(body)
        elif m == "nl":
            body.append("\n")
        elif m == "long":
            body += ["a"] * rng.choice([1, 2, 20])
        elif m == "empty":
            body = []
            break
    lab = "_" + "".join(body)
    if "nounder" in tags:
        lab = lab[1:]
    return lab, "+".join(tags) or "ok"


def gen_prefix(rng):
    """(prefix or None, tag): what stands before the service label"""
    r = rng.random()
    if r < 0.2:
        return None, "none"
    if r < 0.45:
        return rng.choice(INST_GOOD), "inst"
    if r < 0.6:
        nb = rng.choice([1, 61, 62, 63, 64, 65, 66, 100])
        return inst_of_bytes(rng, nb), "inst-bytes%d" % nb
    if r < 0.7:
        base = rng.choice(INST_GOOD[:7])
        ctrl = rng.choice(CONTROLS + ["\x20", "\x80", "\x9f", "\x7e"])
        i = rng.randrange(len(base) + 1)
        return base[:i] + ctrl + base[i:], "inst-ctrl%02x" % ord(ctrl)
    if r < 0.78:
        return rng.choice(["", ".", ".a", "a.", "a..b", "..", "a.", ". "]), "inst-dots"
    # subtype forms
    sub = rng.choice(["_printer", "x", "a.b", "", ".", ".x", "x.", "x..y", "_sub", "é", "\x00", inst_of_bytes(rng, rng.choice([58, 63, 64])),
                      "_sub._sub", "a._sub",
                      # a dotted <sub>: the 63-byte / control-character rule covers ALL of it, not its first component
                      "a.\x00", "ok.b\x7f", "x.\x1f.y", "a." + inst_of_bytes(rng, rng.choice([60, 61, 62, 64])), "a.b." + "x" * rng.choice([59, 60, 70])])
    form = rng.choice(["%s._sub", "%s._sub", "%s._sub", "%s_sub", "%s._Sub", "%s._sub.", "%s._subx", "%s._sub._sub"])
    p = form % sub
    if rng.random() < 0.15:
        p = "_sub"
    return p, "sub"


def gen_trailer(rng):
    r = rng.random()
    if r < 0.7:
        return "." + rng.choice(PROTOS) + ".local.", "proto"
    return rng.choice([".local.", "._tcp.local", "._tcp.Local.", "._TCP.local.", "._sctp.local.", ".tcp.local.", "._tcp.local..",
                       "._tcp.local.\n", "._tcp.", "._tcp.example.", "_tcp.local.", "._udp.local. ", ".local", "", "._tcp._udp.local.",
                       "._udp._tcp.local.", ".local.local."]), "odd-trailer"


def gen_grammar(rng):
    svc, t1 = gen_svc(rng, None)
    pre, t2 = gen_prefix(rng)
    tr, t3 = gen_trailer(rng)
    if rng.random() < 0.06:
        svc, t1 = None, "nosvc"
    parts = ([pre] if pre is not None else []) + ([svc] if svc is not None else [])
    s = ".".join(parts) + tr
    if svc is None and pre is None:
        s = tr
    return s, "%s|%s|%s" % (t1.split("+")[0] if t1 else "", t2.split("-")[0], t3)


def gen_length_boundary(rng):
    """total length 254..258 characters (only reachable in non-strict mode with a long service label, or invalid)"""
    total = rng.choice([254, 255, 256, 256, 257, 257, 258, 300])
    pre = rng.choice([None, "i", inst_of_bytes(rng, 63), "é" * 20])
    tr = "." + rng.choice(PROTOS) + ".local."
    fixed = (len(pre) + 1 if pre is not None else 0) + 1 + len(tr)
    body = "a" * max(1, total - fixed)
    s = (pre + "." if pre is not None else "") + "_" + body + tr
    if rng.random() < 0.3:
        # bare .local. form with a long dotted prefix (rejected for its byte length, or total length)
        s = ("x" * (total - 7)) + ".local."
    return s, "len%d" % len(s)


ALPH = list("abzAZ019-_. mM\\/@'\"!(*") + ["\u0301", "\u00a0"] + CASEMAP[:4] + ["\n", "\x00", "\x7f", "é", "日", "😀", "_tcp", "_udp", "local", "_sub", "._tcp.local.", ".local.", "._sub.", "--"]


def gen_random(rng):
    n = rng.choice([0, 1, 2, 5, 10, 20, 40, 100, 250, 290])
    s = "".join(rng.choice(ALPH) for _ in range(rng.randrange(n + 1)))
    if rng.random() < 0.6:
        s += rng.choice(["._tcp.local.", "._udp.local.", ".local.", "_tcp.local.", "local."])
    return s[:300], "random"


def exhaustive_names(maxlen):
    alpha = ["a", "Z", "1", "-", "_", ".", "\n", "é", "\x7f", "\u017f", "\u212a", "\u0130"]
    for n in range(0, maxlen + 1):
        for tup in itertools.product(alpha, repeat=n):
            lab = "".join(tup)
            yield "_" + lab + "._tcp.local."
            yield "i._" + lab + "._udp.local."
            yield "s._sub._" + lab + "._tcp.local."
            if n <= 2:
                yield lab + "._tcp.local."
                yield lab + ".local."
                yield lab + "._sub._a._tcp.local."
                yield lab + "._a._udp.local."


# keys and values with leading / trailing white space (RFC 6763 6.4: spaces in a key are significant), str and bytes;
# `str.strip()` also removes U+00A0, U+3000, U+2003, U+0085 and U+001C-U+001F, `bytes.strip()` ASCII white space only
WS_KEYS = [" k", "k ", " k ", "\tk", "k\n", " ", "\u00a0k", "\u3000k\u2003", "k\u0085", "\x1fk", b" k", b"k ", b"\tk\n", b" ", b"\x00k", b"\x0bk\x0c",
           "k", b"k2 ", "k2", " K"]


def gen_dict_big(rng):
    """a dictionary whose TXT form has a chosen total size -- around the sizes at which an implementation might cut
    (255/256 bytes, 1300 = RFC 6763 6.2's recommended maximum, one Ethernet datagram, 8966, the 65535-byte rdata limit)
    -- made of many small, a few large or mixed entries; keys are distinct and well-formed"""
    target = rng.choice([255, 256, 400, 512, 1024, 1299, 1300, 1301, 1400, 1460, 1472, 2048, 4096, 8192, 8966, 9000, 16384, 32768, 65535, 65536, 70000])
    target += rng.choice([0, 0, -1, 1, -7, 13])
    # many small entries only up to 9000 bytes (the model's association lists are quadratic in the number of entries)
    style = rng.choice(["small", "large", "mixed", "max"] if target <= 9100 else ["large", "mixed", "max"])
    items, total, i = [], 0, 0
    while total < target:
        room = target - total - 1          # bytes left for this item (without its length octet)
        if room <= 0:
            break
        if style == "small":
            want = rng.choice([1, 2, 5, 9, 12, 20])
        elif style == "large":
            want = rng.choice([200, 250, 253, 254, 255])
        elif style == "max":
            want = 255
        else:
            want = rng.choice([1, 3, 8, 30, 100, 200, 255])
        key = "%x" % i
        want = max(len(key), min(want, room, 255))
        kt = rng.random() < 0.5
        if want == len(key):
            k, v = key, None
        else:
            vlen = want - len(key) - 1
            k = key
            v = rng.choice(["v", "=", "x"]) * vlen if rng.random() < 0.5 else bytes([rng.choice([118, 0, 255, 61])]) * vlen
        items.append((k if kt else k.encode(), v))
        total += 1 + want
        i += 1
    return items


SURROGATE_STRS = ["\ud800", "k\udfff", "\udc80v", "a\ud83d", "\udbff\udbff"]


def gen_dict_surrogate(rng):
    """a small dictionary in which one str key or value holds a lone surrogate (a Python str that is not Unicode text)"""
    items = gen_dict_typed(rng)[:2]
    bad = rng.choice(SURROGATE_STRS)
    if rng.random() < 0.3:
        # a key that differs from a text key only by lone surrogates (an encoder that drops or replaces them merges the two)
        twin = "".join(ch for ch in bad if not 0xD800 <= ord(ch) <= 0xDFFF) or "k"
        pair = [(bad if twin != "k" else "k" + bad, "1"), (twin, "2")]
        rng.shuffle(pair)
        return pair + items[:1]
    if rng.random() < 0.5 or not items:
        items.insert(rng.randrange(len(items) + 1), (bad, rng.choice([None, "v", b"w", ""])))
    else:
        i = rng.randrange(len(items))
        items[i] = (items[i][0], bad)
    return items


def gen_dict(rng):
    """a list of (key, value) pairs with distinct python keys (str and bytes keys are different dict keys)"""
    n = rng.choice([0, 1, 1, 2, 3, 4, 6])
    items, used = [], set()
    for _ in range(n):
        r = rng.random()
        if r < 0.42:
            k = rng.choice(["a", "b", "key", "path", "txtvers", "A", "Key", "é", "日本", "k k", "x" * 9, "x" * rng.choice([100, 200, 253, 254, 255, 256])])
        elif r < 0.5:
            k = rng.choice(WS_KEYS)
        elif r < 0.9:
            k = rng.choice([b"a", b"b", b"key", b"A", b"\xff\x00", b"\xc3\xa9", b"path", b"k" * rng.choice([1, 127, 128, 254, 255, 256])])
        elif r < 0.95:
            k = rng.choice(["", b"", "a=b", b"=", "=x", b"k=", "a", b"a"])
        else:
            k = bytes(rng.randrange(256) for _ in range(rng.choice([1, 2, 5])))
        if (type(k), k) in used:
            continue
        used.add((type(k), k))
        r = rng.random()
        kl = len(to_bytes(k))
        if r < 0.2:
            v = None
        elif r < 0.35:
            v = rng.choice(["", b""])
        elif r < 0.6:
            v = rng.choice(["1", "value", "é", "a=b", "=", "/x/y", "true", "日本", " v", "v ", " ", "\n", "\tv\r\n", "\u00a0v\u3000", "e\u0301"])
        elif r < 0.85:
            v = rng.choice([b"1", b"value", b"\xff", b"\x00", b"a=b", b"=", b"\xc3\xa9", b"\xc3", b" v ", b" ", b"\x00v\x00", b"\x0bv\x0c"])
        else:
            # item length at the 255-byte limit: len(key) + 1 + len(value) in {254, 255, 256}
            room = rng.choice([254, 255, 256]) - kl - 1
            v = (b"v" if rng.random() < 0.5 else "v") * max(0, room)
        items.append((k, v))
    return items


def type_matrix():
    """every combination of key type {str, bytes} and value kind {str, bytes, None, '', b''} for dictionaries of
    1, 2 and 3 entries (1110 dictionaries): in particular all-bytes keys with one str value, all-str, mixed"""
    kinds = [(kt, vk) for kt in ("s", "b") for vk in ("s", "b", "n", "es", "eb")]
    names = ["ka", "kb", "kc"]
    for n in (1, 2, 3):
        for combo in itertools.product(kinds, repeat=n):
            items = []
            for i, (kt, vk) in enumerate(combo):
                k = names[i] if kt == "s" else names[i].encode()
                v = {"s": "v%d" % i, "b": b"w%d" % i, "n": None, "es": "", "eb": b""}[vk]
                items.append((k, v))
            yield items


def dict_types(items):
    """type signature of a dictionary: which key types and value kinds occur"""
    ks = "".join(sorted({"s" if isinstance(k, str) else "b" for k, _ in items}))
    vs = "".join(sorted({"n" if v is None else ("s" if isinstance(v, str) else "b") for _, v in items}))
    return "k%s/v%s" % (ks or "-", vs or "-")


def gen_dict_typed(rng):
    """a dictionary drawn under a key-type policy and a value-type policy (each singly: all bytes, all str, mixed),
    with realistic DNS-SD content (values containing '=', '/', non-ASCII, base64 padding)"""
    kpol = rng.choice(["b", "b", "s", "m"])
    vpol = rng.choice(["s", "s", "b", "m", "one-s", "one-b"])
    n = rng.choice([1, 1, 2, 3, 4])
    keys = rng.sample(["path", "txtvers", "sh", "id", "md", "fn", "A", "rs", "c#", "ff", "x y"], n)
    special = rng.randrange(n)
    items = []
    for i, k in enumerate(keys):
        kt = kpol if kpol != "m" else rng.choice("sb")
        if vpol in ("s", "b"):
            vt = vpol
        elif vpol == "m":
            vt = rng.choice("sbn")
        elif vpol == "one-s":
            vt = "s" if i == special else rng.choice("bn")
        else:
            vt = "b" if i == special else rng.choice("sn")
        sv = rng.choice(["1", "/~paulsm/", "6fLM5A==", "=", "a=b=c", "http://h/p?a=1&b=2", "é", "日本", "", " ", "T", "0"])
        v = None if vt == "n" else (sv if vt == "s" else sv.encode("utf-8"))
        items.append((k if kt == "s" else k.encode(), v))
    return items


def gen_text(rng):
    r = rng.random()
    items = []
    for _ in range(rng.choice([0, 1, 2, 3, 5])):
        items.append(rng.choice([b"a", b"a=1", b"a=2", b"A=3", b"b=", b"=x", b"", b"k=v=w", b"key=" + b"v" * rng.choice([1, 200, 251]), b"\xff=\x00",
                                 bytes(rng.randrange(256) for _ in range(rng.choice([1, 3, 8])))]))
    text = b"".join(bytes([len(i)]) + i for i in items)
    if r < 0.25 and text:
        text = text[: rng.randrange(len(text))]
    elif r < 0.4:
        text += bytes([rng.choice([1, 5, 255])]) + b"ab"[: rng.randrange(3)]
    elif r < 0.5:
        text = bytes(rng.randrange(256) for _ in range(rng.choice([1, 2, 4, 9, 30])))
    elif r < 0.55:
        text = b"\x00" * rng.choice([1, 2, 3])
    return text


# ------------------------------------------------------------------------------------------
# comparison helpers


def tok(x, none="N"):
    """one line-protocol token for a key or value; anything that is not bytes/None is tagged with its type and
    repr, so it can never be mistaken for (or compare equal to) a model token"""
    if x is None:
        return none
    if type(x) is bytes:
        return C.hx(x)
    return "!%s:%s" % (type(x).__name__, repr(x).encode("utf-8", "backslashreplace").hex())


def val_tok(v):
    return tok(v)


def props_str(props, ordered=True):
    ps = list(props) if ordered else sorted(props, key=lambda e: (canon(e[0]), canon(e[1])))
    return " ".join(["%d" % len(ps)] + ["%s %s" % (tok(k, "!None"), val_tok(v)) for k, v in ps])


def text_hex(text):
    return text.hex() if type(text) is bytes else tok(text)


def name_line(s, strict):
    return "c19n %s %s" % (C.b01(strict), C.hs(s))


def name_obs_str(obs):
    if obs[0] != "ok":
        return "err %s" % obs[1]
    if type(obs[1]) is not str:  # total: a non-str return value can never equal a model answer
        return "ok !%s:%s" % (type(obs[1]).__name__, repr(obs[1]).encode("utf-8", "backslashreplace").hex())
    return "ok %s" % C.hs(obs[1])


def txt_line(items):
    """the dictionary with its Python types: per entry <key type> <key bytes> <has value> <value type> <value bytes>, type 0 =
    bytes, 1 = str (its UTF-8 bytes follow), 2 = str with a lone surrogate (no UTF-8 form; the bytes are ignored);
    whether a str was involved (and hence what .properties returns) is computed by the model, not here"""
    def ty(x):
        return "0" if not isinstance(x, str) else ("2" if has_surrogate(x) else "1")

    toks = ["c19t", str(len(items))]
    for k, v in items:
        toks += [ty(k), C.hx(to_bytes(k)), C.b01(v is not None), ty(v), C.hx(to_bytes(v) if v is not None else b"")]
    return " ".join(toks)


def items_json(items):
    def enc(x):
        if x is None:
            return None
        return {"str": x} if isinstance(x, str) else {"bytes": x.hex()}

    return [[enc(k), enc(v)] for k, v in items]


def items_unjson(js):
    def dec(x):
        if x is None:
            return None
        return x["str"] if "str" in x else bytes.fromhex(x["bytes"])

    return [(dec(k), dec(v)) for k, v in js]


_SURROGATE = re.compile("[\ud800-\udfff]")


def has_surrogate(s):
    return _SURROGATE.search(s) is not None


def classify_name_violation(s, strict, obs, want):
    """(sig, what) if the observation falsifies the property sentence, else None"""
    if obs[0] == "err" and obs[1] != "BadTypeInNameException":
        cls = "lone-surrogate" if has_surrogate(s) else ("empty-service-label" if oracle_body_empty(s) else "other")
        return ("C19:name-raises-%s:%s" % (obs[1], cls),
                "service_type_name(%r, strict=%s) raised %s, not BadTypeInNameException" % (s, strict, obs[1]))
    if obs[0] == "ok" and want is None:
        cls = "newline-after-service-label" if "\n._" in s else ("non-ascii-in-service-label" if non_ascii_service_label(s) else "other")
        return ("C19:accepts-undocumented-form:%s" % cls,
                "service_type_name(%r, strict=%s) returned %r but the name is not one of the documented forms" % (s, strict, obs[1]))
    if obs[0] == "err" and want is not None:
        return ("C19:rejects-documented-form", "service_type_name(%r, strict=%s) raised %s but the grammar accepts it with type %r" % (s, strict, obs[1], want))
    if obs[0] == "ok" and obs[1] != want:
        return ("C19:wrong-type-returned", "service_type_name(%r, strict=%s) returned %r, the service type is %r" % (s, strict, obs[1], want))
    return None


def non_ascii_service_label(s):
    for tr in PROTO_TRAILERS:
        if s.endswith(tr):
            return any(ord(ch) > 127 for ch in s[: len(s) - len(tr)].rpartition(".")[2])
    return False


def oracle_body_empty(s):
    for tr in PROTO_TRAILERS:
        if s.endswith(tr):
            return s[: len(s) - len(tr)].rpartition(".")[2] == "_"
    return False


def wf_class(exp):
    """(class, level) naming why a dictionary is outside RFC 6763 section 6.4 -- level "limit" (an item over 255 bytes: outside
    the property's quantifier), "lib" (no reader can recover it), "rfc" (only a reader that follows section 6.4 to the letter
    cannot) -- or None for a well-formed dictionary.  Only used to rank replays and to label the evidence; the verdict is
    per ENTRY (`entry_classes`)."""
    keys = [k for k, _ in exp]
    if any(len(k) + (0 if v is None else 1 + len(v)) > 255 for k, v in exp):
        return ("item-over-255-bytes", "limit")
    if any(b"=" in k for k in keys):
        return ("key-contains-equals", "lib")
    if len(set(keys)) != len(keys):
        return ("keys-collide-after-encoding", "lib")
    if any(k == b"" for k in keys):
        return ("empty-key", "rfc")
    if len({k.lower() for k in keys}) != len(keys):
        return ("keys-differ-only-in-case", "rfc")
    return None


def entry_classes(exp):
    """Per-entry reading of RFC 6763 section 6.4 for a dictionary (already as bytes).  Returns
       present  -- the classes of ill-formed ENTRIES the dictionary contains (each is a known finding),
       bad_lib  -- the keys (bytes) whose read-back the library's reader cannot be held to because of those entries,
       bad_rfc  -- the case-folded keys an RFC 6763 reader cannot be held to.
    An entry whose key contains '=' is written as an item that every reader splits at the FIRST '=': it spoils its own key
    and the key that is its part before that '=' (which may be the key of another, well-formed entry: first one wins).
    Two entries whose keys are the same bytes (a str and a bytes key) spoil that key.  For the RFC reader also: the empty
    key (such an item is ignored) and keys that are equal up to ASCII case.  EVERY OTHER entry must be read back."""
    keys = [k for k, _ in exp]
    eff = [k.partition(b"=")[0] for k in keys]           # what a reader takes as the key of this entry's item
    present = set()
    bad_lib = set()
    for k, e in zip(keys, eff):
        if b"=" in k:
            present.add("key-contains-equals")
            bad_lib.add(k)
            bad_lib.add(e)
    clean = [k for k in keys if b"=" not in k]
    for k, c in collections.Counter(clean).items():
        if c > 1:
            present.add("keys-collide-after-encoding")
            bad_lib.add(k)
    bad_rfc = {k.lower() for k in bad_lib}
    if b"" in clean:
        present.add("empty-key")
        bad_rfc.add(b"")
    for f, c in collections.Counter(k.lower() for k in set(clean)).items():
        if f not in bad_rfc and c > 1:
            present.add("keys-differ-only-in-case")
            bad_rfc.add(f)
    return present, bad_lib, bad_rfc


def must_entries(exp):
    """What `C19_txt_entry_roundtrip` (lean/Zc/Props/C19.lean) guarantees of ONE entry whatever the others are -- the oracle demands
    exactly that.  `eff[i]` is the key a reader takes from entry i's item (the part before its first '=').  Entry i is owed
      by the library's reader  iff its key has no '=' and no EARLIER item yields that key (first one wins),
      by the RFC 6763 reader   iff, in addition, its key is not empty and no earlier item yields a non-empty key equal to it up to
                               ASCII case (an item whose key part is empty is ignored by that reader, so it shadows nothing).
    Only entries that RFC 6763 6.4 forbids, and entries shadowed by an EARLIER one, are not owed."""
    eff = [k.partition(b"=")[0] for k, _ in exp]
    lib_must, rfc_must = [], []
    seen, seen_f = set(), set()
    for (k, v), e in zip(exp, eff):
        if b"=" not in k and k not in seen:
            lib_must.append((k, v))
            if k != b"" and k.lower() not in seen_f:
                rfc_must.append((k, v))
        seen.add(e)
        if e != b"":
            seen_f.add(e.lower())
    return lib_must, rfc_must, eff


FINDING_WHAT = {
    "key-contains-equals": "a key containing '=' cannot be carried by a TXT record: it is split at its first '=' when read back (RFC 6763 6.4 forbids such keys; the library does not reject them)",
    "keys-collide-after-encoding": "a str key and a bytes key with the same UTF-8 bytes are two dictionary entries but one TXT attribute: only the first is read back",
    "empty-key": "an item with an empty key is kept by the library but must be ignored by an RFC 6763 reader (6.4: missing key)",
    "keys-differ-only-in-case": "keys that differ only in ASCII case are distinct for the library but one attribute for an RFC 6763 reader (6.4: keys are case-insensitive, first wins)",
    "str-with-lone-surrogate": "a str key or value holding a lone surrogate (not Unicode text, no UTF-8 form) makes ServiceInfo(properties=...) raise UnicodeEncodeError: the dictionary is rejected, nothing is encoded",
}
LIB_CLASSES = ("key-contains-equals", "keys-collide-after-encoding")
RFC_CLASSES = ("empty-key", "keys-differ-only-in-case")


def dict_has_surrogate(items):
    return any(isinstance(x, str) and has_surrogate(x) for kv in items for x in kv)


def _hashable(k):
    try:
        hash(k)
        return True
    except TypeError:
        return False


def _without(props, bad, fold=False):
    """the entries of an observed/expected list whose key is not spoilt (`bad`); keys of any type are kept"""
    out = []
    for k, v in props:
        kk = k.lower() if fold and type(k) is bytes else k
        if _hashable(kk) and kk in bad:
            continue
        out.append((k, v))
    return out


def txt_violations(items, obs):
    """stage O for one dictionary: list of (sig, what, case).

    For every dictionary within the 255-byte item limit: no exception, `.text` is bytes and well-framed, `.properties` (and
    the library's decode of `.text`) hold bytes keys and bytes-or-None values.  Then, ENTRY BY ENTRY, exactly what
    `C19_txt_entry_roundtrip` states (`must_entries`): every entry whose key has no '=' and is not yielded by an EARLIER item must
    be given back by `.properties`, by the library's decode of `.text` and (non-empty key, no earlier item with that key up to
    ASCII case) by the independent RFC 6763 reader, and no key may appear that no entry's item yields.
    Only the forbidden entries themselves cannot round-trip (Lean: C19_txt_*_refuted); that is reported under one signature
    per entry class (known findings) and only when such an entry is in fact not read back."""
    case = {"stream": "txt", "items": items_json(items)}
    out = []
    if dict_has_surrogate(items):
        # not Unicode text: no "keys and values as bytes" to compare with.  Known finding iff the constructor raises
        # UnicodeEncodeError; any other exception is fresh; an implementation that accepts it is not judged further.
        if obs[0] == "err" and obs[1] == "UnicodeEncodeError":
            return [("C19:txt-str-with-lone-surrogate", FINDING_WHAT["str-with-lone-surrogate"], case)]
        lim = wf_class(expected_props(items))
        if lim and lim[1] == "limit":
            return out  # also has an item over 255 bytes: outside the quantifier, whichever exception comes first
        if obs[0] == "err":
            return [("C19:txt-encode-raises:%s" % obs[1], "a properties dictionary with a lone-surrogate str raised %s" % obs[1], case)]
        # ACCEPTED: what bytes a non-text str becomes is not for this oracle to say, but the entries that ARE text are still owed:
        # distinct given keys must stay distinct, so a text entry that no earlier TEXT entry shadows must be read back by the library
        _, text, props, fresh = obs[:4]
        if type(text) is not bytes or not_bytes(props) or not_bytes(fresh):
            return [("C19:properties-not-bytes", "a dictionary with a lone-surrogate str is accepted and .text / .properties are not bytes", case)]
        texty = [(k, v) for k, v in items if not any(isinstance(x, str) and has_surrogate(x) for x in (k, v))]
        lib_must, _rfc, _eff = must_entries(expected_props(texty))
        for obs_, nm in ((props, ".properties"), (fresh, "the library's decode of .text")):
            have = set(norm(obs_))
            missing = [(k, v) for k, v in lib_must if (canon(k), canon(None if v == b"" else v)) not in have]
            if missing:
                out.append(("C19:txt-accepted-non-text-str-loses-entry", "a dictionary with a lone-surrogate str is accepted, and the text entry %r: %r is not "
                            "read back by %s (distinct given keys must stay distinct)" % (missing[0][0], missing[0][1], nm),
                            dict(case, text=text.hex(), got=props_str(obs_, False))))
                break
        return out
    exp = expected_props(items)
    cls = wf_class(exp)
    if cls and cls[1] == "limit":
        return out
    if obs[0] == "err":
        return [("C19:txt-encode-raises:%s" % obs[1], "a properties dictionary whose items fit in 255 bytes raised %s" % obs[1], case)]
    _, text, props, fresh = obs[:4]
    if type(text) is not bytes:
        return [("C19:text-not-bytes", ".text is %s, not bytes" % type(text).__name__, dict(case, text=text_hex(text)))]
    case = dict(case, text=text.hex() if len(text) <= 4096 else text[:4096].hex() + "...(%d bytes)" % len(text))
    # "keys and values (as bytes ...)": what .properties hands back must be bytes keys and bytes-or-None values
    bad = not_bytes(props)
    if bad:
        out.append(("C19:properties-not-bytes",
                    ".properties returns %s for key %r: keys and values must be bytes (the TXT bytes are %r)"
                    % (("the %s %r" % (type(bad[0][1]).__name__, bad[0][1])) if type(bad[0][0]) is bytes else "a non-bytes key", bad[0][0], text[:200]),
                    dict(case, got=props_str(props, False))))
    if not_bytes(fresh):
        out.append(("C19:decoded-properties-not-bytes", "decoding .text in the library yields non-bytes keys/values", dict(case, got=props_str(fresh, False))))
    present, _bad_lib, _bad_rfc = entry_classes(exp)
    got = rfc_parse(text)
    note = "" if not present else " (judged entry by entry; the dictionary also has: %s)" % ", ".join(sorted(present))
    small = lambda pr: props_str(pr, False) if len(pr) <= 12 else "%d entries" % len(pr)  # noqa: E731
    lib_must, rfc_must, eff = must_entries(exp)
    keys = {k for k, _ in exp}
    # ---- the library's two readers: every entry of `lib_must` is there with its value (empty = none), and no key appears that no
    # entry's item yields (`.properties` of an all-bytes dictionary is the caller's dictionary: it also holds the keys as given)
    for obs_, allowed, sig, what, field in (
            (props, set(eff) | keys, "C19:txt-properties-differ", ".properties does not give back the dictionary (same keys and values as bytes; empty value = no value)", "got"),
            (fresh, set(eff), "C19:txt-library-decode-differs", "decoding .text in the library does not give back the dictionary", "got")):
        have = set(norm(obs_))
        missing = [(k, v) for k, v in lib_must if (canon(k), canon(None if v == b"" else v)) not in have]
        extra = [k for k, _ in obs_ if not (_hashable(k) and k in allowed)]
        if missing or extra:
            why = ("the entry %r: %r is not read back" % missing[0]) if missing else "the key %r comes from no entry" % (extra[0],)
            out.append((sig, what + ": " + why + note, dict(case, **{field: small(obs_)})))
    if [e for e in norm(props) if e[0] in {canon(k) for k, _ in lib_must}] != [e for e in norm(fresh) if e[0] in {canon(k) for k, _ in lib_must}]:
        out.append(("C19:properties-disagree-with-library-decode", ".properties differs from the library's own decode of .text" + note,
                    dict(case, got=small(props), decoded=small(fresh))))
    # ---- the independent RFC 6763 reader: every entry of `rfc_must` with exactly its value (empty kept), nothing from no entry
    if got is None:
        out.append(("C19:txt-rfc6763-decode-differs", ".text is not a sequence of length-prefixed strings (an RFC 6763 section 6 reader runs off its end)", case))
    else:
        have = set(exact(got))
        missing = [(k, v) for k, v in rfc_must if (canon(k), canon(v)) not in have]
        extra = [k for k, _ in got if k not in {e for e in eff if e != b""}]
        if missing or extra:
            why = ("the entry %r: %r is not recovered" % missing[0]) if missing else "the key %r comes from no entry" % (extra[0],)
            out.append(("C19:txt-rfc6763-decode-differs", "an RFC 6763 section 6 reader does not recover the dictionary from .text: " + why + note, dict(case, rfc=small(got))))
        both = {canon(k) for k, _ in lib_must} & {canon(k) for k, _ in rfc_must}
        if [e for e in norm(props) if e[0] in both] != [e for e in norm(got) if e[0] in both]:
            out.append(("C19:properties-disagree-with-rfc6763", ".properties differs from what an RFC 6763 section 6 reader finds in .text" + note,
                        dict(case, got=small(props), rfc=small(got))))
    # ---- the forbidden entries themselves: known findings, reported when such an entry is in fact not read back
    lib_ok = norm(props) == norm(exp) and norm(fresh) == norm(exp)
    rfc_ok = got is not None and exact(got) == exact(exp)
    for c in LIB_CLASSES:
        if c in present and not (lib_ok and rfc_ok):
            out.append(("C19:txt-" + c, FINDING_WHAT[c], dict(case, got=small(props), decoded=small(fresh))))
    for c in RFC_CLASSES:
        if c in present and not rfc_ok:
            out.append(("C19:txt-" + c, FINDING_WHAT[c], dict(case, rfc="bad" if got is None else small(got))))
    return out


def case_size(case):
    return len(json.dumps(case))


def around_diff(a, b, width=300):
    """`a`, shortened to the neighbourhood of its first difference from `b` when it is long (large TXT records)"""
    if len(a) <= 2 * width:
        return a
    i = next((j for j, (x, y) in enumerate(zip(a, b)) if x != y), min(len(a), len(b)))
    return "%s...[%d chars, first difference at %d]...%s" % (a[:60], len(a), i, a[max(60, i - width // 2): i + width])


# ------------------------------------------------------------------------------------------


def run(ctx):
    res = C.Result("C19")
    seed, tier = ctx["seed"], ctx["tier"]
    mult = 2 if ctx["widened"] else 1  # a tree change already costs 45-60 s of rebuild out of the 120 s cap
    B = lambda q, t: C.Budget(tier, q, t).n * mult  # noqa: E731

    # ---------------- name stream
    names = []  # (s, strict, tag)
    for fname, body in C.load_corpus("C19"):
        if body.get("stream") == "name":
            names.append((body["name"], bool(body["strict"]), "corpus"))
    fixed = ["_http._tcp.local.", "foo._http._tcp.local.", "_printer._sub._http._tcp.local.", "_._tcp.local.", "x._._tcp.local.", "_ab\n._tcp.local.",
             "a._ab\n._udp.local.", ".local.", "local.", "", ".", "_tcp.local.", "._tcp.local.", "_sub._x._tcp.local.", "._sub._x._tcp.local.",
             ".a._x._tcp.local.", "a..b._sub._x._tcp.local.", "_x._tcp.local.\n", "_sub.local.", "x._sub.local.", "_x__y._tcp.local.",
             "_\u212a._tcp.local.", "_a\u017f._tcp.local.", "_\u017f._udp.local.", "x._\u0130._tcp.local.", "_\u0131-1._tcp.local.", "_a\u00df._tcp.local.",
             "_\ufb01._tcp.local.", "_a\u00b2._tcp.local.", "_\uff21._tcp.local.", "s._sub._\u212a1._udp.local.",
             "_" + "a" * 243 + "._tcp.local.", "_" + "a" * 244 + "._tcp.local.", "_-._tcp.local.", "_a-._tcp.local.", "_1._tcp.local.", "_1-2._tcp.local."]
    # each control character once in an instance, once in a <sub> part, once in the bare .local. form
    fixed += ["a%sb._http._tcp.local." % c for c in CONTROLS] + ["s%s._sub._x._udp.local." % c for c in CONTROLS] + ["%shost.local." % c for c in CONTROLS]
    for s in fixed:
        names.append((s, True, "fixed"))
        names.append((s, False, "fixed"))
    ex_len = 4 if tier == "thorough" else 3
    ex = list(exhaustive_names(ex_len))
    for s in ex:
        names.append((s, True, "exhaustive"))
        names.append((s, False, "exhaustive"))
    for s in ["\ud800._http._tcp.local.", "a\udfffb._sub._x._udp.local.", "_\ud800._tcp.local.", "\udc00.local.", "\ud83d", "x._a\ud800._tcp.local."]:
        names.append((s, True, "surrogate"))
        names.append((s, False, "surrogate"))
    # lone surrogates anywhere in grammar-generated names (stage O only: not representable in the model): in the instance,
    # the <sub> part, after a 62-byte prefix, in the service label, in the trailer, in the bare .local. form
    rng = C.rng_for(seed, "c19", "surrogate")
    for _ in range(B(3000, 60000)):
        s, tag = gen_grammar(rng) if rng.random() < 0.85 else gen_length_boundary(rng)
        r = rng.random()
        if r < 0.25:
            s = inst_of_bytes(rng, rng.choice([58, 59, 60, 61, 62, 63])) + "." + s.lstrip(".")
        for _k in range(rng.choice([1, 1, 2])):
            i = rng.randrange(len(s) + 1)
            s = s[:i] + rng.choice(["\ud800", "\udbff", "\udc00", "\udfff"]) + s[i:]
        names.append((s[:300], rng.random() < 0.5, "surrogate"))
    rng = C.rng_for(seed, "c19", "grammar")
    for _ in range(B(150000, 2400000)):
        s, tag = gen_grammar(rng)
        names.append((s, rng.random() < 0.5, "g:" + tag))
    rng = C.rng_for(seed, "c19", "len")
    for _ in range(B(3000, 40000)):
        s, tag = gen_length_boundary(rng)
        names.append((s, rng.random() < 0.35, "len"))
    rng = C.rng_for(seed, "c19", "random")
    for _ in range(B(20000, 400000)):
        s, tag = gen_random(rng)
        names.append((s, rng.random() < 0.5, "random"))

    # ---------------- ctor stream
    ctors = []
    rng = C.rng_for(seed, "c19", "ctor")
    for _ in range(B(15000, 200000)):
        s, tag = gen_grammar(rng) if rng.random() < 0.8 else gen_random(rng)
        want = oracle_type(s, False)
        base = want if want is not None and rng.random() < 0.9 else rng.choice(["_http._tcp.local.", "local.", "_x._udp.local.", ""])
        r = rng.random()
        if r < 0.5:
            t = base
        elif r < 0.6:
            t = "x" + base
        elif r < 0.7:
            t = "_sub." + base
        elif r < 0.8:
            t = base[1:]
        elif r < 0.87:
            t = base.upper()
        elif r < 0.94:
            t = base[:-1]
        else:
            t = base + "."
        ctors.append((t, s))
    for body in (b for _, b in C.load_corpus("C19") if b.get("stream") == "ctor"):
        ctors.append((body["type"], body["name"]))

    # ---------------- txt stream
    dicts = []
    for _, body in C.load_corpus("C19"):
        if body.get("stream") == "txt":
            dicts.append(items_unjson(body["items"]))
    dicts += [[], [("a", None)], [("a", "")], [(b"a", b"")], [("a", "1"), (b"a", b"2")], [("a", "1"), ("A", "2")], [("", "x")], [("a=b", "c")],
              [("k" * 255, None)], [("k" * 256, None)], [("k" * 253, "")], [("k" * 253, "v")], [("k" * 254, "")], [(b"k" * 254, b"")], [(b"k", b"v" * 253)], [(b"k", b"v" * 254)]]
    # white space in keys and values is significant (RFC 6763 6.4): singly, and next to the stripped spelling of the same key
    dicts += [[(k, "v")] for k in WS_KEYS] + [[(k, None)] for k in WS_KEYS[:6]] + [[("k", "1"), (" k", "2"), ("k ", "3"), (b"\tk\n", b"4")], [(b"k", b" v "), ("j", " v ")],
                                                                                  [("a=b", "c"), ("path", "/x"), ("id", "7")], [(b"a=b", b"c"), (b"path", b"/x")],
                                                                                  [("a", "1"), (b"a", b"2"), ("z", "26")], [("a=b", "c"), ("a", "1"), ("z", None)]]
    # large TXT records: the total is not limited by the property (only each item, 255 bytes); RFC 6763 6.2 merely *recommends*
    # <= 1300 bytes.  6 x 254, 8 x 251, 40 small, 300 tiny, 255 items of 255 bytes (65280 bytes, just under the rdata limit)
    dicts += [[("%dk" % i + "x" * 250, "v") for i in range(6)], [(b"%dk" % i + b"y" * 244, b"vvvv") for i in range(8)], [("k%d" % i, "v%d" % i) for i in range(40)],
              [("%x" % i, None if i % 3 else b"") for i in range(300)], [("%02x" % i + "z" * 250, "vv") for i in range(255)]]
    # str keys / values that are not Unicode text
    dicts += [[("a\ud800", "1"), ("a", "2")], [("a", "2"), ("\udc80a", "1")], [(b"a", b"2"), ("a\udfff", None)],
              [("\ud800", "v")], [("k", "\ud800")], [(b"k", "\udfff")], [("\udc80", None)], [("a", "1"), ("b\ud83d", "2")], [("k" * 300, "\ud800")]]
    rng = C.rng_for(seed, "c19", "txt-big")
    for _ in range(B(50, 1500)):
        dicts.append(gen_dict_big(rng))
    rng = C.rng_for(seed, "c19", "txt-surrogate")
    for _ in range(B(300, 6000)):
        dicts.append(gen_dict_surrogate(rng))
    dicts += list(type_matrix())
    rng = C.rng_for(seed, "c19", "txt-typed")
    for _ in range(B(10000, 150000)):
        dicts.append(gen_dict_typed(rng))
    rng = C.rng_for(seed, "c19", "txt")
    for _ in range(B(30000, 500000)):
        dicts.append(gen_dict(rng))

    # ---------------- dec stream
    texts = [b"", b"\x00", b"\x01", b"\x03a=1\x03a=2", b"\x01a\x03a=2", b"\x02a=\x03a=2", b"\xffab", b"\x03=ab"]
    rng = C.rng_for(seed, "c19", "dec")
    for _ in range(B(20000, 300000)):
        texts.append(gen_text(rng))

    # ---------------- model
    lines = [name_line(s, st) for s, st, _ in names if not has_surrogate(s)]
    n_name = len(lines)
    lines += ["c19c %s %s" % (C.hs(t), C.hs(n)) for t, n in ctors]
    n_ctor = len(ctors)
    lines += [txt_line(items) for items in dicts]
    n_txt = len(dicts)
    lines += ["c19d %s" % C.hx(t) for t in texts]
    model = None
    if ctx["driver_ok"]:
        try:
            model = C.run_driver(lines)
        except C.DriverUnavailable as ex:
            res.notes.append("driver unavailable: %s" % ex)

    res.rule = ("names: corpus + hand-picked + EXHAUSTIVE service labels of length <= 3 over {a,Z,1,-,_,.,\\n,e-acute,DEL,U+017F,U+212A,U+0130} in 7 carrier forms x both strict modes "
                "+ grammar-generated (valid skeleton, 0-3 rule violations of the service label, instance/subtype prefix with byte lengths 61-66 in mixed-width "
                "characters, control characters, dots, _sub variants, 17 odd trailers) + total-length boundary 254-258/300 + random strings <= 300; "
                "ASCII punctuation, combining marks, format characters and non-ASCII white space in instance labels, service labels over all 62 letters/digits; "
                "constructor type/name pairs; property dictionaries (str/bytes keys, str/bytes/None/empty values, item lengths 254-256, colliding, "
                "'='-containing and empty keys, keys/values with edge white space, str with lone surrogates, TXT totals 255 B - 70 kB steered onto "
                "1300/1460/8966/65535), judged entry by entry; raw TXT bytes (well-formed, truncated, random). non-trivial = distinct (stream, tag, mode, "
                "outcome, size class) classes")

    # ---------------- evaluate names
    mi = 0
    best_v = {}
    for s, strict, tag in names:
        res.evaluations += 1
        obs = impl_name(s, strict)
        want = oracle_type(s, strict)
        res.count("name:" + tag.split(":")[0])
        res.count("name-accepted" if obs[0] == "ok" else "name-rejected")
        res.nontriv("n/%s/%s/%s" % (tag, strict, obs[0] if obs[0] == "ok" else obs[1]))
        case = {"stream": "name", "name": s, "strict": strict, "name_hex": C.hs(s)}
        v = classify_name_violation(s, strict, obs, want)
        if v:
            res.count("name-violations")
            # keep the shortest input per signature (cheap shrinking: the generators produce short and long variants)
            if v[0] not in best_v or len(s) < len(best_v[v[0]][2]["name"]):
                best_v[v[0]] = (v[0], v[1], case)
        if not has_surrogate(s):
            if model is not None:
                m = model[mi]
                if m != name_obs_str(obs):
                    res.disagree("name", case, name_obs_str(obs), m)
            mi += 1
        if len(res.samples) < 3 and tag.startswith("g:") and obs[0] == "ok":
            res.sample({"name": s, "strict": strict, "type": obs[1]})
    assert mi == n_name
    # the default is strict=True (name.py:39; the model has no default, every caller in the library relies on it): compared
    # as correspondence on the names where the two modes differ
    ndef = 0
    for s, strict, tag in names:
        if ndef >= 400 or has_surrogate(s) or (oracle_type(s, True) is None) == (oracle_type(s, False) is None):
            continue
        ndef += 1
        res.evaluations += 1
        d, t = impl_name_default(s), impl_name(s, True)
        if d != t:
            res.disagree("default-strict", {"stream": "name", "name": s, "strict": True}, list(d), list(t))
    for sig in sorted(best_v, key=lambda k: (has_surrogate(best_v[k][2]["name"]), len(best_v[k][2]["name"]), k)):  # text inputs first
        res.violate(*best_v[sig])

    # ---------------- evaluate ctor
    best_c = {}
    for idx, (t, n) in enumerate(ctors):
        res.evaluations += 1
        obs = impl_ctor(t, n)
        want = oracle_type(n, False)
        ok_want = want is not None and t.endswith(want)
        case = {"stream": "ctor", "type": t, "name": n}
        res.nontriv("c/%s/%s" % (obs[0] if obs[0] == "ok" else obs[1], want is not None))
        res.count("ctor-accepted" if obs[0] == "ok" else "ctor-rejected")
        cv = None
        if obs[0] == "err" and obs[1] != "BadTypeInNameException":
            cv = ("C19:ctor-raises-%s" % obs[1], "ServiceInfo(%r, %r) raised %s" % (t, n, obs[1]), case)
        elif (obs[0] == "ok") != ok_want:
            cv = ("C19:ctor-accepts-mismatched-name" if obs[0] == "ok" else "C19:ctor-rejects-valid-name",
                  "ServiceInfo(%r, %r): %s, but name valid=%s and type ends with its service type=%s" % (t, n, obs[0], want is not None, ok_want), case)
        if cv:
            res.count("ctor-violations")
            if cv[0] not in best_c or len(t) + len(n) < len(best_c[cv[0]][2]["type"]) + len(best_c[cv[0]][2]["name"]):
                best_c[cv[0]] = cv
        if model is not None:
            m = model[n_name + idx]
            mine = "ok" if obs[0] == "ok" else "err %s" % obs[1]
            if m != mine:
                res.disagree("ctor", case, mine, m)

    for sig in sorted(best_c):
        res.violate(*best_c[sig])

    # ---------------- evaluate txt
    best_t = {}
    for idx, items in enumerate(dicts):
        res.evaluations += 1
        obs = impl_txt(items)
        exp = expected_props(items)
        case = {"stream": "txt", "items": items_json(items)}
        maxitem = max([len(k) + (0 if v is None else 1 + len(v)) for k, v in exp] or [0])
        total = sum(1 + len(k) + (0 if v is None else 1 + len(v)) for k, v in exp)
        tb = "<=255" if total <= 255 else "<=1300" if total <= 1300 else "<=9000" if total <= 9000 else "<=65535" if total <= 65535 else ">65535"
        sur = dict_has_surrogate(items)
        ws = any(type(x) in (str, bytes) and x != x.strip() for kv in items for x in kv[:1])
        res.nontriv("t/%d/%s/%s/%s/%s/%s/%s/%s" % (min(len(items), 3), wf_props(exp), wf_props(exp, True), obs[0] if obs[0] == "ok" else obs[1],
                                                   "lim" if maxitem >= 254 else "", dict_types(items), tb, "sur" if sur else "ws" if ws else ""))
        res.count("txt-types:" + dict_types(items))
        res.count("txt-total:" + tb)
        if sur:
            res.count("txt-lone-surrogate-str")
        if ws:
            res.count("txt-key-with-edge-whitespace")
        res.count("txt-wf" if wf_props(exp, True) else "txt-not-wf")
        for v in txt_violations(items, obs):
            res.count("txt-violations")
            # per signature keep the smallest case, preferring dictionaries that are well-formed for both readers
            size = case_size(v[2]) + (0 if wf_class(exp) is None else 10000)
            if v[0] not in best_t or size < best_t[v[0]][0]:
                best_t[v[0]] = (size, v)
        if model is not None:
            m = model[n_name + n_ctor + idx]
            if obs[0] == "err":
                mine = "err %s" % obs[1]
            else:
                _, text, props, fresh, alias = obs
                rp = rfc_parse(text) if type(text) is bytes else None
                mine = "ok %s L %s D %s R %s A %s" % (tok(text, "!None"), props_str(props), props_str(fresh), "bad" if rp is None else props_str(rp), C.b01(alias))
            if m != mine:
                res.disagree("txt", case if case_size(case) < 4000 else {"stream": "txt", "items": "%d entries, %d TXT bytes" % (len(items), total), "first": items_json(items[:3])},
                             around_diff(mine, m), around_diff(m, mine))
        if idx == 20:
            res.sample({"properties": items_json(items), "text": text_hex(obs[1]) if obs[0] == "ok" else obs[1]})

    # the most specific signature first (it becomes the replay)
    prio = ["C19:text-not-bytes", "C19:properties-not-bytes", "C19:decoded-properties-not-bytes", "C19:txt-encode-raises"]
    for sig in sorted(best_t, key=lambda k: (min([i for i, q in enumerate(prio) if k.startswith(q)] or [len(prio)]), k)):
        res.violate(*best_t[sig][1])

    # ---------------- evaluate dec
    for idx, text in enumerate(texts):
        res.evaluations += 1
        obs = impl_dec(text)
        case = {"stream": "dec", "text": text.hex()}
        res.nontriv("d/%s/%s" % (obs[0], rfc_parse(text) is None))
        if model is not None:
            m = model[n_name + n_ctor + n_txt + idx]
            rp = rfc_parse(text)
            mine = ("L %s R %s" % (props_str(obs[1]), "bad" if rp is None else props_str(rp))) if obs[0] == "ok" else "err %s" % obs[1]
            if m != mine:
                res.disagree("dec", case, mine, m)
    res.exhaustive = False
    res.notes.append("exhaustive sub-stream: %d names (all service labels of length <= %d over a 12-character alphabet incl. U+017F, U+212A, U+0130, 7 carrier forms) x 2 modes" % (len(ex), ex_len))
    return res


def replay(body):
    case = body.get("case", body)
    st = case.get("stream")
    if st == "name":
        s = case["name"]
        strict = bool(case["strict"])
        obs = impl_name(s, strict)
        want = oracle_type(s, strict)
        v = classify_name_violation(s, strict, obs, want)
        out = {"name": s, "strict": strict, "implementation": list(obs), "grammar": want, "violates": v is not None, "what": v[1] if v else None}
        if not has_surrogate(s):
            try:
                out["model"] = C.run_driver([name_line(s, strict)])[0]
            except C.DriverUnavailable:
                pass
        return out
    if st == "ctor":
        obs = impl_ctor(case["type"], case["name"])
        want = oracle_type(case["name"], False)
        ok_want = want is not None and case["type"].endswith(want)
        bad = (obs[0] == "err" and obs[1] != "BadTypeInNameException") or ((obs[0] == "ok") != ok_want)
        return {"implementation": list(obs), "expected_ok": ok_want, "violates": bad}
    if st == "txt":
        items = items_unjson(case["items"])
        obs = impl_txt(items)
        vs = txt_violations(items, obs)
        return {"implementation": [o.hex() if isinstance(o, bytes) else str(o) for o in obs], "violates": bool(vs),
                "what": [v[1] for v in vs]}
    return {"violates": None, "note": "correspondence-only case; re-run ./check C19 quick"}
