"""Shared by the C12 and C11 harnesses: a real `Zeroconf` responder under the virtual-time simulator,
block-level instrumentation (no source hooks), and serialisation of each atomic block for the Lean
model `Zc.Reply.Host.step` (lean/Zc/Model/Reply.lean, driver command `c12run`)."""
from __future__ import annotations

import socket

from . import common as C
from . import vsim

MDNS = vsim.MDNS_ADDR
T0 = vsim.T0


def split_sections(m):
    allr = m.answers()
    na = m._num_answers
    return allr[:na], allr[na:]


def with_ttl(r, ttl):
    """copy of a record with another TTL"""
    from zeroconf import _dns as d

    if isinstance(r, d.DNSAddress):
        return d.DNSAddress(r.name, r.type, r.class_ | (0x8000 if r.unique else 0), ttl, r.address, scope_id=r.scope_id)
    if isinstance(r, d.DNSPointer):
        return d.DNSPointer(r.name, r.type, r.class_ | (0x8000 if r.unique else 0), ttl, r.alias)
    if isinstance(r, d.DNSText):
        return d.DNSText(r.name, r.type, r.class_ | (0x8000 if r.unique else 0), ttl, r.text)
    if isinstance(r, d.DNSService):
        return d.DNSService(r.name, r.type, r.class_ | (0x8000 if r.unique else 0), ttl, r.priority, r.weight, r.port, r.server)
    if isinstance(r, d.DNSNsec):
        return d.DNSNsec(r.name, r.type, r.class_ | (0x8000 if r.unique else 0), ttl, r.next_name, r.rdtypes)
    raise TypeError(type(r))


class ScenarioTimeout(Exception):
    pass


class wall_deadline:
    """wall-clock watchdog around one simulated scenario (main thread only; no-op elsewhere)"""

    def __init__(self, seconds):
        self.seconds = seconds
        self.armed = False

    def __enter__(self):
        import signal
        import threading

        if threading.current_thread() is threading.main_thread():
            def on_alarm(signum, frame):
                raise ScenarioTimeout("scenario exceeded %d s of wall time" % self.seconds)
            self.old = signal.signal(signal.SIGALRM, on_alarm)
            signal.setitimer(signal.ITIMER_REAL, self.seconds)
            self.armed = True
        return self

    def __exit__(self, *a):
        import signal

        if self.armed:
            signal.setitimer(signal.ITIMER_REAL, 0)
            signal.signal(signal.SIGALRM, self.old)
        return False


class Universe:
    """numbers the distinct records (python `==`) of a scenario"""

    def __init__(self):
        self.ids = {}
        self.recs = []

    def id(self, r):
        i = self.ids.get(r)
        if i is None:
            i = len(self.recs)
            self.ids[r] = i
            self.recs.append(r)
        return i

    def describe(self, i):
        r = self.recs[i]
        return "%s/%d" % (r.name, r.type)


class Trace:
    """atomic blocks of one host, recorded by class-level wrappers"""

    def __init__(self, sim, host, uni):
        self.sim, self.host, self.uni = sim, host, uni
        self.blocks = []
        self.cur = None
        self.orphans = []
        self.saved = []
        self.addr_ids = {}
        self.data_ids = {}
        self.last_sock = None
        self.pokes = []            # (time, record id): cache entries the scenario planted itself
        self.call_no = 0           # number of `Zeroconf.async_send` calls so far: datagrams of one call are one `DNSOutgoing`
        # watchdog: a check must terminate whatever the code under test does
        self.dead = None           # reason the host was silenced, if it was
        self.max_blocks = 4000     # atomic blocks per scenario
        self.max_same_instant = 40  # blocks of one kind at one virtual instant (a timer re-arming itself for "now")
        self._run = (None, 0)

    def addr_id(self, a):
        """number of a peer: the sockaddr without the port -- (ip,) for IPv4, (ip, flowinfo, scope id) for IPv6.  The model's
        `addr` therefore stands for the whole address part of the tuple: a reply that leaves with another flowinfo / scope id
        than the query's source goes, for the model, to another peer"""
        return self.addr_ids.setdefault(a, len(self.addr_ids) + 1)

    def data_id(self, d):
        return self.data_ids.setdefault(bytes(d), len(self.data_ids) + 1)

    def silenced(self, kind):
        """watchdog, asked before every top-level block: True -> the wrapper must not call into the library.
        Trips when a block kind repeats at one virtual instant (the clock cannot advance: a livelock of the code
        under test) or the scenario produces an absurd number of blocks; from then on the host is mute, so the
        simulation runs out of events and the oracle sees the missing replies."""
        if self.cur is not None:
            return False
        if self.dead is not None:
            return True
        key = (kind, self.sim.loop.ms)
        self._run = (key, self._run[1] + 1) if self._run[0] == key else (key, 1)
        if self._run[1] > self.max_same_instant and kind != "rx":
            self.dead = "%s ran %d times at virtual time %d ms without the clock advancing (timer re-armed for the same instant)" % (
                kind, self._run[1], self.sim.loop.ms - T0)
        elif len(self.blocks) >= self.max_blocks:
            self.dead = "more than %d atomic blocks in one scenario" % self.max_blocks
        return self.dead is not None

    def begin(self, kind, **kw):
        if self.cur is not None:
            return False
        self.cur = dict(kind=kind, t=self.sim.loop.ms, outs=[], d0=len(self.sim.draws), asm=None, **kw)
        self.blocks.append(self.cur)
        return True

    def end(self):
        b = self.cur
        b["draws"] = [(lo, hi, v) for (_t, lo, hi, v) in self.sim.draws[b.pop("d0"):]]
        self.cur = None

    def install(self):
        import zeroconf._handlers.multicast_outgoing_queue as mq
        import zeroconf._handlers.query_handler as qh
        import zeroconf._listener as lst

        tr = self
        zc = self.host.zc

        def patch(cls, name, mk):
            orig = getattr(cls, name)
            setattr(cls, name, mk(orig))
            self.saved.append((cls, name, orig))

        def mk_rx(orig):
            def datagram_received(self_, data, addrs):
                if self_.zc is not zc:
                    return orig(self_, data, addrs)
                if tr.silenced("rx"):
                    return None
                own = tr.begin("rx", data=bytes(data), src=(addrs[0], addrs[1]), src_full=tuple(addrs), akey=(addrs[0],) + tuple(addrs[2:]), lis=self_, v6=len(addrs) == 4)
                if own:
                    tr.cur["pq"] = parse_query(zc, tr.uni, bytes(data), tr.sim.loop.ms, addrs[3] if len(addrs) == 4 else None)
                try:
                    return orig(self_, data, addrs)
                finally:
                    if own:
                        tr.end()
            return datagram_received

        def mk_tc(orig):
            def _respond_query(self_, msg, addr, port, transport, v6):
                if self_.zc is not zc:
                    return orig(self_, msg, addr, port, transport, v6)
                if tr.silenced("tc"):
                    return None
                own = tr.begin("tc", addr=addr, akey=(addr,) + tuple(v6), lis=self_)
                try:
                    return orig(self_, msg, addr, port, transport, v6)
                finally:
                    if own:
                        tr.end()
            return _respond_query

        def mk_qf(orig):
            def async_ready(self_):
                if self_.zc is not zc:
                    return orig(self_)
                if tr.silenced("qf:%s" % (self_ is zc.out_delay_queue)):
                    return None
                own = tr.begin("qf", delayed=self_ is zc.out_delay_queue)
                try:
                    return orig(self_)
                finally:
                    if own:
                        tr.end()
            return async_ready

        def mk_asm(orig):
            def handle_assembled_query(self_, packets, addr, port, transport, v6):
                if self_.zc is zc and tr.cur is not None:
                    seen = []
                    seen_blind = []
                    for i, r in enumerate(tr.uni.recs):
                        # the cached copy of this record, read from the store itself under the lower-cased name (what "the host
                        # saw multicast" means; not through `async_get_unique`, which is code under test)
                        store = zc.cache.cache.get(r.key)
                        e = store.get(r) if store is not None else None
                        if e is not None:
                            seen.append((i, int(e.created), int(e.ttl)))
                        # ... and ignoring the scope id an IPv6 socket stamps on the address records it receives (the host's own records
                        # have none): the freshest cached record that is the same on the wire
                        eb = e
                        if e is None and store is not None and getattr(r, "address", None) is not None:
                            # no exact copy: the freshest copy heard on an IPv6 socket (same record on the wire, another scope id) -- what
                            # a scope-blind look-up (notes/fixes/D29-candidate.diff) finds
                            same = [x for x in store if x.type == r.type and x.class_ == r.class_ and getattr(x, "address", None) == r.address]
                            if same:
                                eb = max(same, key=lambda x: x.created)
                        if eb is not None:
                            seen_blind.append((i, int(eb.created), int(eb.ttl)))
                    # "the host saw the record multicast" is the scope-blind view, unconditionally: D29 is repaired in /repo (e375581), and the
                    # expectation must not follow symbols of the tree under test (review 3): on a tree whose look-up misses the scoped copy
                    # the model (and the oracle) still say "seen", and the difference is reported
                    seen = seen_blind
                    tr.cur["asm"] = dict(seen=seen, seen_blind=seen_blind, addr=addr, port=port, npkts=len(packets), first_now=int(packets[0].now) if packets else None,
                                         last_now=int(packets[-1].now) if packets else None, datas=[bytes(p.data) for p in packets],
                                         nows=[int(p.now) for p in packets])
                return orig(self_, packets, addr, port, transport, v6)
            return handle_assembled_query

        def mk_rm(orig):
            # `async_remove_answers` (repair of D5): the registry changed while answers may be queued.  One block per queue
            # (the two calls of `async_unregister_service` follow each other at the same instant)
            def async_remove_answers(self_, records):
                if self_.zc is not zc:
                    return orig(self_, records)
                records = list(records)
                if tr.silenced("rm:%s" % (self_ is zc.out_delay_queue)):
                    return None
                rs = set(records)
                hit = sum(1 for g in self_.queue for a in g.answers if a in rs)  # queued answers this call withdraws (coverage only)
                own = tr.begin("rm", delayed=self_ is zc.out_delay_queue, recs=[tr.uni.id(r) for r in records], hit=hit)
                try:
                    return orig(self_, records)
                finally:
                    if own:
                        tr.end()
            return async_remove_answers

        patch(lst.AsyncListener, "datagram_received", mk_rx)
        patch(lst.AsyncListener, "_respond_query", mk_tc)
        patch(mq.MulticastOutgoingQueue, "async_ready", mk_qf)
        patch(mq.MulticastOutgoingQueue, "async_remove_answers", mk_rm)
        patch(qh.QueryHandler, "handle_assembled_query", mk_asm)

        def on_send(t, src, data, addr):
            if src is not tr.host:
                return
            # the full sockaddr: for IPv6 (address, port, flowinfo, scope id) -- "to that address" includes the scope of a link-local address
            rec = dict(t=t + T0, to=(addr[0], addr[1]), to_full=tuple(addr), akey=(addr[0],) + tuple(addr[2:]), data=bytes(data), sock=tr.last_sock,
                       call=tr.call_no)
            if tr.cur is None:
                tr.orphans.append(rec)
            else:
                tr.cur["outs"].append(rec)

        self.sim.net.on_send = on_send

        def mk_sendto(orig):
            def sendto(self_, data, addr=None):
                tr.last_sock = self_.sock
                return orig(self_, data, addr)
            return sendto

        patch(vsim.FakeTransport, "sendto", mk_sendto)

        def mk_send(orig):
            def async_send(self_, out, *a, **kw):
                if self_ is zc:
                    tr.call_no += 1
                return orig(self_, out, *a, **kw)
            return async_send

        import zeroconf._core as core
        patch(core.Zeroconf, "async_send", mk_send)

    def uninstall(self):
        for cls, name, orig in reversed(self.saved):
            setattr(cls, name, orig)
        self.saved = []
        self.sim.net.on_send = None


# ------------------------------------------------------------------------------------------
# serialisation for the model


def parse_query(zc, uni, data, now, scope=None):
    """what the responder will see in a datagram, computed outside the listener:
    (valid, is_query, has_qu, pkt-or-None).  Candidate answers come from the real
    `_get_answer_strategies`/`_answer_question` with an empty known-answer set (C03's subject)."""
    from zeroconf._dns import DNSRRSet
    from zeroconf._protocol.incoming import DNSIncoming

    m = DNSIncoming(data, ("0.0.0.0", 5353), scope, float(now))  # the listener passes the receiving interface's scope
    # what the duplicate guard's exemption looks at (D11c): "is a query" and "has a QU question".  The QU bits are taken
    # question by question (not from the packet's own `_has_qu_question` flag): the model folds them itself (`hasQuFlag`)
    qu_query = "%s %s" % (C.b01(m.is_query()), C.natlist([1 if q.unique else 0 for q in m._questions]) if any(q.unique for q in m._questions) else "-")
    if not m.valid:
        return False, False, qu_query, None
    if not m.is_query():
        return True, False, qu_query, None
    qh = zc.query_handler
    items = []
    for q in m._questions:
        for s in qh._get_answer_strategies(q):
            ans = qh._answer_question(q, s.strategy_type, s.types, s.services, DNSRRSet([]))
            # which of them does a known answer suppress at all?  (the NSEC answering a question for a
            # missing address type is added without consulting the known answers)
            kept = qh._answer_question(q, s.strategy_type, s.types, s.services, DNSRRSet(list(ans)))
            cands = [(uni.id(r), int(r.ttl), sorted(uni.id(a) for a in adds), r not in kept) for r, adds in ans.items()]
            items.append((bool(q.unique), cands))
    # known answers are numbered as the property compares them with the host's own records: without the scope id an IPv6 socket stamps
    # on AAAA records (D25, repaired in /repo).  Done here, unconditionally, not with the tree's own helper (review 3)
    known = [(uni.id(without_scope(r)), int(r.ttl)) for r in m.answers()]
    pkt = dict(now=int(now), id=m.id, flags=m.flags, num_auth=m._num_authorities, nq=len(m._questions),
               q0type=m._questions[0].type if m._questions else 0, items=items, known=known,
               questions=[(q.name, q.type, q.class_, bool(q.unique)) for q in m._questions])
    return True, True, qu_query, pkt


def without_scope(r):
    """the record as it is on the wire: an address record heard on an IPv6 socket carries that socket's scope id, which is no part of
    the record"""
    from zeroconf import _dns as d

    if isinstance(r, d.DNSAddress) and r.scope_id is not None:
        return d.DNSAddress(r.name, r.type, r.class_ | (0x8000 if r.unique else 0), r.ttl, r.address, created=r.created)
    return r


def seen_str(seen):
    return "%d %s" % (len(seen), " ".join("%d %d %d" % s for s in seen)) if seen else "0"


def draws_str(draws):
    return "%d %s" % (len(draws), " ".join(str(v) for (_lo, _hi, v) in draws)) if draws else "0"


def pkt_str(p):
    parts = ["%d %d %d %d %d %d" % (p["now"], p["id"], p["flags"], p["num_auth"], p["nq"], p["q0type"]), str(len(p["items"]))]
    for qu, cands in p["items"]:
        parts.append("%s %d" % (C.b01(qu), len(cands)))
        for rid, ttl, adds, sup in cands:
            parts.append("%d %d %s %s" % (rid, ttl, C.b01(sup), C.natlist(adds)))
    parts.append(str(len(p["known"])))
    for rid, ttl in p["known"]:
        parts.append("%d %d" % (rid, ttl))
    return " ".join(parts)


def block_line(tr, zc, b):
    """one model event for a block; also fills b['parsed'] for rx blocks"""
    asm = b["asm"]
    seen = asm["seen"] if asm else []
    if b["kind"] == "rx":
        valid, isq, hasqu, pkt = b["pq"]
        b["parsed"] = pkt
        kind = "i" if not valid else ("r" if not isq else "q " + pkt_str(pkt))
        return "rx %d %d %d %d %d %s %s %s %s" % (b["t"], tr.addr_id(b["akey"]), b["src"][1], tr.data_id(b["data"]), len(b["data"]),
                                                hasqu, kind, seen_str(seen), draws_str(b["draws"]))
    if b["kind"] == "tc":
        return "tc %d %d %s %s" % (b["t"], tr.addr_id(b["akey"]), seen_str(seen), draws_str(b["draws"]))
    if b["kind"] == "qf":
        return "qf %d %s" % (b["t"], C.b01(b["delayed"]))
    if b["kind"] == "rm":
        return "qr %d %s %s" % (b["t"], C.b01(b["delayed"]), C.natlist(b["recs"]))
    raise ValueError(b["kind"])


def decode_out(tr, o):
    """canonical description of one datagram the host sent (same format as the driver's outStr)"""
    from zeroconf._protocol.incoming import DNSIncoming

    m = DNSIncoming(o["data"])
    ans, add = split_sections(m)
    a = C.natlist(sorted(tr.uni.id(r) for r in ans))
    x = C.natlist(sorted(tr.uni.id(r) for r in add))
    o["msg"] = m
    o["ans"] = [tr.uni.id(r) for r in ans]
    o["add"] = [tr.uni.id(r) for r in add]
    o["ttls"] = {tr.uni.id(r): int(r.ttl) for r in ans + add}
    if o["to"][0] in (MDNS, "ff02::fb"):
        o["mcast"] = True
        return "m:%s:%s" % (a, x)
    o["mcast"] = False
    return "u:%d:%d:%d:%d:%s:%s" % (tr.addr_id(o["akey"]), o["to"][1], m.id, len(m._questions), a, x)


def block_obs(tr, b, dedupe_mcast=False):
    outs = [decode_out(tr, o) for o in b["outs"]]
    # a reply that needed several datagrams (same `async_send` call, same destination, different contents: `DNSOutgoing.packets()`) is
    # ONE reply: the union of its sections; the echoed question section is in the first packet only
    calls = {}
    for o, x in zip(b["outs"], outs):
        calls.setdefault((o.get("call"), o["mcast"], o["to_full"]), []).append(x)
    for (call, mc, to), xs in calls.items():
        if len(set(xs)) > 1:
            member = lambda o: o.get("call") == call and o["mcast"] == mc and o["to_full"] == to
            grp = [o for o in b["outs"] if member(o)]
            ans = sorted({r for o in grp for r in o["ans"]})
            add = sorted({r for o in grp for r in o["add"]} - set(ans))
            if mc:
                merged = "m:%s:%s" % (C.natlist(ans), C.natlist(add))
            else:
                m0 = grp[0]["msg"]
                merged = "u:%d:%d:%d:%d:%s:%s" % (tr.addr_id(grp[0]["akey"]), to[1], m0.id, max(len(o["msg"]._questions) for o in grp), C.natlist(ans), C.natlist(add))
            outs = [x for o, x in zip(b["outs"], outs) if not member(o)] + [merged]
            b["outs"] = [o for o in b["outs"] if not member(o)] + \
                [dict(grp[0], ans=ans, add=add, ttls={k: v for o in grp for k, v in o["ttls"].items()}, packets=len(grp))]
    if dedupe_mcast:
        # one logical multicast is one datagram per socket: identical descriptors count once
        outs = [x for i, x in enumerate(outs) if not (x.startswith("m:") and x in outs[:i])]
    outs = sorted(outs)
    draws = ",".join("%d/%d/%d" % d for d in b["draws"])
    return "%s %s" % (",".join(outs) if outs else "-", draws or "-")


# ------------------------------------------------------------------------------------------
# scenario building blocks

TYPES = ["_a._tcp.local.", "_b._tcp.local."]


def make_infos(rng, ttl_bias=None, n=None, big=False, aaaa=False):
    """n / big / aaaa: the special scenario families of C12 (many services with large TXT records: replies of several datagrams;
    every host with an AAAA record)"""
    from zeroconf import ServiceInfo

    import random as _random

    n = n if n is not None else rng.choice([1, 1, 2, 2, 3])
    # spelling of registered names: mixed case in about half of the services (drawn from a fork of the generator's state so
    # that existing scenarios keep everything else)
    sub = _random.Random(repr(rng.getstate()[1][:8]))
    infos = []
    for i in range(n):
        t = rng.choice(TYPES)
        share_host = i > 0 and rng.random() < 0.3
        cap = sub.random() < 0.5
        server = infos[0].server if share_host else ("MyHost%d.local." if cap else "h%d.local.") % i
        addrs = [socket.inet_aton("10.0.0.%d" % (i + 1))]
        if rng.random() < 0.35 or aaaa:
            addrs.append(socket.inet_pton(socket.AF_INET6, "fe80::%d" % (i + 1)))
        pool = ttl_bias or [1, 2, 3, 4, 5, 120, 120, 4500]
        if rng.random() < 0.5:
            host_ttl, other_ttl = 120, 4500
        else:
            host_ttl, other_ttl = rng.choice(pool), rng.choice(pool)
        infos.append(ServiceInfo(t, ("MyPrinter%d.%s" if cap else "s%d.%s") % (i, t), 8000 + i, addresses=addrs, server=server,
                                 properties={"k": "v%d" % i} if not big else {"k": "v%d" % i, "blob": "x" * 200},
                                 host_ttl=host_ttl, other_ttl=other_ttl))
    return infos


def seed_universe(uni, infos):
    from zeroconf import DNSPointer, const

    for inf in infos:
        uni.id(inf.dns_pointer())
        uni.id(inf.dns_service())
        uni.id(inf.dns_text())
        for a in inf.dns_addresses():
            uni.id(a)
        for r in inf._get_address_and_nsec_records(None):
            uni.id(r)
        uni.id(DNSPointer(const._SERVICE_TYPE_ENUMERATION_NAME, const._TYPE_PTR, const._CLASS_IN, const._DNS_OTHER_TTL, inf.type, 0.0))


def question_pool(infos):
    from zeroconf import const as k

    pool = []
    for inf in infos:
        pool += [(inf.type, k._TYPE_PTR), (inf.name, k._TYPE_SRV), (inf.name, k._TYPE_TXT), (inf.server, k._TYPE_A),
                 (inf.server, k._TYPE_AAAA), (inf.name, k._TYPE_ANY), (inf.name.upper(), k._TYPE_SRV)]
    pool += [(k._SERVICE_TYPE_ENUMERATION_NAME, k._TYPE_PTR), ("_zz._tcp.local.", k._TYPE_PTR), (infos[0].name, k._TYPE_NSEC),
             (infos[0].server, k._TYPE_ANY)]
    return pool


def build_query(rng, infos, uni, qid, *, nq=None, qu_p=0.3, tc=False, probe=False, known_p=0.3, questions=None, qus=None):
    """bytes of one query datagram"""
    from zeroconf import DNSOutgoing, DNSQuestion, const as k

    flags = k._FLAGS_QR_QUERY | (k._FLAGS_TC if tc else 0)
    out = DNSOutgoing(flags)
    pool = question_pool(infos)
    if questions is None:
        n = nq or rng.choice([1, 1, 1, 2, 2, 3])
        # bias to answerable questions
        questions = [rng.choice(pool[:len(pool) - 4]) if rng.random() < 0.85 else rng.choice(pool) for _ in range(n)]
    want_qus, qus = qus, []
    for j, (name, typ) in enumerate(questions):
        q = DNSQuestion(name, typ, k._CLASS_IN)
        q.unicast = (rng.random() < qu_p) if want_qus is None else bool(want_qus[j])
        qus.append(q.unicast)
        out.add_question(q)
    if rng.random() < known_p:
        cands = [r for r in uni.recs]
        for r in rng.sample(cands, min(len(cands), rng.choice([1, 2, 4]))):
            ttl = rng.choice([r.ttl, r.ttl // 2, r.ttl // 2 + 1, 1, r.ttl])
            out.add_answer_at_time(with_ttl(r, ttl), 0)
    if probe:
        out.add_authorative_answer(infos[0].dns_pointer())
    pk = out.packets()
    d = bytearray(pk[0])
    d[0], d[1] = qid >> 8, qid & 255
    return bytes(d), questions, qus


def build_long_query(rng, infos, uni, qid):
    """a multi-packet query as the library itself encodes it (`DNSOutgoing.packets()`): one PTR question and
    200..400 known answers, so every packet after the first has an empty question section; TC on all but the last.
    The host's own records are scattered among filler PTRs so that some of them are 'known' only in a later packet."""
    from zeroconf import DNSOutgoing, DNSPointer, DNSQuestion, const as k

    inf = rng.choice(infos)
    out = DNSOutgoing(k._FLAGS_QR_QUERY)
    out.add_question(DNSQuestion(inf.type, k._TYPE_PTR, k._CLASS_IN))
    n = rng.choice([200, 300, 400])
    tag = "%04x" % qid
    known = [DNSPointer(inf.type, k._TYPE_PTR, k._CLASS_IN, 4500, "x%s-%d.%s" % (tag, i, inf.type)) for i in range(n)]
    own = [i.dns_pointer() for i in infos if i.type == inf.type]
    for r in own:
        if rng.random() < 0.8:
            ttl = rng.choice([r.ttl, r.ttl, r.ttl // 2 + 1, r.ttl // 2])
            pos = rng.choice([len(known), rng.randrange(len(known) + 1), rng.randrange(len(known) // 2, len(known) + 1)])
            known.insert(pos, with_ttl(r, ttl))
    for r in known:
        out.add_answer_at_time(r, 0)
    datas = []
    for pk in out.packets():
        d = bytearray(pk)
        d[0], d[1] = qid >> 8, qid & 255
        datas.append(bytes(d))
    return datas


def is_goodbye(data):
    """a response whose records all carry TTL 0 (what the unregister task broadcasts, outside any block of the responder)"""
    from zeroconf._protocol.incoming import DNSIncoming

    m = DNSIncoming(data)
    rs = m.answers()
    return bool(rs) and not m.is_query() and all(r.ttl == 0 for r in rs)


def sighting_gaps(tr, maxdelay=20):
    """An assumption check that does not read the cache the way the code does: a record the host *itself* multicast (answer
    or additional; the datagram loops back) must be in the cache snapshot of every later assembly while its TTL runs, stamped
    no earlier than one second before that transmission (an identical datagram inside a second is not re-stamped: C16).
    A host whose own transmissions no longer reach its cache would silently disable the one-second and quarter-TTL rules.
    -> list of (record id, sent at, assembly at, snapshot entry)"""
    from zeroconf._protocol.incoming import DNSIncoming

    sent = []
    probs = []
    flushes = []  # a later cache-flush record of the same name/type/class (RFC 6762 10.2) legitimately expires the entry
    goodbyes = []  # (time, record id): the host withdrew the record itself (TTL 0, sent by the unregister task outside any block)
    for o in tr.orphans:
        for r in DNSIncoming(o["data"]).answers():
            if r.ttl == 0:
                goodbyes.append((o["t"], tr.uni.id(r)))
    for b in tr.blocks:
        if b.get("asm"):
            seen = {i: (c, ttl) for (i, c, ttl) in b["asm"]["seen"]}
            c = b["t"]
            for (rid, s, ttl) in sent:
                r0 = tr.uni.recs[rid]
                flushed = any(f > s and k == (r0.key, r0.type, r0.class_) and fr != rid for (f, k, fr) in flushes) or \
                    any(s <= g <= c and gr == rid for (g, gr) in goodbyes)
                # a transmission less than a second after another one of the same record may be the identical datagram again: the
                # duplicate guard then drops its loop-back and the stamp (and the TTL's start) is the earlier one's
                shadowed = any(r2 == rid and s - 1000 < s2 < s for (r2, s2, _t2) in sent)
                if (s + maxdelay < c < s + 1000 * ttl and not flushed and not shadowed
                        and not any(pt >= s - 1000 and pr == rid for (pt, pr) in tr.pokes)):
                    e = seen.get(rid)
                    if e is None or e[0] < s - 1000:
                        probs.append((rid, s - T0, c - T0, e))
        for o in b["outs"]:
            if o.get("mcast") and o["to"][0] == MDNS:
                for rid in o["ans"] + o["add"]:
                    sent.append((rid, o["t"], o["ttls"].get(rid, 0)))  # the TTL as transmitted (equal records may differ in TTL)
                    rr = tr.uni.recs[rid]
                    if rr.unique:
                        flushes.append((o["t"], (rr.key, rr.type, rr.class_), rid))
        if len(sent) > 400:
            sent = sent[-400:]
    return probs
