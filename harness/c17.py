"""C17 -- shutdown is complete and quiet.

A real instance A (plus a peer B that keeps producing traffic) runs a generated scenario -- services being
probed / announced / updated / unregistered, tracked and untracked browsers starting up and refreshing, lookups,
answers waiting in the aggregation queues, deferred truncated queries -- under the virtual-time simulator.
`AsyncZeroconf.async_close()` is requested at a block boundary of that scenario (every block time of a dry run is a
candidate, +-1 ms, plus random instants); after it returns the simulation continues for hours of virtual time with
further traffic, then closes again.

Stage O: after close returned nothing is transmitted (nor attempted on the closed transport), no callback fires, the
loop exception handler stays empty; every service registered when (or while) closing got a goodbye before the
transports closed and no positive record after it; the second close sends nothing and changes nothing.
Stage C: every atomic block of the run is replayed through the Lean shutdown machine (`c17run`): the flags read from
the real objects before the block decide whether the model allows the block to send / call back; the model must
never be more silent than the implementation, and after `closed` it must reject nothing the implementation does.
"""
from __future__ import annotations

import asyncio
import contextlib
import gc
import socket
import sys
import warnings
import zlib

from . import common as C
from .c16 import KeyedRng, canon_packet

TRACE = True
TRUSTED = [
    "virtual-time simulator (harness/vsim.py); a closed transport delivers nothing (asyncio's contract)",
    "real threads (harness/c17_threads.py): recording transports on a real loop, shortened protocol constants; which thread runs when is the OS's",
]
ASSUMPTIONS = [
    "'after close has returned' starts when the awaited AsyncZeroconf.async_close() completes; API calls made after that are the caller's (NotRunningException is the documented answer) and are not 'timers left behind'",
    "'registered services' = every service in the registry when async_close is called or added to it before the transports close",
]
TA = "_a._tcp.local."
TB = "_b._tcp.local."
MDNS = "224.0.0.251"
D15_SIG = "C17:registration-completes-during-close"
D17_SIG = "C17:overlapping-close-during-startup-raises"


def gen_case(seed, idx):
    rng = C.rng_for(seed, "c17", idx)
    acts = []
    t = 0
    n_reg = rng.choice([0, 1, 1, 2, 2, 3])
    for i in range(n_reg):
        t += rng.choice([0, 0, 1, 50, 200, 360, 700, 1500])
        acts.append({"t": t, "op": "register", "i": i, "allow": rng.random() < 0.3})
    if rng.random() < 0.7:
        acts.append({"t": rng.choice([0, 0, 5, 300, 900, 2500]), "op": "browse-tracked", "type": rng.choice([TA, TB])})
    if rng.random() < 0.5:
        acts.append({"t": rng.choice([0, 10, 400, 1200, 3000]), "op": "browse-untracked", "type": rng.choice([TA, TB]), "handlers": rng.random() < 0.5})
    if rng.random() < 0.5:
        acts.append({"t": rng.choice([0, 100, 800, 2000]), "op": "lookup", "name": rng.choice(["sb." + TB, "nosuch." + TB, "s1." + TA]), "timeout": rng.choice([500, 3000, 8000])})
    if n_reg and rng.random() < 0.3:
        # only after service 0 has been handed to register (updating a never-registered info and then registering the
        # same object makes the instance answer its own probes with the renamed object: an endless rename loop that has
        # nothing to do with shutdown)
        t0 = next(a["t"] for a in acts if a["op"] == "register" and a["i"] == 0)
        acts.append({"t": t0 + rng.choice([360, 900, 1500, 2600]), "op": rng.choice(["unregister", "update"]), "i": 0})
    if rng.random() < 0.25:
        acts.append({"t": rng.choice([0, 700, 2000]), "op": "browse-tracked", "type": TB})
    horizon = rng.choice([400, 1000, 2500, 4000, 12000])
    return {
        "seed": seed, "idx": idx, "acts": sorted(acts, key=lambda a: a["t"]), "horizon": horizon,
        "maxdelay": rng.choice([0, 5, 30]), "peer_period": rng.choice([37, 150, 410]), "peer_tc": rng.random() < 0.5,
        "close_pick": rng.random(), "close_jitter": rng.choice([0, 0, 0, 1, -1, 7]),
        "late_action": rng.choice([None, None, "register", "browse-tracked", "browse-untracked", "lookup"]), "late_at": rng.choice([0, 1, 60, 124, 126, 249, 250]),
        "second_close_after": rng.choice([5, 100, 600000]), "tail": rng.choice([20000, 7200000, 14400000]),
        # the default configuration has a dedicated listen socket besides the respond socket (unicast=True has not)
        "listen_socket": rng.random() < 0.6,
        # services on one `server` name with the same / different / nested address sets, or each on its own server
        # further async_close() calls overlapping the first one (offsets from the first call), and cancellation of the
        # task awaiting the first one (then another close is always made, so that some close returns)
        "extra_closes": (sorted(rng.sample([0, 1, 60, 124, 125, 126, 249, 250, 251, 400], rng.choice([1, 1, 2]))) if rng.random() < 0.4 else []),
        "cancel_first_at": (rng.choice([0, 1, 100, 125, 200, 250]) if rng.random() < 0.12 else None),
        "addr_mode": rng.choice(["same", "same", "different", "different", "superset", "mixed-family"]),
        "server_mode": rng.choice(["shared", "shared", "shared", "distinct"]),
    }


def rec_key(r):
    """identity of a record without TTL, creation time and cache-flush bit"""
    tok = C.rec_line(r, created=0).split()
    return " ".join(tok[:4] + tok[7:])


def withdrawn_keys(data):
    """identities of the records carried with TTL 0 by a response datagram"""
    from zeroconf import DNSIncoming

    m = DNSIncoming(data)
    if not m.valid or m.is_query():
        return set()
    return {rec_key(r) for r in m.answers() if int(r.ttl) == 0}


def ptr_ttls(data):
    """[(instance name, ttl)] of the PTR records for TA in a datagram"""
    from zeroconf import DNSIncoming
    from zeroconf._dns import DNSPointer

    m = DNSIncoming(data)
    out = []
    if m.valid and not m.is_query():
        for r in m.answers():
            if isinstance(r, DNSPointer) and r.name.lower() == TA:
                out.append((r.alias, int(r.ttl)))
    return out


def simulate(case, close_at, want_blocks=True):
    """close_at: None (dry run: no close, returns block times) or ms after the scenario start"""
    from . import vsim
    from zeroconf import DNSOutgoing, DNSQuestion, IPVersion, ServiceInfo, ServiceListener, ServiceStateChange, const
    from zeroconf.asyncio import AsyncServiceBrowser, AsyncServiceInfo, AsyncZeroconf

    sim = vsim.Sim(seed=case["seed"] * 100003 + case["idx"], maxdelay=case["maxdelay"], loopback=True, log_blocks=True)
    lib_rng = KeyedRng(sim, "lib")

    def lib_randint(lo, hi):
        v = lib_rng.randint(lo, hi)
        sim.draws.append((sim.now() if sim.loop is not None else None, lo, hi, v))
        return v

    sim.randint = lib_randint
    sim.net_rng = KeyedRng(sim, "net")
    src = {}

    def snap():
        za = src.get("za")
        if za is None:
            return None
        eng = za.engine
        t = eng._cleanup_timer
        a_ = src["a"]
        rx = a_.ltransport if a_.ltransport is not None else a_.transport   # where Host.deliver hands datagrams in
        # the listener invariant read off the real objects: fewest deferred packets over the armed TC timers (None: none armed)
        tcmin = None
        for pr in eng.protocols:
            for addr_ in pr._timers:
                n_ = len(pr._deferred.get(addr_, ()))
                tcmin = n_ if tcmin is None else min(tcmin, n_)
        return [bool(za.done), bool(a_.transports and all(x.closed for x in a_.transports)), bool(t is not None and not t.cancelled()),
                bool(rx is None or rx.closed), bool(eng.running_event is not None and eng.running_event.is_set()), tcmin]

    orig_block = sim.block

    def block(kind, obj=None, **kw):
        src["n"] = src.get("n", 0) + 1
        if src["n"] > 400000:   # a scenario that never lets virtual time advance: infrastructure error, not a verdict
            sim.loop.stop()
        return orig_block(kind, obj, flags=snap(), **kw)

    sim.block = block
    obs = {"sends": [], "callbacks": [], "api_errors": [], "marks": {}, "blocks": [], "registry_log": [], "errors": [], "lookups_done": [], "close_oids": [], "close_results": []}

    def cb(tag, kind, name):
        ev = [sim.now(), tag, kind, name]
        obs["callbacks"].append(ev)
        sim.out_event({"callback": tag})

    class L(ServiceListener):
        def __init__(s, tag):
            s.tag = tag

        def add_service(s, zc, t, n):
            cb(s.tag, "add", n)

        def remove_service(s, zc, t, n):
            cb(s.tag, "rem", n)

        def update_service(s, zc, t, n):
            cb(s.tag, "upd", n)

    def handler(zeroconf, service_type, name, state_change):
        cb("h", state_change.name, name)

    async def main(sim):
        a = sim.make_host("A", "10.0.0.1", listen_socket=bool(case.get("listen_socket")))
        b = sim.make_host("B", "10.0.0.2")
        za, zb = a.zc, b.zc
        aza = AsyncZeroconf(zc=za)
        await za.async_wait_for_start()
        await zb.async_wait_for_start()
        src["za"], src["a"] = za, a
        obs["peer_oids"] = [sim.oid(x) for x in (zb, zb.out_queue, zb.out_delay_queue, zb.engine, zb.engine.protocols[0])]
        t_start = sim.now()
        obs["t_start"] = t_start
        if case.get("tie_first"):
            # the order of timers due in the same iteration is unspecified in asyncio: choose it (within the clock resolution)
            import heapq
            loop_ = sim.loop
            orig_once = loop_._run_once

            def is_a_cleanup(h_):
                cb_ = h_._callback
                return getattr(cb_, "__self__", None) is za.engine and "cache_cleanup" in getattr(cb_, "__name__", "")

            def once():
                sched = loop_._scheduled
                live = [h_ for h_ in sched if not h_._cancelled]
                if case["tie_first"] == "close" and loop_._ready:
                    # real time passes while callbacks run: a timer that is due within the next millisecond may become due
                    # while something is still queued -- it is then appended *behind* what is queued (here: the close's step)
                    for h_ in live:
                        if is_a_cleanup(h_) and 0 < round(h_._when * 1000) - loop_.ms <= 1 and any(
                                "async_close" in repr(getattr(r_, "_callback", "")) or "async_close" in repr(getattr(r_, "_args", "")) for r_ in loop_._ready):
                            loop_.ms = round(h_._when * 1000)
                if len(live) > 1:
                    w0 = min(round(h_._when * 1000) for h_ in live)
                    same = [h_ for h_ in live if round(h_._when * 1000) == w0]
                    if len(same) > 1:
                        for h_ in same:
                            first = is_a_cleanup(h_) == (case["tie_first"] == "cleanup")
                            h_._when = w0 / 1000.0 + (0.0 if first else 2e-10)
                        heapq.heapify(sched)
                return orig_once()

            loop_._run_once = once
        if case.get("raw_listener"):
            class Raw:
                def async_update_records(self, zc_, now, records):
                    cb("raw", "update_records", len(records))

                def async_update_records_complete(self):
                    pass

            za.async_add_listener(Raw(), None)
        sim.loop.set_exception_handler(lambda l, ctx: obs["errors"].append([sim.now(), str(ctx.get("exception") or ctx.get("message"))[:200]]))

        def on_send(t, srch, data, addr):
            if srch is a:
                obs["sends"].append([t, addr[0], addr[1], data.hex()])

        sim.net.on_send = on_send
        watched["registry"] = za.registry
        def addrs_of(i):
            mode = case.get("addr_mode", "same")
            base = socket.inet_aton("10.0.0.1")
            if mode == "different":
                return [socket.inet_aton("10.0.%d.1" % i)]
            if mode == "superset":
                return [base] + [socket.inet_aton("10.0.%d.1" % k) for k in range(1, i + 1)]
            if mode == "mixed-family":
                return [base] if i == 0 else [socket.inet_pton(socket.AF_INET6, "fe80::%d" % i)]
            return [base]

        infos = [ServiceInfo(TA, "s%d.%s" % (i + 1, TA), 80 + i, addresses=addrs_of(i),
                             server="ha.local." if case.get("server_mode", "shared") == "shared" else "h%d.local." % i) for i in range(3)]
        infob = ServiceInfo(TB, "sb." + TB, 90, addresses=[socket.inet_aton("10.0.0.2")], server="hb.local.")
        bg = []

        async def guarded(name, coro):
            try:
                r = await coro
                if asyncio.isfuture(r) or asyncio.iscoroutine(r):
                    await r
            except Exception as ex:  # the caller of an API sees its exceptions; they are not loop errors
                obs["api_errors"].append([sim.now(), name, type(ex).__name__])

        def do(act):
            op = act["op"]
            if op == "register":
                bg.append(asyncio.ensure_future(guarded("register", aza.async_register_service(infos[act["i"]], allow_name_change=act.get("allow", False)))))
            elif op == "unregister":
                bg.append(asyncio.ensure_future(guarded("unregister", aza.async_unregister_service(infos[act["i"]]))))
            elif op == "update":
                # a changed service is a new ServiceInfo handed to update (mutating the registered object in place leaves
                # its cached records stale: not what is being tested here)
                old = infos[act["i"]]
                infos[act["i"]] = ServiceInfo(TA, old.name, old.port + 1000, addresses=old.addresses_by_version(IPVersion.All), server=old.server)
                bg.append(asyncio.ensure_future(guarded("update", aza.async_update_service(infos[act["i"]]))))
            elif op == "browse-tracked":
                bg.append(asyncio.ensure_future(guarded("browse", aza.async_add_service_listener(act["type"], L("t%d" % len(bg))))))
            elif op == "browse-untracked":
                try:
                    if act.get("handlers"):
                        AsyncServiceBrowser(za, [act["type"]], handlers=[handler])
                    else:
                        AsyncServiceBrowser(za, [act["type"]], listener=L("u%d" % len(bg)))
                except Exception as ex:
                    obs["api_errors"].append([sim.now(), "browse-untracked", type(ex).__name__])
            elif op == "lookup":
                async def lk():
                    si = AsyncServiceInfo(act["name"].split(".", 1)[1], act["name"])
                    ok = await si.async_request(za, act["timeout"])
                    obs["lookups_done"].append([sim.now(), act["name"], bool(ok)])   # the awaited call returning is not a callback
                bg.append(asyncio.ensure_future(guarded("lookup", lk())))

        async def peer():
            t = await zb.async_register_service(infob)
            k = 0
            while True:
                await sim.sleep_ms(case["peer_period"])
                k += 1
                out = DNSOutgoing(const._FLAGS_QR_QUERY | (const._FLAGS_TC if case["peer_tc"] and k % 3 == 0 else 0))
                q = DNSQuestion(TA, const._TYPE_PTR, const._CLASS_IN)
                q.unicast = k % 4 == 1
                out.add_question(q)
                if k % 2 == 0:
                    out.add_question(DNSQuestion("ha.local.", const._TYPE_A, const._CLASS_IN))
                if k % 5 == 0:
                    out.add_question(DNSQuestion("s1." + TA, const._TYPE_SRV, const._CLASS_IN))
                zb.async_send(out)
                if sim.now() - t_start > case["horizon"] + 40000:
                    await sim.sleep_ms(600000)   # slow down for the long tail

        ptask = asyncio.ensure_future(peer())

        async def scenario():
            for act in case["acts"]:
                await sim.sleep_until(t_start + act["t"])
                do(act)

        stask = asyncio.ensure_future(scenario())
        if close_at is None:
            await sim.sleep_ms(case["horizon"] + 300)
            obs["block_times"] = sorted({e["t"] - t_start for e in sim.events if e["t"] >= t_start})
            ptask.cancel()
            stask.cancel()
            for x in bg:
                x.cancel()
            await aza.async_close()
            await zb._async_close()
            return
        if case.get("close_abs") is not None:
            await sim.sleep_until(case["close_abs"])
        else:
            await sim.sleep_until(t_start + close_at)
        obs["marks"]["close_called"] = sim.now()
        stask.cancel()   # API calls after the close are the caller's business, not "in progress" work
        obs["registry_at_close"] = sorted(i.name for i in za.registry.async_get_service_infos())
        # every record a registered service stands for, at the moment close is called
        obs["records_at_close"] = {i.name: sorted({rec_key(r) for r in [i.dns_pointer(), i.dns_service(), i.dns_text()] + list(i.get_address_and_nsec_records())})
                                   for i in za.registry.async_get_service_infos()}
        tracked_at_close = list(aza.async_browsers.values())
        late = None
        if case["late_action"]:
            async def late_job():
                await sim.sleep_ms(case["late_at"])
                if "close_returned" in obs["marks"]:
                    return
                obs["marks"]["late_action_at"] = sim.now()
                do({"op": case["late_action"], "i": 2, "type": TA, "name": "sb." + TB, "timeout": 3000, "handlers": False})
            late = asyncio.ensure_future(late_job())
        closes = []

        def new_close():
            t = asyncio.ensure_future(aza.async_close())
            closes.append(t)
            obs["close_oids"].append(sim.oid(t))
            return t

        first = new_close()
        extra = list(case.get("extra_closes") or [])
        cancel_at = case.get("cancel_first_at")
        if cancel_at is not None and not extra:
            extra = [cancel_at + 10]

        async def later(ms, fn):
            await sim.sleep_ms(ms)
            fn()

        helpers = [asyncio.ensure_future(later(d, new_close)) for d in extra]
        if cancel_at is not None:
            helpers.append(asyncio.ensure_future(later(cancel_at, first.cancel)))
        # "close has returned" = the first of the overlapping calls to return normally
        while not any(t.done() and not t.cancelled() and t.exception() is None for t in closes):
            pending = [t for t in closes + helpers if not t.done()]
            if not pending:   # every call raised: reported through close_results; carry on from here
                obs["marks"]["no_close_returned"] = True
                break
            await asyncio.wait(pending, return_when=asyncio.FIRST_COMPLETED)
        obs["marks"]["close_returned"] = sim.now()
        obs["marks"]["n_events_at_return"] = len(sim.events)
        obs["marks"]["n_sends_at_return"] = len(obs["sends"])
        obs["marks"]["n_callbacks_at_return"] = len(obs["callbacks"])
        obs["marks"]["n_attempts_at_return"] = len(sim.sends_after_close)
        obs["state_after_close"] = state_digest(za, aza)
        obs["transports_aborted"] = sum(1 for t_ in a.transports if getattr(t_, "aborted", False))
        obs["tracked_not_cancelled"] = sum(1 for br in tracked_at_close
                                           if not (br.done and br.query_scheduler._next_run is None and br not in za.record_manager.listeners))
        await sim.sleep_ms(case["second_close_after"])
        obs["marks"]["second_close_called"] = sim.now()
        n_before = len(obs["sends"])
        await asyncio.gather(*helpers, return_exceptions=True)
        await asyncio.gather(*closes, return_exceptions=True)
        with contextlib.suppress(Exception):   # a raising second close is an observation (close_results), not a harness error
            await new_close()
        obs["marks"]["second_close_returned"] = sim.now()
        obs["second_close_sends"] = len(obs["sends"]) - n_before
        obs["state_after_second_close"] = state_digest(za, aza)
        await asyncio.gather(*helpers, return_exceptions=True)
        await asyncio.gather(*closes, return_exceptions=True)
        for t in closes:
            obs["close_results"].append("ca" if t.cancelled() else ("ok" if t.exception() is None else type(t.exception()).__name__))
        await sim.sleep_ms(case["tail"])
        obs["final_flags"] = snap()
        obs["marks"]["end"] = sim.now()
        ptask.cancel()
        stask.cancel()
        await zb._async_close()
        del bg[:]
        gc.collect()   # "Task exception was never retrieved" is reported when the task object dies
        await asyncio.sleep(0)

    def state_digest(za, aza):
        eng = za.engine
        return {"done": bool(za.done), "running": bool(eng.running_event.is_set()),
                "transports_closed": all(t.transport.is_closing() for t in eng.senders + eng.readers),
                "cleanup_cancelled": bool(eng._cleanup_timer is None or eng._cleanup_timer.cancelled()),
                "registry": sorted(i.name for i in za.registry.async_get_service_infos()), "tracked_browsers": len(aza.async_browsers),
                "listeners": len(za.record_manager.listeners)}

    import zeroconf._services.registry as regm
    import zeroconf._core as corem
    import zeroconf._engine as engm

    saved_cls = []

    def in_close_step():
        return sim._cur is not None and sim._cur.get("kind") == "step:async_close"

    def patch_cls(cls, name, mk):
        orig = getattr(cls, name)
        setattr(cls, name, mk(orig))
        saved_cls.append((cls, name, orig))

    def mk_body(orig):
        def f(self):
            if self is src.get("za") and in_close_step():
                sim.out_event({"phase": "body", "reg": len(self.registry.async_get_service_infos())})
            return orig(self)
        return f

    def mk_send(orig):
        def f(self, out, *a, **k):
            if self is src.get("za") and in_close_step():
                sim.out_event({"phase": "send"})
            return orig(self, out, *a, **k)
        return f

    def mk_mark(phase, owner):
        def mk(orig):
            def f(self, *a, **k):
                if self is owner() and in_close_step():
                    sim.out_event({"phase": phase})
                return orig(self, *a, **k)
            return f
        return mk

    patch_cls(corem.Zeroconf, "generate_unregister_all_services", mk_body)
    patch_cls(corem.Zeroconf, "async_send", mk_send)
    patch_cls(corem.Zeroconf, "_close", mk_mark("markdone", lambda: src.get("za")))
    patch_cls(engm.AsyncEngine, "_async_shutdown", mk_mark("shutdown", lambda: getattr(src.get("za"), "engine", None)))

    watched = {}
    reg_add = regm.ServiceRegistry.async_add

    def logged_add(self, info):
        if self is watched.get("registry"):
            obs["registry_log"].append([sim.now(), info.name])
        return reg_add(self, info)

    regm.ServiceRegistry.async_add = logged_add
    # scenario tasks cancelled before their first step leave un-awaited coroutine objects behind: harness noise
    warnings.filterwarnings("ignore", category=RuntimeWarning, message="coroutine .* was never awaited")
    try:
        sim.run(main)
    finally:
        regm.ServiceRegistry.async_add = reg_add
        for cls, name, orig in saved_cls:
            setattr(cls, name, orig)
    obs["errors"] += [[None, str(e.get("exception") or e.get("message"))[:200]] for e in sim.errors]
    obs["attempted"] = [[t, n] for (t, n, d, addr) in sim.sends_after_close]
    if want_blocks:
        obs["blocks"] = sim.events
    return obs


def gen_aligned_case(seed, idx):
    """the step in which the close shuts the engine down falls into the loop iteration in which the periodic cache
    cleanup is due (10 s after start-up, then every 10 s), in either order; listeners that are never cancelled are
    watched for hours afterwards while the cached records of the peer expire"""
    rng = C.rng_for(seed, "c17-aligned", idx)
    registered = rng.random() < 0.75
    acts = [{"t": 10, "op": "browse-untracked", "type": TB, "handlers": rng.random() < 0.5}]
    if registered:
        acts.append({"t": 0, "op": "register", "i": 0, "allow": False})
    if rng.random() < 0.4:
        acts.append({"t": 300, "op": "browse-tracked", "type": TB})
    k = rng.choice([1, 1, 2])
    return {"seed": seed, "idx": idx, "acts": sorted(acts, key=lambda a_: a_["t"]), "horizon": 10000 * k + 500, "maxdelay": rng.choice([0, 5]),
            "peer_period": 410, "peer_tc": False, "close_pick": 0.0, "close_jitter": 0,
            # absolute instant of the close call: the engine step of the close (third goodbye + shutdown, 250 ms after the call when
            # something is registered; the call itself otherwise) lands on the cleanup deadline, or 1 ms beside it
            "close_abs": 10000 * k - (250 if registered else 0) + rng.choice([0, 0, -1, -1, -1, 1]),
            "tie_first": rng.choice(["close", "close", "cleanup"]), "raw_listener": True,
            "late_action": None, "late_at": 0, "second_close_after": rng.choice([5, 600000]), "tail": 7200000,
            "listen_socket": rng.random() < 0.6, "addr_mode": "same", "server_mode": "shared", "extra_closes": [], "cancel_first_at": None}


def gen_early_case(seed, idx):
    """closes requested while the engine is still starting (endpoints not created yet)"""
    rng = C.rng_for(seed, "c17-early", idx)
    n = rng.choice([1, 2, 2, 3])
    return {"seed": seed, "idx": idx, "early": True, "start_delay": rng.choice([0, 1, 3, 40]), "listen_socket": rng.random() < 0.6,
            "offsets": sorted(rng.choice([0, 0, 1, 2, 5, 50]) for _ in range(n)), "cancel_first_at": rng.choice([None, None, None, 0, 2]),
            "tail": rng.choice([2000, 3600000])}


def simulate_early(case):
    """a fresh instance; `async_close()` is called `offsets` ms after construction, while `create_datagram_endpoint`
    still takes `start_delay` ms per socket"""
    from . import vsim
    from zeroconf.asyncio import AsyncZeroconf
    import zeroconf._core as corem
    import zeroconf._engine as engm

    sim = vsim.Sim(seed=case["seed"] * 100003 + case["idx"], maxdelay=0, loopback=True, log_blocks=True)
    src = {}
    obs = {"sends": [], "callbacks": [], "errors": [], "marks": {}, "blocks": [], "close_oids": [], "close_results": [], "early": True}

    def snap():
        za = src.get("za")
        if za is None:
            return None
        eng = za.engine
        t = eng._cleanup_timer
        a_ = src["a"]
        rx = a_.ltransport if a_.ltransport is not None else a_.transport
        # the listener invariant read off the real objects: fewest deferred packets over the armed TC timers (None: none armed)
        tcmin = None
        for pr in eng.protocols:
            for addr_ in pr._timers:
                n_ = len(pr._deferred.get(addr_, ()))
                tcmin = n_ if tcmin is None else min(tcmin, n_)
        return [bool(za.done), bool(a_.transports and all(x.closed for x in a_.transports)), bool(t is not None and not t.cancelled()),
                bool(rx is None or rx.closed), bool(eng.running_event is not None and eng.running_event.is_set()), tcmin]

    orig_block = sim.block
    sim.block = lambda kind, obj=None, **kw: orig_block(kind, obj, flags=snap(), **kw)
    saved = []

    def in_close_step():
        return sim._cur is not None and sim._cur.get("kind") == "step:async_close"

    def patch_cls(cls, name, mk):
        orig = getattr(cls, name)
        setattr(cls, name, mk(orig))
        saved.append((cls, name, orig))

    def marker(phase, extra=None):
        def mk(orig):
            def f(self, *a, **k):
                if in_close_step():
                    ev = {"phase": phase}
                    if extra is not None:
                        ev.update(extra(self))
                    sim.out_event(ev)
                return orig(self, *a, **k)
            return f
        return mk

    patch_cls(corem.Zeroconf, "generate_unregister_all_services", marker("body", lambda z: {"reg": len(z.registry.async_get_service_infos())}))
    patch_cls(corem.Zeroconf, "async_send", marker("send"))
    patch_cls(corem.Zeroconf, "_close", marker("markdone"))
    patch_cls(engm.AsyncEngine, "_async_shutdown", marker("shutdown"))
    orig_cde = vsim.VLoop.create_datagram_endpoint

    async def slow_cde(self, pf, sock=None, **kw):
        if case["start_delay"]:
            await asyncio.sleep(case["start_delay"] / 1000.0)
        else:
            await asyncio.sleep(0)
        return await orig_cde(self, pf, sock=sock, **kw)

    vsim.VLoop.create_datagram_endpoint = slow_cde

    async def main(sim):
        sim.loop.set_exception_handler(lambda l, ctx: obs["errors"].append([sim.now(), str(ctx.get("exception") or ctx.get("message"))[:200]]))
        a = sim.make_host("A", "10.0.0.1", listen_socket=bool(case.get("listen_socket")))
        za = a.zc
        aza = AsyncZeroconf(zc=za)
        src["za"], src["a"] = za, a
        sim.net.on_send = lambda t, h, d, addr: obs["sends"].append([t, addr[0], addr[1], d.hex()])
        closes = []

        def new_close():
            t = asyncio.ensure_future(aza.async_close())
            closes.append(t)
            obs["close_oids"].append(sim.oid(t))

        async def later(ms, fn):
            if ms:
                await sim.sleep_ms(ms)
            fn()

        helpers = [asyncio.ensure_future(later(d, new_close)) for d in case["offsets"]]
        if case.get("cancel_first_at") is not None:
            helpers.append(asyncio.ensure_future(later(case["cancel_first_at"], lambda: closes and closes[0].cancel())))
        await asyncio.gather(*helpers)
        await asyncio.gather(*closes, return_exceptions=True)
        obs["marks"]["all_returned"] = sim.now()
        obs["n_sends_at_return"] = len(obs["sends"])
        for t in closes:
            obs["close_results"].append("ca" if t.cancelled() else ("ok" if t.exception() is None else type(t.exception()).__name__))
        await sim.sleep_ms(case["tail"])
        obs["final_flags"] = snap()
        eng = za.engine
        obs["state"] = {"done": bool(za.done), "transports": [bool(t.closed) for t in a.transports], "running": bool(eng.running_event.is_set()),
                        "cleanup_cancelled": bool(eng._cleanup_timer is None or eng._cleanup_timer.cancelled())}
        gc.collect()
        await asyncio.sleep(0)

    warnings.filterwarnings("ignore", category=RuntimeWarning, message="coroutine .* was never awaited")
    try:
        sim.run(main)
    finally:
        vsim.VLoop.create_datagram_endpoint = orig_cde
        for cls, name, orig in saved:
            setattr(cls, name, orig)
    obs["errors"] += [[None, str(e.get("exception") or e.get("message"))[:200]] for e in sim.errors]
    obs["attempted"] = [[t, n] for (t, n, d, addr) in sim.sends_after_close]
    obs["blocks"] = sim.events
    return obs


def evaluate_early(case, obs):
    bad = []
    ok = [r for r in obs["close_results"] if r == "ok"]
    for k, r in enumerate(obs["close_results"]):
        if r == "NotRunningException":
            bad.append((D17_SIG, "async_close() call #%d, made while the engine was still starting and overlapping another close, raised NotRunningException" % k))
        elif r not in ("ok", "ca"):
            bad.append(("C17:close-call-raises:" + r, "async_close() call #%d raised %s" % (k, r)))
    if ok:
        st = obs["state"]
        if not (st["done"] and all(st["transports"]) and st["cleanup_cancelled"] and not st["running"]):
            bad.append(("C17:not-shut-down", "after close returned (closes during start-up): %s" % st))
        if obs["sends"][obs["n_sends_at_return"]:] or obs["attempted"]:
            bad.append(("C17:send-after-close", "datagram transmitted / attempted after close returned (closes during start-up)"))
    if obs["errors"]:
        bad.append(("C17:loop-exception", "loop exception handler called: %s" % obs["errors"][0][1]))
    return bad


def run_early_case(res, case, ctx, acc):
    obs = simulate_early(case)
    res.evaluations += 1
    res.count("early:closes=%d/delay=%d" % (len(case["offsets"]), case["start_delay"]))
    res.nontriv("early/%s/%s" % (",".join(obs["close_results"]), case["start_delay"]))
    bad = evaluate_early(case, obs)
    for sig, what in bad:
        violate_limited(res, sig, what, {"case": case, "close_results": obs["close_results"], "state": obs.get("state")})
    acc.append((case, obs))
    return bad


def evaluate(res, case, obs):
    """the property's sentences on the implementation's observations; returns list of (sig, what)"""
    bad = []
    mk = obs["marks"]
    tr = mk["close_returned"]
    late_sends = obs["sends"][mk["n_sends_at_return"]:]
    if late_sends:
        bad.append(("C17:send-after-close", "datagram transmitted %d ms after async_close returned" % (late_sends[0][0] - tr)))
    late_att = [x for x in obs["attempted"][mk["n_attempts_at_return"]:] if x[1] == "A"]
    if late_att:
        if True:
            bad.append(("C17:sendto-on-closed-transport-after-close", "sendto attempted on the closed transport %d ms after close returned" % (late_att[0][0] - tr)))
    late_cb = obs["callbacks"][mk["n_callbacks_at_return"]:]
    if late_cb:
        bad.append(("C17:callback-after-close", "callback %s %d ms after async_close returned" % (late_cb[0][1:3], late_cb[0][0] - tr)))
    if obs["errors"]:
        bad.append(("C17:loop-exception", "loop exception handler called: %s" % obs["errors"][0][1]))
    if obs["second_close_sends"]:
        bad.append(("C17:second-close-sends", "closing again transmitted %d datagrams" % obs["second_close_sends"]))
    core = ("done", "running", "transports_closed", "cleanup_cancelled", "registry")
    changed = sorted(k for k in core if obs["state_after_close"][k] != obs["state_after_second_close"][k])
    late_regs = {n for t, n in obs["registry_log"] if t >= mk["close_called"]}
    if changed == ["registry"] and set(obs["state_after_close"]["registry"]) <= late_regs:
        bad.append((D15_SIG, "services %s whose registration completed after close was called stayed in the registry; closing again removed them (silently)"
                    % obs["state_after_close"]["registry"]))
    elif changed:
        bad.append(("C17:second-close-changes-state", "closing again changed %s" % changed))
    for k, r in enumerate(obs.get("close_results", [])):
        if r not in ("ok", "ca"):
            bad.append(("C17:close-call-raises:" + r, "overlapping async_close() call #%d raised %s" % (k, r)))
    starved = [e for e in obs["blocks"] if e.get("flags") is not None and len(e["flags"]) > 5 and e["flags"][5] == 0]
    if starved:
        bad.append(("C17:armed-tc-timer-without-deferred-packet",
                    "at %d ms (block %s) the listener has an armed deferred-query timer for an address with no deferred packet: the timer will raise IndexError into the loop"
                    % (starved[0]["t"], starved[0]["kind"])))
    if obs.get("transports_aborted"):
        bad.append(("C17:transport-aborted", "the close aborted %d transports instead of closing them: datagrams still buffered (the last goodbye) are discarded" % obs["transports_aborted"]))
    if obs.get("tracked_not_cancelled"):
        bad.append(("C17:tracked-browser-not-cancelled", "%d browsers registered through AsyncZeroconf are still live (scheduler armed or listening) after close returned" % obs["tracked_not_cancelled"]))
    st = obs["state_after_close"]
    if not (st["done"] and st["transports_closed"] and st["cleanup_cancelled"] and not st["running"]):
        bad.append(("C17:not-shut-down", "after close returned: %s" % st))
    # goodbyes: every service registered at the call or added to the registry before the transports closed
    owed = {n: "before" for n in obs["registry_at_close"]}
    for t, n in obs["registry_log"]:
        if mk["close_called"] <= t <= tr and n not in owed:
            owed[n] = "during"
    last = {}
    announced = set()
    for s in obs["sends"]:
        if s[1] != MDNS or s[0] > tr:
            continue
        for alias, ttl in ptr_ttls(bytes.fromhex(s[3])):
            last[alias] = (s[0], ttl)
            if ttl > 0:
                announced.add(alias)
    for n, when in owed.items():
        l = last.get(n)
        if l is None:
            if when == "before":
                bad.append(("C17:registered-before-close-no-goodbye", "service %s was registered when close was called; no goodbye was sent" % n))
            continue  # registered during the close and never mentioned on the wire: nothing to withdraw
        if l[1] != 0:
            bad.append((D15_SIG if when == "during" else "C17:registered-before-close-not-withdrawn",
                        "service %s (registered %s the close) was last multicast with TTL %d at %d ms before close returned and never withdrawn" % (n, when, l[1], tr - l[0])))
        elif l[0] < mk["close_called"]:
            bad.append(("C17:registered-%s-close-no-goodbye-in-close" % when, "service %s: last goodbye predates the close" % n))
    # "withdrawn with goodbyes": every record (PTR, SRV, TXT, each address, NSEC) of every service registered when close
    # was called is carried with TTL 0 by a datagram transmitted between the call and the return
    gone = set()
    for s in obs["sends"][:mk["n_sends_at_return"]]:
        if s[1] == MDNS and s[0] >= mk["close_called"]:
            gone |= withdrawn_keys(bytes.fromhex(s[3]))
    for n, keys in sorted(obs.get("records_at_close", {}).items()):
        # SRV and TXT are unique records (one per name): a TTL-0 record of that name and type withdraws the rrset even if
        # an update racing the close changed its rdata; PTR, addresses and NSEC are compared with their rdata
        gone_nt = {" ".join(k.split()[:3]) for k in gone}
        missing = [k for k in keys if k not in gone and not (k.split()[0] in ("s", "t") and " ".join(k.split()[:3]) in gone_nt)]
        if missing and len(missing) < len(keys):   # (nothing at all withdrawn is reported above)
            kinds = sorted({k.split()[0] + "/" + k.split()[2] for k in missing})
            bad.append(("C17:registered-service-record-not-withdrawn",
                        "service %s was registered when close was called; its records %s (%d of %d) were never sent with TTL 0 before the transports closed"
                        % (n, kinds, len(missing), len(keys))))
    return bad


# ------------------------------------------------------------------------------------------
# stage C: the block log against the Lean shutdown machine


def block_lines(case, obs):
    """one `c17run` line: every block of A from the close call on -- kind, the flags read from the real objects when it
    started, whether close had returned, and what it emitted"""
    mk = obs["marks"]
    ops = []
    info = []
    peer = set(obs.get("peer_oids", []))
    for idx, e in enumerate(obs["blocks"]):
        kind = "orphan" if e["kind"] == "ORPHAN" else e["kind"]
        if e["t"] is None or e["t"] < mk["close_called"] or e.get("flags") is None:
            continue
        k = KIND.get(kind) or ("task" if kind.startswith("step:") else None)
        if k is None or kind == "step:async_close":
            continue
        if k in ("recv", "outq", "cleanup", "tc") and e.get("obj") in peer:
            continue
        nsend = sum(1 for o in e["out"] if o.get("send") == "A")
        ncb = sum(1 for o in e["out"] if "callback" in o)
        after = idx >= mk["n_events_at_return"]
        f = e["flags"]
        ops.append("%s %s %s %s %s %s %d %d %s" % (k, C.b01(f[0]), C.b01(f[1]), C.b01(f[3]), C.b01(f[2]), C.b01(after), nsend, ncb,
                                                     "-" if len(f) < 6 or f[5] is None else str(f[5])))
        info.append((e["t"], kind, nsend, ncb, after))
    return (["c17run %d %s" % (len(ops), " ".join(ops))] if ops else []), info


KIND = {"recv": "recv", "outq.ready": "outq", "sched.startup": "sched", "sched.ready": "sched", "cleanup": "cleanup", "tc.respond": "tc",
        "orphan": "task"}


def close_lines(obs):
    """one `c17closes` line: the interleaved steps of all overlapping close calls.  Which model blocks a real task step
    amounts to is read off the functions that ran inside it (markers logged by class-level wrappers); the driver replays
    them through `Shutdown.run` and compares goodbyes transmitted, exceptions raised and the flags after every step."""
    evs = obs["blocks"]
    oids = list(obs.get("close_oids", []))
    results = dict(zip(oids, obs.get("close_results", [])))
    mine = [k for k, e in enumerate(evs) if e["kind"] == "step:async_close" and e.get("obj") in results and e.get("flags") is not None]
    if not mine:
        return [], []
    last_of = {}
    for k in mine:
        last_of[evs[k]["obj"]] = k

    def flags_after(k):
        for e in evs[k + 1:]:
            if e.get("flags") is not None:
                return e["flags"]
        return obs.get("final_flags") or evs[k]["flags"]

    f0 = evs[mine[0]]["flags"]
    model_running = f0[4]
    index = {}       # task oid -> index of its closeCall in the model
    seen_body = set()
    dead = set()     # calls that ended before the model was told about them
    call_time = {}
    steps, info = [], []
    for k in mine:
        e = evs[k]
        o = e["obj"]
        fl = e["flags"]
        if fl[4] and not model_running:
            steps.append("1 start 0 0 - 0 - %s %s %s" % (C.b01(fl[0]), C.b01(fl[1]), C.b01(fl[2])))
            info.append((e["t"], "startUp", o))
            model_running = True
        phases = [x for x in e["out"] if "phase" in x]
        names = [x["phase"] for x in phases]
        nsend = sum(1 for x in e["out"] if x.get("send") == "A")
        is_last = last_of[o] == k
        res_ = results[o] if is_last else None
        call_time.setdefault(o, e["t"])
        blocks = []
        reg = None
        body = next((x for x in phases if x["phase"] == "body"), None)
        if o in dead:
            continue
        if o not in index:
            if not fl[4] and not fl[0]:
                index[o] = len(index)          # not running: the call parks in wait_for_start
                blocks.append("call %d 0" % index[o])
            elif body is not None:
                index[o] = len(index)
                blocks.append("call %d 0" % index[o])
                seen_body.add(o)
                reg = body["reg"]
            elif is_last:
                dead.add(o)                    # ended (cancelled) before doing anything the model distinguishes
                continue
            else:
                continue                       # gather() over the tracked browsers etc.: nothing yet
        elif body is not None and o not in seen_body:
            seen_body.add(o)
            reg = body["reg"]
            blocks.append("wake %d %s" % (index[o], C.b01(e["t"] - call_time[o] >= 1000)))
        i = index[o]
        n_gb = names.count("send") - (1 if (body is not None and body["reg"] > 0) else 0)
        blocks += ["gb %d 0" % i] * max(0, n_gb)
        if "shutdown" in names:
            blocks.append("sd %d 0" % i)
        raised = "-"
        if res_ == "ok":
            blocks.append("fin %d 0" % i)
        elif res_ == "ca":
            blocks.append("ab %d 0" % i)
            raised = "ca"
        elif res_ == "NotRunningException":
            if o not in seen_body:
                blocks.append("wake %d 0" % i)
            raised = "nr"
        fa = flags_after(k)
        steps.append("%d %s %s %d %s %s %s %s" % (len(blocks), " ".join(blocks), "-" if reg is None else str(reg), nsend, raised,
                                                   C.b01(fa[0]), C.b01(fa[1]), C.b01(fa[2])))
        info.append((e["t"], "close#%d %s" % (i, ",".join(names) or "-"), o))
    steps = [" ".join(x.split()) for x in steps]
    line = "c17closes %s %s %s %s %d %s" % (C.b01(f0[0]), C.b01(f0[1]), C.b01(f0[2]), C.b01(f0[4]), len(steps), " ".join(steps))
    return [line], info


def pick_close_time(case, times):
    if not times:
        return 0
    if case["close_pick"] < 0.85:
        t = times[int(case["close_pick"] / 0.85 * len(times)) % len(times)]
        return max(0, t + case["close_jitter"])
    return int(case["close_pick"] * 1000003) % (case["horizon"] + 1)


def run_case(res, case, ctx, acc):
    close_at = case.get("close_at")
    if case.get("close_abs") is not None:
        close_at = 0
    dry = simulate(case, None) if close_at is None else None
    if close_at is None:
        close_at = pick_close_time(case, [t for t in dry["block_times"] if t <= case["horizon"]])
    obs = simulate(case, close_at)
    res.evaluations += 1
    for a in case["acts"]:
        res.count("act:" + a["op"])
    res.count("late:" + str(case["late_action"]))
    res.count("overlapping-closes:%d" % len(case.get("extra_closes") or []))
    if case.get("cancel_first_at") is not None:
        res.count("first-close-cancelled")
    mk = obs["marks"]
    in_flight = sorted({e["kind"] for e in obs["blocks"] if e["t"] >= mk["close_called"] and e["kind"] != "ORPHAN"})
    res.nontriv("c/%s/%s/%s" % (len(obs["registry_at_close"]), ",".join(in_flight), mk["close_returned"] - mk["close_called"]))
    res.count("close-duration:%d" % (mk["close_returned"] - mk["close_called"]))
    bad = evaluate(res, case, obs)
    for sig, what in bad:
        violate_limited(res, sig, what, {"case": dict(case, close_at=close_at), "marks": mk, "registry_at_close": obs["registry_at_close"],
                                "registry_log": obs["registry_log"], "api_errors": obs["api_errors"][:5]})
    acc.append((dict(case, close_at=close_at), obs))
    return bad


def flush_model(res, ctx, acc):
    if not ctx["driver_ok"] or not acc:
        return
    lines, spans = [], []
    for case, obs in acc:
        if obs.get("early"):
            cl, cinfo = close_lines(obs)
            spans.append((case, obs, ("closes", cinfo), len(lines), len(cl)))
            lines += cl
            continue
        ls, info = block_lines(case, obs)
        spans.append((case, obs, info, len(lines), len(ls)))
        lines += ls
        cl, cinfo = close_lines(obs)
        spans.append((case, obs, ("closes", cinfo), len(lines), len(cl)))
        lines += cl
        st = obs["state_after_close"]
        spans.append((case, obs, None, len(lines), 1))
        lines.append("c17closed %s %s %s" % (C.b01(st["done"]), C.b01(st["transports_closed"]), C.b01(not st["cleanup_cancelled"])))
    try:
        out = C.run_driver(lines)
    except C.DriverUnavailable as ex:
        res.notes.append("driver unavailable: %s" % ex)
        return
    for case, obs, info, a, n in spans:
        if not n:
            continue
        if info is None:
            st = obs["state_after_close"]
            py = st["done"] and st["transports_closed"] and st["cleanup_cancelled"]
            if out[a] != C.b01(py):
                res.disagree("c17closed", {"case": case}, C.b01(py), out[a])
            continue
        if isinstance(info, tuple):
            cinfo = info[1]
            verdicts = out[a].split(";") if out[a] != "-" else []
            if len(verdicts) != len(cinfo):
                res.disagree("c17closes", {"case": case}, "%d steps" % len(cinfo), out[a][:300])
                continue
            for (t, what, o), v in zip(cinfo, verdicts):
                res.count("close-step:" + what.split(" ", 1)[-1])
                if v != "ok":
                    res.disagree("c17closes", {"case": case, "step": [t, what]}, "observed", v)
                    break
            continue
        verdicts = out[a].split(";")
        if len(verdicts) != len(info):
            res.disagree("c17run", {"case": case}, "%d blocks" % len(info), out[a][:200])
            continue
        for (t, kind, nsend, ncb, after), v in zip(info, verdicts):
            res.count("block:" + kind.split(":")[0] + ("/after" if after else "/closing"))
            if v != "ok":
                res.disagree("c17run", {"case": case, "block": [t, kind, nsend, ncb, after]}, "emitted", v)
                break


def violate_limited(res, sig, what, case, per_sig=3):
    """`Result.violations` is capped: repeated reports of one (possibly known) signature must not crowd out a new one"""
    res.count("violations:" + sig)
    if sum(1 for v in res.violations if v["sig"] == sig) < per_sig:
        res.violate(sig, what, case)


def run(ctx):
    res = C.Result("C17")
    res.rule = ("generated scenarios on a real instance with a traffic-producing peer; close requested at a block time of a dry run (+-1 ms) or a random "
                "instant, optional API call racing the close; hours of virtual time afterwards; non-trivial = distinct (services registered at close, "
                "kinds of blocks in flight, close duration) signatures")
    acc = []
    for name, body in C.load_corpus("C17"):
        (run_early_case if body["case"].get("early") else run_case)(res, body["case"], ctx, acc)
        res.count("corpus")
    # the part of the quantifier that needs real threads: close() from non-loop threads, the thread-based ServiceBrowser
    from . import c17_threads
    c17_threads.run(res, ctx, violate_limited)
    n = C.Budget(ctx["tier"], 120, 4000).n
    if ctx["widened"]:
        n = int(n * 1.5)
    for idx in range(n):
        if idx % 8 == 3:
            run_case(res, gen_aligned_case(ctx["seed"], idx), ctx, acc)
            res.count("aligned-with-cleanup-deadline")
            continue
        if idx % 8 == 5:
            run_early_case(res, gen_early_case(ctx["seed"], idx), ctx, acc)
            continue
        case = gen_case(ctx["seed"], idx)
        run_case(res, case, ctx, acc)
        if idx < 2:
            res.sample({k: v for k, v in case.items()})
        if len(acc) >= 60:
            flush_model(res, ctx, acc)
            acc = []
    flush_model(res, ctx, acc)
    return res


def replay(body):
    case = body["case"]["case"] if "case" in body.get("case", {}) else body["case"]
    if case.get("threads"):
        from . import c17_threads
        bad = c17_threads.run_one(case)
        return {"violates": bool(bad), "findings": bad, "predicate": "C17 oracle on a real-thread scenario"}
    res = C.Result("C17")
    acc = []
    bad = (run_early_case if case.get("early") else run_case)(res, case, {"driver_ok": False}, acc)
    return {"violates": bool(bad), "findings": bad, "marks": acc[0][1]["marks"], "predicate": "Zc.Shutdown.Closed / C17_quiet_run"}
