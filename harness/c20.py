"""C20 -- record identity: correspondence + oracle (exhaustive over a bounded vocabulary)."""
from __future__ import annotations

import itertools

from . import common as C

TRUSTED = ["str.lower() is modelled as an uninterpreted function in the theorems and as ASCII lowering in the driver; "
           "the vocabulary only uses characters on which the two agree"]
ASSUMPTIONS = ["CPython dict/set behave as maps for keys with congruent __eq__/__hash__ (the congruence is what C20 proves)"]


def vocab(tier, rng):
    from zeroconf import _dns as d
    from zeroconf import const as k

    # straße/strasse, ﬁsh/fish: distinct under str.lower() (the identity the property names) but merged by full case
    # folding; no upper-case non-ASCII letter is used, so ASCII lowering (driver) and str.lower() agree on all of them
    names = ["foo._http._tcp.local.", "Foo._HTTP._tcp.local.", "FOO._http._TCP.LOCAL.", "bar._http._tcp.local.", "日本._x._udp.local.",
             "straße._x._udp.local.", "strasse._x._udp.local.", "é._x._udp.local.", "ﬁsh._x._udp.local.", "fish._x._udp.local.", "STRASSE._x._udp.local."]
    hosts = ["host.local.", "HOST.Local.", "other.local.", "straße.local.", "strasse.local."]
    classes = [k._CLASS_IN, k._CLASS_IN | k._CLASS_UNIQUE, k._CLASS_ANY, k._CLASS_CS | k._CLASS_UNIQUE]
    ttls = [0, 1, 120, 4500]
    if tier != "thorough":
        names = names[:7]
        classes = classes[:3]
        ttls = [0, 120, 4500]
    recs = []
    for n in names:
        for c in classes:
            for ttl in ttls[:2] if tier != "thorough" else ttls:
                cr = 1000.0 + ttl
                recs.append(d.DNSAddress(n, k._TYPE_A, c, ttl, b"\x0a\x00\x00\x01", created=cr))
                recs.append(d.DNSAddress(n, k._TYPE_A, c, ttl, b"\x0a\x00\x00\x02", created=cr))
                recs.append(d.DNSAddress(n, k._TYPE_AAAA, c, ttl, b"\xfe\x80" + b"\x00" * 13 + b"\x01", created=cr))
                recs.append(d.DNSAddress(n, k._TYPE_AAAA, c, ttl, b"\xfe\x80" + b"\x00" * 13 + b"\x01", scope_id=3, created=cr))
                recs.append(d.DNSAddress(n, k._TYPE_AAAA, c, ttl, b"\xfe\x80" + b"\x00" * 13 + b"\x01", scope_id=0, created=cr))
                recs.append(d.DNSHinfo(n, k._TYPE_HINFO, c, ttl, "cpu", "os", created=cr))
                recs.append(d.DNSHinfo(n, k._TYPE_HINFO, c, ttl, "CPU", "os", created=cr))
                recs.append(d.DNSHinfo(n, k._TYPE_HINFO, c, ttl, "cpu", "os2", created=cr))
                for h in hosts:
                    recs.append(d.DNSPointer(n, k._TYPE_PTR, c, ttl, h, created=cr))
                    recs.append(d.DNSService(n, k._TYPE_SRV, c, ttl, 0, 0, 80, h, created=cr))
                recs.append(d.DNSPointer(n, k._TYPE_CNAME, c, ttl, hosts[0], created=cr))
                recs.append(d.DNSText(n, k._TYPE_TXT, c, ttl, b"\x03a=1", created=cr))
                recs.append(d.DNSText(n, k._TYPE_TXT, c, ttl, b"\x03A=1", created=cr))
                recs.append(d.DNSText(n, k._TYPE_TXT, c, ttl, b"", created=cr))
                recs.append(d.DNSService(n, k._TYPE_SRV, c, ttl, 1, 0, 80, hosts[0], created=cr))
                recs.append(d.DNSService(n, k._TYPE_SRV, c, ttl, 0, 1, 80, hosts[0], created=cr))
                recs.append(d.DNSService(n, k._TYPE_SRV, c, ttl, 0, 0, 81, hosts[0], created=cr))
                recs.append(d.DNSNsec(n, k._TYPE_NSEC, c, ttl, n, [k._TYPE_A, k._TYPE_AAAA], created=cr))
                recs.append(d.DNSNsec(n, k._TYPE_NSEC, c, ttl, n, [k._TYPE_AAAA, k._TYPE_A], created=cr))
                recs.append(d.DNSNsec(n, k._TYPE_NSEC, c, ttl, n, [k._TYPE_A], created=cr))
                recs.append(d.DNSNsec(n, k._TYPE_NSEC, c, ttl, n.upper(), [k._TYPE_A], created=cr))
                # same payload carried by a different class of object
                recs.append(d.DNSText(n, k._TYPE_A, c, ttl, b"\x0a\x00\x00\x01", created=cr))
    qs = []
    for n in names:
        for t in (k._TYPE_PTR, k._TYPE_A, k._TYPE_ANY):
            for c in classes:
                qs.append(d.DNSQuestion(n, t, c))
    return recs, qs


def spec_ident(r):
    from zeroconf import _dns as d

    if isinstance(r, d.DNSAddress):
        rd = ("addr", r.address, r.scope_id)
    elif isinstance(r, d.DNSHinfo):
        rd = ("hinfo", r.cpu, r.os)
    elif isinstance(r, d.DNSPointer):
        rd = ("ptr", r.alias.lower())
    elif isinstance(r, d.DNSText):
        rd = ("txt", r.text)
    elif isinstance(r, d.DNSService):
        rd = ("srv", r.priority, r.weight, r.port, r.server.lower())
    elif isinstance(r, d.DNSNsec):
        rd = ("nsec", r.next_name, tuple(sorted(r.rdtypes)))
    else:
        raise TypeError
    return (r.name.lower(), r.type, r.class_, rd)


def run(ctx):
    res = C.Result("C20")
    rng = C.rng_for(ctx["seed"], "c20")
    recs, qs = vocab(ctx["tier"], rng)
    budget = C.Budget(ctx["tier"], 16000, 260000).n
    if ctx["widened"]:
        budget *= 4
    n = len(recs)
    group = max(1, n // len({r.name for r in recs}))
    # all pairs if they fit, else: all pairs (i, j) with j in a seeded sample
    pairs = []
    if n * n <= budget:
        pairs = [(i, j) for i in range(n) for j in range(n)]
        res.exhaustive = True
    else:
        per = max(1, budget // n)
        for i in range(n):
            js = set(rng.sample(range(n), min(n, per)))
            js.add(i)
            # always include the near neighbours (same name group): one-field-at-a-time variants
            for j in range(max(0, i - 30), min(n, i + 30)):
                js.add(j)
            # ... and the same record under every other owner name (the records are built per name in one order)
            for j in range(i % group, n, group):
                js.add(j)
            pairs.extend((i, j) for j in sorted(js))
    lines = ["c20r %s %s" % (C.rec_line(recs[i]), C.rec_line(recs[j])) for i, j in pairs]
    qpairs = [(i, j) for i in range(len(qs)) for j in range(len(qs))]
    lines += ["c20q %s %s" % (C.question_line(qs[i]), C.question_line(qs[j])) for i, j in qpairs]
    model = None
    if ctx["driver_ok"]:
        try:
            model = C.run_driver(lines)
        except C.DriverUnavailable as ex:
            res.notes.append("driver unavailable: %s" % ex)
    res.rule = ("all ordered pairs over a vocabulary of %d records (names in 3 spellings + unrelated + non-ASCII incl. pairs that only full case folding merges, 7 kinds, classes with/without top bit, "
                "TTLs, rdata variants differing in one field) and %d questions; non-trivial = distinct (kind pair, which-fields-differ) signature "
                "among pairs that are equal or differ in exactly one identity-relevant respect" % (n, len(qs)))
    for idx, (i, j) in enumerate(pairs):
        a, b = recs[i], recs[j]
        res.evaluations += 1
        eq = a == b
        ne = a != b
        heq = hash(a) == hash(b)
        inset = b in {a}
        indict = {a: 1}.get(b) == 1
        sa, sb = spec_ident(a), spec_ident(b)
        spec = type(a) is type(b) and sa == sb
        diff = tuple(k for k, (x, y) in enumerate(zip(sa, sb)) if x != y)
        sig = "%s/%s/%s/%s" % (type(a).__name__, type(b).__name__, diff, (a.ttl != b.ttl, a.unique != b.unique))
        if eq or len(diff) <= 1:
            res.nontriv(sig)
        res.count("equal" if eq else "unequal")
        case = {"a": C.rec_line(a), "b": C.rec_line(b)}
        if eq != spec:
            res.violate("C20:eq-vs-spec:%s/%s:%s" % (type(a).__name__, type(b).__name__, diff),
                        "records compare %s but identity (kind, lower name, type, class, rdata) says %s" % (eq, spec), case)
        if eq and not heq:
            res.violate("C20:equal-unequal-hash:%s" % type(a).__name__, "equal records with different hashes", case)
        if eq == ne:
            res.violate("C20:ne-inconsistent:%s" % type(a).__name__, "__ne__ inconsistent with __eq__", case)
        if inset != eq or indict != eq:
            if not (heq and not eq):  # a hash collision without equality cannot make them members
                res.violate("C20:set-membership:%s" % type(a).__name__, "set/dict membership disagrees with equality", case)
        if model is not None:
            m = model[idx].split()
            if m == ["bad-op"]:
                res.disagree("c20r", case, "parsed", "bad-op")
                continue
            meq, mheq, mkeq, mseq = (x == "1" for x in m)
            if meq != eq or (mheq and not heq) or (mkeq and mseq) != spec:
                res.disagree("c20r", case, {"eq": eq, "hash_eq": heq, "spec": spec}, {"eq": meq, "hash_eq": mheq, "kind_eq": mkeq, "spec_eq": mseq})
        if idx < 3:
            res.sample({"a": repr(a), "b": repr(b), "eq": eq, "hash_eq": heq})
    base = len(pairs)
    for idx, (i, j) in enumerate(qpairs):
        a, b = qs[i], qs[j]
        res.evaluations += 1
        eq = a == b
        heq = hash(a) == hash(b)
        spec = (a.name.lower(), a.type, a.class_) == (b.name.lower(), b.type, b.class_)
        if eq or spec:
            res.nontriv("q/%s/%s" % (a.name != b.name, a.unique != b.unique))
        case = {"qa": C.question_line(a), "qb": C.question_line(b)}
        if eq != spec:
            res.violate("C20:question-eq-vs-spec", "questions compare %s, (lower name, type, class) says %s" % (eq, spec), case)
        if eq and not heq:
            res.violate("C20:question-hash", "equal questions with different hashes", case)
        if model is not None:
            m = model[base + idx].split()
            if m == ["bad-op"] or (m[0] == "1") != eq or (m[1] == "1" and not heq) or (m[2] == "1") != spec:
                res.disagree("c20q", case, {"eq": eq, "hash_eq": heq, "spec": spec}, m)
    # "the same record for the cache, for known-answer suppression": the containers that rely on identity
    from zeroconf import DNSCache
    from zeroconf._dns import DNSRRSet, DNSNsec

    sub = recs[:: max(1, len(recs) // 160)]
    near = []
    for i in range(len(sub)):
        for j in range(len(sub)):
            near.append((sub[i], sub[j]))
    for i in range(0, len(recs) - 1, 3):
        for j in range(i, min(len(recs), i + 28)):
            near.append((recs[i], recs[j]))
            near.append((recs[j], recs[i]))
    for a, b in near:
        res.evaluations += 1
        same = type(a) is type(b) and spec_ident(a) == spec_ident(b)
        case = {"a": C.rec_line(a), "b": C.rec_line(b)}
        cache = DNSCache()
        cache.async_add_records([a])
        found = cache.async_get_unique(b) is not None if not isinstance(b, DNSNsec) else cache.get(b) is not None
        found_get = cache.get(b) is not None
        if found != same or found_get != same:
            res.violate("C20:cache-lookup:%s" % type(a).__name__,
                        "a cached record is %sfound through an %s probe (async_get_unique=%s, get=%s)" % ("" if same else "not ", "identical" if same else "different", found, found_get), case)
        cache.async_add_records([b])
        n_name = len([r for r in cache.entries_with_name(a.name) if type(r) is type(a) and spec_ident(r) == spec_ident(a)])
        if same and n_name != 1:
            res.violate("C20:cache-duplicate:%s" % type(a).__name__, "adding the same record twice leaves %d copies in the cache" % n_name, case)
        if same:
            res.nontriv("cache/%s/%s" % (type(a).__name__, a.name != b.name))
        sup = DNSRRSet([a]).suppresses(b)
        want = same and a.ttl > b.ttl / 2
        if sup != want:
            res.violate("C20:rrset-suppression:%s" % type(a).__name__, "known-answer suppression says %s, identity and TTLs say %s" % (sup, want), case)
    # questions are never equal to records
    for q in qs[:20]:
        for r in recs[:40]:
            res.evaluations += 1
            if q == r or r == q:
                res.violate("C20:question-equals-record", "a question compares equal to a record", {"q": C.question_line(q), "r": C.rec_line(r)})
    return res


def replay(body):
    return {"violates": None, "note": "C20 cases are self-describing record pairs; re-run ./check C20 quick"}
