"""C20 -- record identity: correspondence + oracle.

Every record / question is described by its *constructor arguments* (`Desc`); the object under test is built from
them, while the oracle (`spec_ident`) and the model driver line are computed from the arguments alone -- never from
attributes of the object -- so that what `__init__` does to them (masking the cache-flush bit off the class,
lower-casing keys, sorting NSEC types, storing the scope, storing the port) is part of what is checked.

Case: "case-insensitively" is read as "equal after lower-casing every character by Unicode's lower-case mapping" (what
`str.lower()` does).  The oracle does NOT call `str.lower()`: it folds with a hand-written table (`LOWER`, `UNCASED`) that
covers exactly the characters of the vocabularies, and the driver receives the folded form of every name / target on its
line (`tbl`), so model, oracle and implementation fold independently of each other.

Three vocabularies: a *core* one over which **all ordered pairs** are evaluated (exhaustive, both tiers), a *spelling*
one (spellings of one name / host that differ in case -- ASCII, KELVIN SIGN, E-acute, capital sharp s, dotted I --, in the
trailing dot, in surrounding white space, in normalisation form; ports / priorities / weights beyond 16 bits; NSEC type lists
with a repeated type) over which all pairs *with the same rdata under every pair of names* and *all pairs under one name* are
evaluated (both tiers), and an *extended* one (more names/hosts/classes/TTLs) from which pairs are sampled.
"""
from __future__ import annotations

from . import common as C

TRUSTED = ["'case-insensitively' is read as equality after Unicode lower-casing (str.lower(), not ASCII-only folding, not casefold()): "
           "theorems take `lower` as a parameter and prove the case clause for every `lower` that identifies the case variants in question "
           "(C20_case_ignored); oracle and driver fold with a hand-written table for the vocabulary's characters, not with str.lower()",
           "sorted() of the NSEC type list (the translator checks that rdtypes is stored as sorted(rdtypes)); a type list with a repeated type "
           "is a different rdata although the wire bitmap is the same (reading: rdata = the constructor's list)"]
ASSUMPTIONS = ["CPython dict/set behave as maps for keys with congruent __eq__/__hash__ (the congruence is what C20 proves)"]

IN, UNIQUE, ANY = 1, 0x8000, 255
T_A, T_CNAME, T_PTR, T_HINFO, T_TXT, T_AAAA, T_SRV, T_NSEC, T_ANY = 1, 5, 12, 13, 16, 28, 33, 47, 255
V6 = b"\xfe\x80" + b"\x00" * 13 + b"\x01"
V6B = b"\xfe\x80" + b"\x00" * 13 + b"\x02"

# ------------------------------------------------------------------------------------------------
# the oracle's own case folding

LOWER = {chr(c): chr(c + 32) for c in range(65, 91)}
LOWER.update({
    "\u212a": "k",         # KELVIN SIGN -> k
    "\u00c9": "\u00e9",    # E acute
    "\u1e9e": "\u00df",    # LATIN CAPITAL LETTER SHARP S -> sharp s
    "\u0130": "i\u0307",   # I with dot above -> i + combining dot above
    "\u00dc": "\u00fc",    # U diaeresis
})
# characters that have no lower-case mapping different from themselves (lower-case letters, uncased, marks, digits, punctuation):
# e acute, sharp s, long s, dotless i, fi ligature, u diaeresis, combining dot above / acute, two CJK characters
UNCASED = set("abcdefghijklmnopqrstuvwxyz0123456789._- \t") | set("\u00e9\u00df\u017f\u0131\ufb01\u00fc\u0307\u0301\u65e5\u672c")


def fold(s):
    out = []
    for ch in s:
        if ch in LOWER:
            out.append(LOWER[ch])
        elif ch in UNCASED:
            out.append(ch)
        else:
            raise RuntimeError("C20 harness: vocabulary character %r has no entry in the folding table" % ch)
    return "".join(out)


def ascii_lower(s):
    return "".join(chr(ord(c) + 32) if "A" <= c <= "Z" else c for c in s)


def tbl(strings):
    """the `lower` table of a driver line: `<n> (<hex s> <hex fold(s)>)*n`, for the strings whose folding is not plain ASCII
    lowering (the driver's default for a string that is not listed)"""
    ent = []
    for s in dict.fromkeys(strings):
        f = fold(s)
        if f != ascii_lower(s):
            ent.append("%s %s" % (C.hs(s), C.hs(f)))
    return " ".join([str(len(ent))] + ent)


# ------------------------------------------------------------------------------------------------
# descriptions


def D(kind, name, type_, rawclass, ttl, created, *rd):
    return (kind, name, type_, rawclass, ttl, created, tuple(rd))


def build(d):
    from zeroconf import _dns as z

    kind, name, type_, c, ttl, cr, rd = d
    if kind == "a":
        return z.DNSAddress(name, type_, c, ttl, rd[0], scope_id=rd[1], created=cr)
    if kind == "h":
        return z.DNSHinfo(name, type_, c, ttl, rd[0], rd[1], created=cr)
    if kind == "p":
        return z.DNSPointer(name, type_, c, ttl, rd[0], created=cr)
    if kind == "t":
        return z.DNSText(name, type_, c, ttl, rd[0], created=cr)
    if kind == "s":
        return z.DNSService(name, type_, c, ttl, rd[0], rd[1], rd[2], rd[3], created=cr)
    if kind == "n":
        return z.DNSNsec(name, type_, c, ttl, rd[0], list(rd[1]), created=cr)
    raise TypeError(kind)


def spec_ident(d):
    """the property's sentence, on the constructor arguments: kind; owner name case-insensitively; type; class without
    the top (cache-flush) bit; rdata with PTR target / SRV host case-insensitively and the IPv6 scope.  TTL and creation
    time do not occur.  Case-insensitively = `fold` (the oracle's own table)."""
    kind, name, type_, c, _ttl, _cr, rd = d
    if kind == "p":
        rdi = (fold(rd[0]),)
    elif kind == "s":
        rdi = (rd[0], rd[1], rd[2], fold(rd[3]))
    elif kind == "n":
        rdi = (rd[0], tuple(sorted(rd[1])))
    else:
        rdi = rd
    return (kind, fold(name), type_, c % 32768, rdi)


def strings_of(d):
    """the strings of a record that identity folds: owner name, PTR target, SRV host"""
    kind, name, rd = d[0], d[1], d[6]
    if kind == "p":
        return [name, rd[0]]
    if kind == "s":
        return [name, rd[3]]
    return [name]


def line(d):
    """driver line (`Zc.Rec.parse`); the class token is the RAW constructor argument, the unique token is unused"""
    kind, name, type_, c, ttl, cr, rd = d
    head = "%s %d %d 0 %d %d" % (C.hs(name), type_, c, int(ttl), int(cr))
    if kind == "a":
        return "a %s %s %s" % (head, C.hx(rd[0]), "-" if rd[1] is None else str(rd[1]))
    if kind == "h":
        return "h %s %s %s" % (head, C.hs(rd[0]), C.hs(rd[1]))
    if kind == "p":
        return "p %s %s" % (head, C.hs(rd[0]))
    if kind == "t":
        return "t %s %s" % (head, C.hx(rd[0]))
    if kind == "s":
        return "s %s %d %d %d %s" % (head, rd[0], rd[1], rd[2], C.hs(rd[3]))
    return "n %s %s %s" % (head, C.hs(rd[0]), C.natlist(sorted(rd[1])))


def pair_line(da, db):
    return "c20r %s %s %s" % (tbl(strings_of(da) + strings_of(db)), line(da), line(db))


def list_line(cmd, stored, probe):
    return "%s %s %d %s %s" % (cmd, tbl([s for d in stored + [probe] for s in strings_of(d)]), len(stored), " ".join(line(d) for d in stored), line(probe))


def qline(q):
    name, type_, c = q
    return "%s %d %d 0" % (C.hs(name), type_, c)


def variants(name, c, ttl, cr, hosts):
    """every record kind under one owner name / class, rdata differing in one field at a time"""
    out = [
        D("a", name, T_A, c, ttl, cr, b"\x0a\x00\x00\x01", None),
        D("a", name, T_A, c, ttl, cr, b"\x0a\x00\x00\x02", None),
        D("a", name, T_AAAA, c, ttl, cr, V6, None),
        D("a", name, T_AAAA, c, ttl, cr, V6, 3),
        D("a", name, T_AAAA, c, ttl, cr, V6, 0),
        D("h", name, T_HINFO, c, ttl, cr, "cpu", "os"),
        D("h", name, T_HINFO, c, ttl, cr, "CPU", "os"),
        D("h", name, T_HINFO, c, ttl, cr, "cpu", "os2"),
    ]
    for h in hosts:
        out.append(D("p", name, T_PTR, c, ttl, cr, h))
        out.append(D("s", name, T_SRV, c, ttl, cr, 0, 0, 80, h))
    out += [
        D("p", name, T_CNAME, c, ttl, cr, hosts[0]),
        D("t", name, T_TXT, c, ttl, cr, b"\x03a=1"),
        D("t", name, T_TXT, c, ttl, cr, b"\x03A=1"),
        D("t", name, T_TXT, c, ttl, cr, b""),
        D("t", name, T_TXT, c, ttl, cr, b"\x00"),        # one empty string: another rdata than no string at all
        D("s", name, T_SRV, c, ttl, cr, 1, 0, 80, hosts[0]),
        D("s", name, T_SRV, c, ttl, cr, 0, 1, 80, hosts[0]),
        D("s", name, T_SRV, c, ttl, cr, 0, 0, 81, hosts[0]),
        D("n", name, T_NSEC, c, ttl, cr, name, (T_A, T_AAAA)),
        D("n", name, T_NSEC, c, ttl, cr, name, (T_AAAA, T_A)),
        D("n", name, T_NSEC, c, ttl, cr, name, (T_A,)),
        D("n", name, T_NSEC, c, ttl, cr, name.upper(), (T_A,)),
        # same payload carried by a different class of object
        D("t", name, T_A, c, ttl, cr, b"\x0a\x00\x00\x01"),
    ]
    return out


def vocab_core():
    """small enough for all ordered pairs: 5 owner names (two spellings of one name, an unrelated one, a pair that only
    full case folding merges), 4 raw classes (IN with and without the flush bit, ANY, and 0x0101 = IN plus a bit inside
    the 15-bit class), TTL/creation time varied per (name, class) so that identity-equal records differ in them"""
    names = ["foo._http._tcp.local.", "Foo._HTTP._tcp.local.", "bar._http._tcp.local.", "stra\u00dfe._x._udp.local.", "strasse._x._udp.local."]
    hosts = ["host.local.", "HOST.Local.", "other.local."]
    classes = [IN, IN | UNIQUE, ANY, 0x0101]
    recs = []
    for ni, n in enumerate(names):
        for ci, c in enumerate(classes):
            ttl = [0, 120, 4500, 1][(ni + ci) % 4]
            recs += variants(n, c, ttl, 1000.0 + 7 * ni + ci, hosts)
    qs = [(n, t, c) for n in names for t in (T_PTR, T_A, T_ANY) for c in classes]
    return recs, qs


# spellings of ONE owner name and of ONE host that must / must not be the same name.  "Same" is decided by `fold` alone.
SPELL_NAMES = [
    "kelvin.local.", "KELVIN.LOCAL.", "\u212aelvin.local.",          # ASCII case; KELVIN SIGN lower-cases to k
    "kelvin.local", " kelvin.local.", "kelvin.local. ", "kelvin.local..", "kelvin\t.local.",   # trailing dot / white space are NOT case
    "\u00e9t\u00e9.local.", "\u00c9t\u00e9.local.", "e\u0301te\u0301.local.",                  # E acute; the NFD spelling is another name
    "stra\u00dfe.local.", "STRA\u1e9eE.local.", "strasse.local.", "stra\u017fe.local.",        # capital sharp s -> sharp s; ss and long s are other names
    "\u0130d.local.", "i\u0307d.local.", "id.local.", "\u0131d.local.",                        # dotted capital I -> i + U+0307; plain and dotless i are other names
]
SPELL_HOSTS = ["host.local.", "HOST.local.", "host.local", " host.local.", "host.local. ", "\u212aost.local.", "kost.local.", "h\u00dcst.local.", "h\u00fcst.local."]


def spell_variants(name, c, ttl, cr):
    out = [D("a", name, T_A, c, ttl, cr, b"\x0a\x00\x00\x01", None),
           D("a", name, T_AAAA, c, ttl, cr, V6, None),
           D("a", name, T_AAAA, c, ttl, cr, V6B, None),
           D("t", name, T_TXT, c, ttl, cr, b"\x03a=1")]
    for h in SPELL_HOSTS:
        out.append(D("p", name, T_PTR, c, ttl, cr, h))
        out.append(D("s", name, T_SRV, c, ttl, cr, 0, 0, 80, h))
    h = SPELL_HOSTS[0]
    # SRV numbers are compared as given: nothing is reduced modulo 2^16
    for pr, we, po in [(0, 0, 0), (0, 0, 65535), (0, 0, 65616), (0, 0, 65536), (65536, 0, 80), (0, 65536, 80), (1, 0, 80), (0, 1, 80), (0, 0, 81)]:
        out.append(D("s", name, T_SRV, c, ttl, cr, pr, we, po, h))
    out += [D("n", name, T_NSEC, c, ttl, cr, name, (T_A,)),
            D("n", name, T_NSEC, c, ttl, cr, name, (T_A, T_A)),          # a repeated type: another list, the same bitmap (reading)
            D("h", name, T_HINFO, c, ttl, cr, "cpu", "os")]
    return out


def vocab_spell():
    recs, groups = [], []
    for ni, n in enumerate(SPELL_NAMES):
        for ci, c in enumerate([IN, IN | UNIQUE]):
            v = spell_variants(n, c, [120, 4500][(ni + ci) % 2], 2000.0 + ni)
            groups.append((len(recs), len(v)))
            recs += v
    per = groups[0][1]
    pairs = set()
    for start, k in groups:                       # all pairs under one (name, class)
        for i in range(start, start + k):
            for j in range(start, start + k):
                pairs.add((i, j))
    for gi, (s1, _k) in enumerate(groups):        # the same rdata under every pair of (name, class)
        for s2, _k2 in groups:
            for o in range(per):
                pairs.add((s1 + o, s2 + o))
    qs = [(n, t, c) for n in SPELL_NAMES for t in (T_PTR,) for c in (IN, IN | UNIQUE)]
    return recs, sorted(pairs), qs


def vocab_ext(tier):
    names = ["foo._http._tcp.local.", "Foo._HTTP._tcp.local.", "FOO._http._TCP.LOCAL.", "bar._http._tcp.local.", "\u65e5\u672c._x._udp.local.",
             "stra\u00dfe._x._udp.local.", "strasse._x._udp.local.", "\u00e9._x._udp.local.", "\ufb01sh._x._udp.local.", "fish._x._udp.local.", "STRASSE._x._udp.local."]
    hosts = ["host.local.", "HOST.Local.", "other.local.", "stra\u00dfe.local.", "strasse.local."]
    classes = [IN, IN | UNIQUE, ANY, 2 | UNIQUE, 0x0101, 0x7FFF, 0xFFFF]
    ttls = [0, 1, 120, 4500]
    if tier != "thorough":
        names = names[:7]
        classes = classes[:5]
        ttls = [0, 4500]
    recs = []
    for n in names:
        for c in classes:
            for ttl in ttls:
                recs += variants(n, c, ttl, 1000.0 + ttl, hosts)
    return recs, max(1, len(recs) // len(names))


# ------------------------------------------------------------------------------------------------


class Msg:
    """stands for a DNSIncoming: `DNSRecord.suppressed_by` only calls `.answers()`"""

    def __init__(self, answers):
        self._a = list(answers)

    def answers(self):
        return self._a


def check_pair(res, da, db, a, b, mline, case):
    res.evaluations += 1
    eq = a == b
    ne = a != b
    heq = hash(a) == hash(b)
    inset = b in {a}
    indict = {a: 1}.get(b) == 1
    sa, sb = spec_ident(da), spec_ident(db)
    spec = sa == sb
    diff = tuple(k for k, (x, y) in enumerate(zip(sa, sb)) if x != y)
    flush_differs = (da[3] >= 32768) != (db[3] >= 32768)
    spelled = da[1] != db[1] or (da[0] in "ps" and db[0] in "ps" and da[6][-1] != db[6][-1])
    sig = "%s/%s/%s/%s" % (da[0], db[0], diff, (da[4] != db[4], flush_differs, spelled and spec))
    if eq or len(diff) <= 1:
        res.nontriv(sig)
    res.count("equal" if eq else "unequal")
    if spec and spelled:
        res.count("equal-with-different-spelling")
    kn = type(a).__name__
    if eq != spec:
        res.violate("C20:eq-vs-spec:%s/%s:%s%s" % (kn, type(b).__name__, diff, ":flush-bit" if spec and flush_differs else ""),
                    "records compare %s but identity (kind, name case-insensitively, type, class without the flush bit, rdata) of the "
                    "constructor arguments says %s" % (eq, spec), case())
    if eq and not heq:
        res.violate("C20:equal-unequal-hash:%s" % kn, "equal records with different hashes", case())
    if eq == ne:
        res.violate("C20:ne-inconsistent:%s" % kn, "__ne__ inconsistent with __eq__", case())
    if (inset != eq or indict != eq) and not (heq and not eq):  # a hash collision without equality cannot make them members
        res.violate("C20:set-membership:%s" % kn, "set/dict membership disagrees with equality", case())
    # known-answer suppression on the add_answer / suppressed_by path: same record and more than half the TTL
    sba = bool(a._suppressed_by_answer(b))
    want_sba = spec and db[4] > da[4] / 2
    if sba != want_sba:
        res.violate("C20:suppressed-by-answer:%s" % kn, "a known answer that is %s record with TTL %s vs %s %s it"
                    % ("the same" if spec else "a different", db[4], da[4], "suppresses" if sba else "does not suppress"), case())
    if mline is not None:
        m = mline.split()
        if m == ["bad-op"]:
            res.disagree("c20r", case(), "parsed", "bad-op")
            return
        meq, mheq, mkeq, mseq, msba = (x == "1" for x in m)
        if meq != eq or (mheq and not heq) or (mkeq and mseq) != spec or msba != sba:
            res.disagree("c20r", case(), {"eq": eq, "hash_eq": heq, "spec": spec, "suppressed_by_answer": sba},
                         {"eq": meq, "hash_eq": mheq, "kind_eq": mkeq, "spec_eq": mseq, "suppressed_by_answer": msba})


def run(ctx):
    res = C.Result("C20")
    rng = C.rng_for(ctx["seed"], "c20")
    core, qs = vocab_core()
    spell, spell_pairs, spell_qs = vocab_spell()
    ext, group = vocab_ext(ctx["tier"])
    # the oracle's folding table against CPython's str.lower() on every string of the vocabularies: a difference is a fault of
    # this harness or of the interpreter, not of the library under test
    for d in core + spell + ext:
        for s in strings_of(d):
            if fold(s) != s.lower():
                raise RuntimeError("C20 harness: folding table and str.lower() differ on %r" % s)
    qs = qs + spell_qs
    budget = C.Budget(ctx["tier"], 16000, 260000).n
    if ctx["widened"]:
        budget *= 4
    core_obj = [build(d) for d in core]
    spell_obj = [build(d) for d in spell]
    ext_obj = [build(d) for d in ext]
    from zeroconf._dns import DNSQuestion

    q_obj = [DNSQuestion(*q) for q in qs]

    # (1) all ordered pairs of the core vocabulary
    n = len(core)
    core_pairs = [(i, j) for i in range(n) for j in range(n)]
    res.exhaustive = False   # only stream (1), the core pairs, is exhaustive: said in `rule` and in the note below
    res.notes.append("exhaustive sub-stream: all %d ordered pairs of the %d-record core vocabulary; every other stream is structured or sampled" % (len(core_pairs), n))
    # (2) sampled pairs of the extended vocabulary
    m = len(ext)
    per = max(1, budget // m)
    ext_pairs = []
    for i in range(m):
        js = set(rng.sample(range(m), min(m, per)))
        js.add(i)
        for j in range(max(0, i - 30), min(m, i + 30)):   # one-field-at-a-time variants are neighbours
            js.add(j)
        for j in range(i % group, m, group):              # the same record under every other owner name
            js.add(j)
        ext_pairs.extend((i, j) for j in sorted(js))
    qpairs = [(i, j) for i in range(len(qs)) for j in range(len(qs))]
    # (3) lists of stored records / known answers with identity-equal records of different TTL, from the core and the
    # spelling vocabulary: DNSRRSet.suppresses, DNSRecord.suppressed_by(msg), duplicate removal among a reply's additionals
    pool = core + spell
    np_ = len(pool)
    twins = {}
    for j, d in enumerate(pool):
        twins.setdefault(spec_ident(d), []).append(j)
    list_cases = []
    for _ in range(500 if ctx["tier"] != "thorough" else 5000):
        k = rng.randint(1, 4)
        base = rng.randrange(np_)
        idxs = []
        for _ in range(k):
            r = rng.random()
            if r < 0.6:  # an identity twin (other spelling / flush bit / TTL) or a near neighbour
                cand = twins[spec_ident(pool[base])] if r < 0.4 else list(range(max(0, base - 3), min(np_, base + 4)))
                idxs.append(rng.choice(cand))
            else:
                idxs.append(rng.randrange(np_))
        probe = rng.choice([base] + idxs)
        list_cases.append((idxs, probe))
    # (3b) whole replies: 2-5 answers that are different records, each with 0-3 additionals drawn from a small shared pool (so that
    # two answers SHARE an additional, possibly in another spelling / with another TTL or flush bit, and an additional may be one of
    # the answers).  The library de-duplicates across answers with its own `sending` set -- within one answer's additionals the
    # Python set has already done it, which is why replies with a single answer cannot see that statement.
    reply_cases = []
    for _ in range(400 if ctx["tier"] != "thorough" else 4000):
        base = rng.randrange(np_)
        near_ = list(range(max(0, base - 12), min(np_, base + 13)))
        answers, seen_id = [], set()
        for j in rng.sample(near_, min(len(near_), rng.randint(2, 5))):
            if spec_ident(pool[j]) not in seen_id:
                seen_id.add(spec_ident(pool[j]))
                answers.append(j)
        shared = [rng.choice(near_) for _ in range(2)] + [rng.randrange(np_)]
        shared += [rng.choice(twins[spec_ident(pool[x])]) for x in shared[:2]] + [rng.choice(answers)]
        reply_cases.append([(a, [rng.choice(shared) for _ in range(rng.randint(0, 3))]) for a in answers])

    lines = [pair_line(core[i], core[j]) for i, j in core_pairs]
    lines += [pair_line(spell[i], spell[j]) for i, j in spell_pairs]
    lines += [pair_line(ext[i], ext[j]) for i, j in ext_pairs]
    lines += ["c20q %s %s %s" % (tbl([qs[i][0], qs[j][0]]), qline(qs[i]), qline(qs[j])) for i, j in qpairs]
    for cmd in ("c20s", "c20m"):
        lines += [list_line(cmd, [pool[i] for i in ix], pool[p]) for ix, p in list_cases]
    # c20d: answers = [probe], additionals = the stored list
    lines += ["c20d %s 1 %s %d %s" % (tbl([s for i in ix + [p] for s in strings_of(pool[i])]), line(pool[p]), len(ix), " ".join(line(pool[i]) for i in ix))
              for ix, p in list_cases]
    for rc in reply_cases:
        adds_ = [x for _a, xs in rc for x in xs]
        lines.append("c20d %s %d %s %d %s" % (tbl([s for i in [a for a, _ in rc] + adds_ for s in strings_of(pool[i])]), len(rc),
                                               " ".join(line(pool[a]) for a, _ in rc), len(adds_), " ".join(line(pool[x]) for x in adds_)))
    model = None
    if ctx["driver_ok"]:
        try:
            model = C.run_driver(lines)
        except C.DriverUnavailable as ex:
            res.notes.append("driver unavailable: %s" % ex)
    res.rule = ("ALL %d ordered pairs over a core vocabulary of %d records (5 owner names incl. two spellings and a pair only full case folding "
                "merges, 4 raw classes with/without the cache-flush bit, 7 kinds, rdata variants differing in one field, TTL/created "
                "varying between identity-equal records) + %d pairs over a spelling vocabulary of %d records (%d spellings of 4 names: ASCII case, "
                "KELVIN SIGN, E acute, capital sharp s, dotted capital I, missing trailing dot, white space, NFD; %d spellings of a host; SRV numbers "
                "beyond 16 bits; NSEC lists with a repeated type): every pair under one name and every pair with the same rdata under two names "
                "+ %d sampled pairs over an extended vocabulary of %d records + all %d pairs of %d questions + %d lists of 1-4 stored records "
                "through DNSRRSet.suppresses, DNSRecord.suppressed_by(message) and the additional-section duplicate removal of a reply + (oracle only) DNSCache look-ups, records heard on the wire with scope None/0/3, QuestionHistory over all question pairs, and every object that went through QueryHandler.async_response re-checked for a stale cached hash; oracle and "
                "model line are computed from the constructor arguments, never from the object; case folding by the oracle's own table, not "
                "str.lower(); non-trivial = distinct (kind pair, which-fields-differ, ttl/flush/spelling differ) signature among pairs that are "
                "equal or differ in exactly one identity-relevant respect"
                % (len(core_pairs), n, len(spell_pairs), len(spell), len(SPELL_NAMES), len(SPELL_HOSTS), len(ext_pairs), m, len(qpairs), len(qs), len(list_cases)))
    off = 0
    for idx, (i, j) in enumerate(core_pairs):
        check_pair(res, core[i], core[j], core_obj[i], core_obj[j], model[off + idx] if model else None,
                   lambda i=i, j=j: {"a": list(map(repr, core[i])), "b": list(map(repr, core[j])), "vocab": "core", "i": i, "j": j})
    off += len(core_pairs)
    for idx, (i, j) in enumerate(spell_pairs):
        check_pair(res, spell[i], spell[j], spell_obj[i], spell_obj[j], model[off + idx] if model else None,
                   lambda i=i, j=j: {"a": list(map(repr, spell[i])), "b": list(map(repr, spell[j])), "vocab": "spell", "i": i, "j": j})
    off += len(spell_pairs)
    for idx, (i, j) in enumerate(ext_pairs):
        check_pair(res, ext[i], ext[j], ext_obj[i], ext_obj[j], model[off + idx] if model else None,
                   lambda i=i, j=j: {"a": list(map(repr, ext[i])), "b": list(map(repr, ext[j])), "vocab": "ext:" + ctx["tier"], "i": i, "j": j})
    off += len(ext_pairs)
    res.sample({"a": repr(core_obj[0]), "b": repr(core_obj[1]), "eq": core_obj[0] == core_obj[1]})
    res.sample({"a": repr(spell_obj[0]), "b": repr(build(spell[2 * len(spell_variants("x", IN, 0, 0))])), "eq": spell_obj[0] == build(spell[2 * len(spell_variants("x", IN, 0, 0))])})

    for idx, (i, j) in enumerate(qpairs):
        a, b = q_obj[i], q_obj[j]
        res.evaluations += 1
        eq = a == b
        heq = hash(a) == hash(b)
        spec = (fold(qs[i][0]), qs[i][1], qs[i][2] % 32768) == (fold(qs[j][0]), qs[j][1], qs[j][2] % 32768)
        if eq or spec:
            res.nontriv("q/%s/%s" % (qs[i][0] != qs[j][0], (qs[i][2] >= 32768) != (qs[j][2] >= 32768)))
        case = {"qa": list(qs[i]), "qb": list(qs[j])}
        if eq != spec:
            res.violate("C20:question-eq-vs-spec", "questions compare %s, (name case-insensitively, type, class without the QU bit) says %s" % (eq, spec), case)
        if eq and not heq:
            res.violate("C20:question-hash", "equal questions with different hashes", case)
        if model is not None:
            mm = model[off + idx].split()
            if mm == ["bad-op"] or (mm[0] == "1") != eq or (mm[1] == "1" and not heq) or (mm[2] == "1") != spec:
                res.disagree("c20q", case, {"eq": eq, "hash_eq": heq, "spec": spec}, mm)
    off += len(qpairs)

    # "the same record for the cache, for known-answer suppression and for duplicate removal in replies": the containers and
    # loops that rely on identity
    from zeroconf import DNSCache
    from zeroconf._dns import DNSRRSet, DNSNsec
    from zeroconf._handlers.answers import construct_outgoing_multicast_answers

    L = len(list_cases)
    for idx, (ix, p) in enumerate(list_cases):
        res.evaluations += 3
        dp = pool[p]
        same = [i for i in ix if spec_ident(pool[i]) == spec_ident(dp)]
        case = {"stored": [list(map(repr, pool[i])) for i in ix], "probe": list(map(repr, dp))}
        # (a) DNSRRSet.suppresses: some stored record is the same record and has more than half the probe's TTL.  When several
        # identical stored records disagree on the TTL test, the property does not say which one counts (the code and the
        # model use the last one: that is compared through the driver only), so the oracle accepts either verdict there.
        sup = DNSRRSet([build(pool[i]) for i in ix]).suppresses(build(dp))
        verdicts = {pool[i][4] > dp[4] / 2 for i in same}
        if same:
            res.nontriv("rrset/%d/%d/%s" % (len(ix), len(same), sorted(verdicts)))
        if (not same and sup) or (len(verdicts) == 1 and sup != next(iter(verdicts))):
            res.violate("C20:rrset-suppression:%s" % dp[0], "known-answer suppression says %s, identity and TTLs say %s" % (sup, sorted(verdicts) or [False]), case)
        # (b) DNSRecord.suppressed_by(message): ANY answer of the message that is the same record with more than half the TTL
        sby = bool(build(dp).suppressed_by(Msg([build(pool[i]) for i in ix])))
        want = any(pool[i][4] > dp[4] / 2 for i in same)
        if same:
            res.nontriv("suppressed-by/%d/%s/%s" % (len(ix), [ix.index(i) for i in same][:1], want))
        if sby != want:
            res.violate("C20:suppressed-by-message:%s" % dp[0], "a message whose answers %s the same record with more than half the TTL %s the record"
                        % ("contain" if want else "do not contain", "suppresses" if sby else "does not suppress"), case)
        # (c) duplicate removal in a reply: an additional record that is the same record as an answer, or as an additional
        # already taken, is not sent; every other one is
        adds = [build(pool[i]) for i in ix]
        desc_of = {id(o): pool[i] for o, i in zip(adds, ix)}
        out = construct_outgoing_multicast_answers({build(dp): set(adds)})
        n_add = len(out.additionals)
        classes_ = {spec_ident(pool[i]) for i in ix} - {spec_ident(dp)}
        sent = [spec_ident(desc_of[id(x)]) if id(x) in desc_of else ("not one of the additionals given", repr(x)) for x in out.additionals]
        if len(out.answers) != 1 or n_add != len(classes_) or set(sent) != classes_:
            res.violate("C20:reply-duplicate-removal:%s" % dp[0], "a reply with one answer and %d additionals carrying %d distinct other records is sent with %d "
                        "answers and %d additionals" % (len(ix), len(classes_), len(out.answers), n_add), case)
        res.nontriv("reply/%d/%d" % (len(ix), len(classes_)))
        if model is not None:
            mm = model[off + idx].strip()
            if mm not in ("0", "1") or (mm == "1") != sup:
                res.disagree("c20s", case, sup, mm)
            mm = model[off + L + idx].strip()
            if mm not in ("0", "1") or (mm == "1") != sby:
                res.disagree("c20m", case, sby, mm)
            mm = model[off + 2 * L + idx].strip()
            if mm != str(n_add):
                res.disagree("c20d", case, n_add, mm)
    off += 3 * L

    for idx, rc in enumerate(reply_cases):
        res.evaluations += 1
        case = {"reply": [{"answer": list(map(repr, pool[a])), "additionals": [list(map(repr, pool[x])) for x in xs]} for a, xs in rc]}
        desc_of, given = {}, {}
        for a, xs in rc:
            ao = build(pool[a])
            desc_of[id(ao)] = pool[a]
            xo = [build(pool[x]) for x in xs]
            for o, x in zip(xo, xs):
                desc_of[id(o)] = pool[x]
            given[ao] = set(xo)
        out = construct_outgoing_multicast_answers(given)
        ans_classes = [spec_ident(pool[a]) for a, _ in rc]
        want = sorted({spec_ident(pool[x]) for _a, xs in rc for x in xs} - set(ans_classes), key=repr)
        sent_ans = sorted((spec_ident(desc_of[id(r)]) if id(r) in desc_of else ("unknown", repr(r)) for r, _t in out.answers), key=repr)
        sent = sorted((spec_ident(desc_of[id(r)]) if id(r) in desc_of else ("unknown", repr(r)) for r in out.additionals), key=repr)
        if sent_ans != sorted(ans_classes, key=repr) or sent != want:
            res.violate("C20:reply-duplicate-removal:%d-answers" % len(rc),
                        "a reply with %d answers whose additionals carry %d distinct other records is sent with %d answers and %d additionals (%s)"
                        % (len(rc), len(want), len(out.answers), len(out.additionals),
                           "a record is sent twice" if len(sent) > len(set(sent)) or len(sent_ans) > len(set(sent_ans)) else
                           "an additional that is also an answer is sent" if set(sent) & set(ans_classes) else "a record is missing"), case)
        res.nontriv("reply-multi/%d/%d/%d" % (len(rc), len(want), sum(len(xs) for _a, xs in rc)))
        if model is not None:
            mm = model[off + idx].strip()
            if mm != str(len(out.additionals)):
                res.disagree("c20d", case, len(out.additionals), mm)
    off += len(reply_cases)

    sub = list(range(0, n, max(1, n // 160)))
    near = [(core[i], core[j]) for i in sub for j in sub]
    for i in range(0, n - 1, 3):
        for j in range(i, min(n, i + 28)):
            near.append((core[i], core[j]))
            near.append((core[j], core[i]))
    # the same rdata under two spellings of the owner name (the cache is keyed by the lowered name), and SRV/PTR target spellings
    sp_sub = [(i, j) for i, j in spell_pairs if spell[i][0] in "aps" and (i * 7 + j) % 23 == 0]
    near += [(spell[i], spell[j]) for i, j in sp_sub]
    for da, db in near:
        res.evaluations += 1
        a, b = build(da), build(db)
        same = spec_ident(da) == spec_ident(db)
        case = {"a": list(map(repr, da)), "b": list(map(repr, db))}
        cache = DNSCache()
        cache.async_add_records([a])
        found = cache.async_get_unique(b) is not None if not isinstance(b, DNSNsec) else cache.get(b) is not None
        found_get = cache.get(b) is not None
        kn = type(a).__name__
        if found != same or found_get != same:
            res.violate("C20:cache-lookup:%s" % kn,
                        "a cached record is %sfound through an %s probe (async_get_unique=%s, get=%s)" % ("" if same else "not ", "identical" if same else "different", found, found_get), case)
        cache.async_add_records([b])
        held = [r for r in cache.entries_with_name(da[1]) if type(r) is type(a) and r == a]
        if same and len(held) != 1:
            res.violate("C20:cache-duplicate:%s" % kn, "adding the same record twice leaves %d copies in the cache" % len(held), case)
        if same:
            res.nontriv("cache/%s/%s" % (kn, da[1] != db[1]))
        # removal (a goodbye, an expiry) through the OTHER object: the same record is gone, another record stays
        cache = DNSCache()
        a2 = build(da)
        cache.async_add_records([a2])
        try:
            cache.async_remove_records([b])
        except KeyError:
            pass  # removing a record that is not cached: C05's business
        left = cache.get(a2) is not None
        if left != (not same):
            res.violate("C20:cache-remove:%s" % kn, "removing %s record leaves the cached record %s" % ("the same" if same else "a different", "in the cache" if left else "removed"), case)
        # RFC 6762 10.2 sweep: a cached unique record older than 1 s survives iff the response carries the same record
        if type(a) is type(b):
            cache = DNSCache()
            a3 = build(da)
            cache.async_add_records([a3])
            cache.async_mark_unique_records_older_than_1s_to_expire({(a3.name, a3.type, a3.class_)}, [b], da[5] + 5000.0)
            swept = a3.ttl != da[4] or a3.created != da[5]
            if swept != (not same):
                res.violate("C20:cache-unique-sweep:%s" % kn, "a response carrying %s record %s the cached record for expiry" % ("the same" if same else "a different", "marks" if swept else "does not mark"), case)
    wire_stream(res, core)
    history_stream(res, qs)
    handled_stream(res)
    mutator_stream(res, core)
    # questions are never equal to records
    for q in q_obj[:20]:
        for r in core_obj[:40]:
            res.evaluations += 1
            if q == r or r == q:
                res.violate("C20:question-equals-record", "a question compares equal to a record", {"q": repr(q), "r": repr(r)})
    return res


KIND_TYPES = {"a": (T_A, T_AAAA), "h": (T_HINFO,), "p": (T_PTR, T_CNAME), "t": (T_TXT,), "s": (T_SRV,), "n": (T_NSEC,)}


def spec_wire(d, scope):
    """identity of the record a host builds from what it HEARS: the wire carries owner name, type, class (with the cache-flush
    bit) and rdata; "IPv6 scope included" = the scope of the interface an AAAA record was heard on is part of its rdata.  An
    A record has no scope; NSEC rdata is the bitmap, i.e. the *set* of types."""
    kind, name, type_, c, _ttl, _cr, rd = d
    if kind == "a":
        rdi = (rd[0], scope if type_ == T_AAAA else None)
    elif kind == "p":
        rdi = (fold(rd[0]),)
    elif kind == "s":
        rdi = (rd[0], rd[1], rd[2], fold(rd[3]))
    elif kind == "n":
        rdi = (rd[0], tuple(sorted(set(rd[1]))))
    else:
        rdi = rd
    return (kind, fold(name), type_, c % 32768, rdi)


def history_stream(res, qs):
    """the container that relies on QUESTION identity: `QuestionHistory` (duplicate-question suppression).  A question asked
    100 ms ago with the same (empty) set of known answers suppresses exactly the questions that are the same question --
    name case-insensitively, type, class without the QU bit -- whatever the spelling."""
    from zeroconf._dns import DNSQuestion
    from zeroconf._history import QuestionHistory

    for qa in qs:
        ia = (fold(qa[0]), qa[1], qa[2] % 32768)
        for qb in qs:
            res.evaluations += 1
            h = QuestionHistory()
            h.add_question_at_time(DNSQuestion(*qa), 1000.0, set())
            got = bool(h.suppresses(DNSQuestion(*qb), 1100.0, set()))
            want = ia == (fold(qb[0]), qb[1], qb[2] % 32768)
            if got != want:
                res.violate("C20:question-history:%s" % ("split" if want else "merged"),
                            "a question asked 100 ms ago with the same known answers %s a question that is %s question (name case-insensitively, "
                            "type, class without the QU bit)" % ("suppresses" if got else "does not suppress", "the same" if want else "another"),
                            {"asked": list(qa), "asking": list(qb)})
            if want:
                res.nontriv("qhist/%s/%s" % (qa[0] != qb[0], (qa[2] >= 32768) != (qb[2] >= 32768)))


def _rebuilt(o):
    """a record / question constructed NOW from the present attributes of `o` (class with the flush / QU bit)"""
    from zeroconf import _dns as z

    c = o.class_ | (UNIQUE if o.unique else 0)
    if isinstance(o, z.DNSQuestion):
        return z.DNSQuestion(o.name, o.type, c)
    if isinstance(o, z.DNSAddress):
        return z.DNSAddress(o.name, o.type, c, o.ttl, o.address, scope_id=o.scope_id, created=o.created)
    if isinstance(o, z.DNSHinfo):
        return z.DNSHinfo(o.name, o.type, c, o.ttl, o.cpu, o.os, created=o.created)
    if isinstance(o, z.DNSPointer):
        return z.DNSPointer(o.name, o.type, c, o.ttl, o.alias, created=o.created)
    if isinstance(o, z.DNSText):
        return z.DNSText(o.name, o.type, c, o.ttl, o.text, created=o.created)
    if isinstance(o, z.DNSService):
        return z.DNSService(o.name, o.type, c, o.ttl, o.priority, o.weight, o.port, o.server, created=o.created)
    if isinstance(o, z.DNSNsec):
        return z.DNSNsec(o.name, o.type, c, o.ttl, o.next_name, list(o.rdtypes), created=o.created)
    return None


def handled_stream(res):
    """records and questions AFTER the library's own post-construction paths.  `__hash__` is cached at construction, so identity
    (equal => equal hash; set / dict look-ups) only holds as long as nobody writes an identity attribute afterwards.  A host with
    one registered service (A + link-local AAAA) answers queries -- every question type, our own records listed as known answers
    at full TTL, heard on a socket without scope and on IPv6 sockets with scope 0 and 3 -- through the real
    `QueryHandler.async_response`; then every object the handler saw or produced (the message's questions and answers, the
    question history's stored sets, the answers offered, our own records) is re-checked: (i) its cached hash is the hash of a
    record constructed now from its present attributes, (ii) among all of them equal objects have equal hashes, (iii) a
    `DNSRRSet` of the message's answers finds exactly the own records that are equal to one of them."""
    import types as _types

    try:
        from zeroconf import DNSCache, DNSIncoming, DNSOutgoing, ServiceInfo, const
        from zeroconf._dns import DNSQuestion, DNSRRSet
        from zeroconf._handlers.query_handler import QueryHandler
        from zeroconf._history import QuestionHistory
        from zeroconf._services.registry import ServiceRegistry

        info = ServiceInfo("_http._tcp.local.", "foo._http._tcp.local.", port=80, server="host.local.", properties={"a": "1"},
                           addresses=[b"\x0a\x00\x00\x01", V6])
        reg = ServiceRegistry()
        reg.async_add(info)
    except Exception as ex:  # noqa: BLE001 - registry / ServiceInfo are other properties' business; here only a vehicle
        res.notes.append("C20 handled stream skipped: %r" % ex)
        return

    def own():
        return [info.dns_pointer(), info.dns_service(), info.dns_text()] + list(info.dns_addresses())

    questions = [("_http._tcp.local.", T_PTR), ("_HTTP._TCP.local.", T_PTR), ("foo._http._tcp.local.", T_SRV), ("foo._http._tcp.local.", T_TXT),
                 ("foo._http._tcp.local.", T_ANY), ("host.local.", T_A), ("host.local.", T_AAAA), ("HOST.local.", T_AAAA), ("host.local.", T_ANY)]
    now = 7000000.0
    for scope in (None, 0, 3):
        for qname, qtype in questions:
            for qclass in (IN, IN | UNIQUE):
                for with_known in (True, False):
                    res.evaluations += 1
                    case = {"question": [qname, qtype, qclass], "heard_on_scope": scope, "known_answers": "own records at full TTL" if with_known else "none",
                            "service": "foo._http._tcp.local. port 80 host.local. 10.0.0.1 fe80::1"}
                    try:
                        out = DNSOutgoing(const._FLAGS_QR_QUERY)
                        out.add_question(DNSQuestion(qname, qtype, qclass))
                        if with_known:
                            for r in own():
                                out.add_answer_at_time(r, 0)
                        msgs = [DNSIncoming(p, ("fe80::2", 5353), scope, now) for p in out.packets()]
                        zc = _types.SimpleNamespace(registry=reg, cache=DNSCache(), question_history=QuestionHistory(), out_queue=None, out_delay_queue=None)
                        qh = QueryHandler(zc)
                        qa = qh.async_response(msgs, False)
                    except Exception as ex:  # noqa: BLE001
                        res.notes.append("C20 handled stream: query %r not handled: %r" % (case["question"], ex))
                        continue
                    heard = [a for m in msgs for a in m.answers()]
                    objs = [("question of the message", q) for m in msgs for q in m._questions] + [("answer of the message", a) for a in heard]
                    try:
                        for k, (_t, known) in zc.question_history._history.items():
                            objs.append(("key of the question history", k))
                            objs += [("known answer stored in the question history", r) for r in known]
                    except Exception:  # noqa: BLE001 - another container layout: nothing to re-check there
                        pass
                    if qa is not None:
                        for bucket in (qa.ucast, qa.mcast_now, qa.mcast_aggregate, qa.mcast_aggregate_last_second):
                            for r, adds in bucket.items():
                                objs.append(("record offered as answer", r))
                                objs += [("record offered as additional", x) for x in adds]
                    mine = own()
                    objs += [("own record", r) for r in mine]
                    # (i) a cached hash that no longer belongs to the object's attributes
                    for what, o in objs:
                        rb = _rebuilt(o) if not isinstance(o, tuple) else None
                        if rb is not None and (hash(o) != hash(rb) or not (o == rb)):
                            res.violate("C20:mutated-after-construction:%s" % type(o).__name__,
                                        "after QueryHandler.async_response a %s no longer has the hash of a record constructed from its present attributes "
                                        "(identity attributes were written after construction; __hash__ is cached)" % what, dict(case, object=repr(o), scope_id=getattr(o, "scope_id", None)))
                    # (ii) equal => equal hash among everything the handler touched
                    recs = [(w, o) for w, o in objs if not isinstance(o, tuple)]
                    for i, (wa, a) in enumerate(recs):
                        for wb, b in recs[i + 1:]:
                            if type(a) is type(b) and a == b and hash(a) != hash(b):
                                res.violate("C20:handled-equal-unequal-hash:%s" % type(a).__name__,
                                            "after QueryHandler.async_response a %s and a %s compare equal but hash differently" % (wa, wb),
                                            dict(case, a=repr(a), b=repr(b)))
                    # (iii) the set look-up known-answer suppression relies on
                    look = DNSRRSet(heard).lookup
                    look = look() if callable(look) else look
                    for r in mine:
                        lin = any(type(a) is type(r) and a == r for a in heard)
                        if (look.get(r) is not None) != lin:
                            res.violate("C20:handled-rrset-lookup:%s" % type(r).__name__,
                                        "after QueryHandler.async_response the known answers %s a record equal to our own %s, the DNSRRSet look-up says %s"
                                        % ("contain" if lin else "do not contain", type(r).__name__, look.get(r) is not None), dict(case, own=repr(r)))
                    res.nontriv("handled/%s/%s/%s/%s" % (scope, qtype, qclass >= 32768, with_known))


def _same_question(res, where, q, name, type_, case):
    """`q` (an object that went through a library path) must still be THE question (name, type, IN): equal to, hashing like and
    suppressed in the question history by a freshly built one, with or without the QU bit, in either spelling"""
    from zeroconf._dns import DNSQuestion
    from zeroconf._history import QuestionHistory

    rb = _rebuilt(q)
    if hash(q) != hash(rb) or not (q == rb):
        res.violate("C20:mutated-after-construction:DNSQuestion", "%s: the question no longer has the hash / identity of a question constructed from its "
                    "present attributes (an identity attribute was written after construction; __hash__ is cached)" % where, dict(case, question=repr(q), class_=q.class_))
    for nm in (name, name.upper()):
        for c in (IN, IN | UNIQUE):
            f = DNSQuestion(nm, type_, c)
            h = QuestionHistory()
            h.add_question_at_time(q, 1000.0, set())
            h2 = QuestionHistory()
            h2.add_question_at_time(f, 1000.0, set())
            ok = q == f and f == q and hash(q) == hash(f) and h.suppresses(f, 1100.0, set()) and h2.suppresses(q, 1100.0, set()) and f in {q} and q in {f}
            res.evaluations += 1
            if not ok:
                res.violate("C20:question-identity-after-library-path", "%s: the question is no longer the same question as DNSQuestion(%r, %d, %d) (equality %s, "
                            "hashes %s, question history %s/%s)" % (where, nm, type_, c, q == f, "equal" if hash(q) == hash(f) else "differ",
                                                                      h.suppresses(f, 1100.0, set()), h2.suppresses(q, 1100.0, set())),
                            dict(case, question=repr(q), class_=q.class_, fresh=[nm, type_, c]))


def mutator_stream(res, core):
    """identity after the PUBLIC MUTATORS and after the library's own question construction paths (oracle only).  Nothing the
    library does to a question or record after construction -- the `DNSQuestion.unicast` setter (browser.py: `generate_service_query`,
    info.py: `_add_question_with_known_answers`), `DNSRecord.set_created_ttl` / `reset_ttl` -- may change what it is or leave a
    stale cached hash."""
    import types as _types

    from zeroconf import DNSCache, ServiceInfo
    from zeroconf._dns import DNSQuestion, DNSQuestionType
    from zeroconf._history import QuestionHistory

    # (a) the setter itself
    for name in ("_http._tcp.local.", "_HTTP._TCP.Local."):
        for t in (T_PTR, T_ANY):
            for c in (IN, IN | UNIQUE):
                for v in (True, False):
                    q = DNSQuestion(name, t, c)
                    q.unicast = v
                    _same_question(res, "after `question.unicast = %s`" % v, q, name, t, {"built": [name, t, c], "then": "question.unicast = %s" % v})
                    res.nontriv("setter/%s/%s" % (c >= 32768, v))
    # (b) the browser's and the lookup's question construction
    try:
        from zeroconf._services.browser import generate_service_query

        for multicast in (True, False):
            for qt in (None, DNSQuestionType.QU, DNSQuestionType.QM):
                zc = _types.SimpleNamespace(cache=DNSCache(), question_history=QuestionHistory())
                outs = generate_service_query(zc, 5000.0, {"_http._tcp.local."}, multicast, qt)
                for out in outs:
                    for q in out.questions:
                        _same_question(res, "generate_service_query(multicast=%s, question_type=%s)" % (multicast, qt), q, "_http._tcp.local.", T_PTR,
                                       {"path": "browser.generate_service_query", "multicast": multicast, "question_type": str(qt)})
                res.nontriv("browser-query/%s/%s/%d" % (multicast, qt, sum(len(o.questions) for o in outs)))
        info = ServiceInfo("_http._tcp.local.", "foo._http._tcp.local.", port=80, server="host.local.")
        for qt in (DNSQuestionType.QU, DNSQuestionType.QM):
            zc = _types.SimpleNamespace(cache=DNSCache(), question_history=QuestionHistory())
            out = info._generate_request_query(zc, 5000.0, qt)
            for q in out.questions:
                _same_question(res, "ServiceInfo._generate_request_query(question_type=%s)" % qt, q, q.name, q.type, {"path": "ServiceInfo._generate_request_query", "question_type": str(qt)})
            res.nontriv("lookup-query/%s/%d" % (qt, len(out.questions)))
    except Exception as ex:  # noqa: BLE001 - browser / lookup are other properties' business; here only vehicles
        res.notes.append("C20 mutator stream: library question paths not exercised: %r" % ex)
    # (c) record mutators: TTL and creation time are not identity
    seen = set()
    for d in core:
        if (d[0], d[2]) in seen:
            continue
        seen.add((d[0], d[2]))
        for mut in ("set_created_ttl", "reset_ttl"):
            res.evaluations += 1
            r, f = build(d), build(d)
            try:
                if mut == "set_created_ttl":
                    r.set_created_ttl(9000.0, 7)
                else:
                    r.reset_ttl(build(D(d[0], d[1], d[2], d[3], 77, 9000.0, *d[6])))
            except Exception as ex:  # noqa: BLE001
                res.notes.append("C20 mutator stream: %s raised %r" % (mut, ex))
                continue
            rb = _rebuilt(r)
            if not (r == f and f == r and hash(r) == hash(f) and r in {f} and hash(r) == hash(rb) and r == rb):
                res.violate("C20:mutated-after-construction:%s" % type(r).__name__, "after `%s` the record is no longer the same record as one built from the "
                            "same constructor arguments (TTL / creation time are not identity), or its cached hash is stale" % mut,
                            {"built": list(map(repr, d)), "then": mut, "object": repr(r)})
            res.nontriv("record-mutator/%s/%s" % (d[0], mut))


def wire_stream(res, core):
    """records as the library builds them from a datagram: every well-typed core record of two owner names is written into
    response packets (the library's own DNSOutgoing), each packet is parsed three times -- as heard on a socket without scope
    and on IPv6 sockets with scope 0 and 3 -- and ALL pairs among the parsed records and the same records built directly
    (A without scope, AAAA with the receiving scope) are compared with `spec_wire` of what was written.  (Oracle only: the parser is C02's model; what is checked here is that the constructor arguments the parser
    chooses do not split or merge records.)"""
    from zeroconf import DNSIncoming, DNSOutgoing, const

    names = list(dict.fromkeys(d[1] for d in core))[:2]     # two spellings of one owner name
    descs = [d for d in core if d[1] in names and d[2] in KIND_TYPES[d[0]] and d[3] in (IN, IN | UNIQUE)]
    descs = [d if d[0] != "a" else D("a", d[1], d[2], d[3], d[4], d[5], d[6][0], None) for d in descs]
    descs = list(dict.fromkeys(descs))
    parsed = []  # (desc, scope, object)
    try:
        out = DNSOutgoing(const._FLAGS_QR_RESPONSE | const._FLAGS_AA, multicast=True)
        for d in descs:
            out.add_answer_at_time(build(d), 0)
        packets = out.packets()
        for scope in (None, 0, 3):
            got = []
            for p in packets:
                got.extend(DNSIncoming(p, ("fe80::1", 5353), scope, 5000.0).answers())
            if len(got) != len(descs):
                res.notes.append("C20 wire stream: %d records written, %d parsed (scope %s): stream skipped" % (len(descs), len(got), scope))
                return
            parsed += [(d, scope, o) for d, o in zip(descs, got)]
            # ... and the same records built directly: an A record without scope, an AAAA record with the receiving scope
            parsed += [(d, scope, build(d if d[0] != "a" else D("a", d[1], d[2], d[3], d[4], d[5], d[6][0], scope if d[2] == T_AAAA else None)))
                       for d in descs]
    except Exception as ex:  # noqa: BLE001 - the codec is C01/C02's business; here it is only a vehicle
        res.notes.append("C20 wire stream skipped: %r" % ex)
        return
    for da, sa, a in parsed:
        wa = spec_wire(da, sa)
        for db, sb, b in parsed:
            res.evaluations += 1
            eq = a == b
            spec = wa == spec_wire(db, sb)
            if eq != spec or (eq and hash(a) != hash(b)):
                kn = type(a).__name__
                res.violate("C20:parsed-eq-vs-spec:%s:%s" % (kn, "unequal-hash" if eq == spec else ("split" if spec else "merged")),
                            "two records parsed from datagrams compare %s (hashes %s) but what was on the wire (name, type, class, rdata; the receiving "
                            "scope for AAAA only) says %s" % (eq, "equal" if hash(a) == hash(b) else "differ", spec),
                            {"a": list(map(repr, da)), "heard_on_scope_a": sa, "b": list(map(repr, db)), "heard_on_scope_b": sb,
                             "parsed_a": repr(a), "parsed_b": repr(b)})
            if spec:
                res.nontriv("wire/%s/%s/%s" % (da[0], sa != sb, da[1] != db[1]))


def replay(body):
    """re-evaluate a stored pair on the current tree"""
    case = body.get("case", body)
    try:
        if "vocab" in case:
            voc = vocab_core()[0] if case["vocab"] == "core" else (vocab_spell()[0] if case["vocab"] == "spell" else vocab_ext(case["vocab"].split(":")[1])[0])
            da, db = voc[case["i"]], voc[case["j"]]
            a, b = build(da), build(db)
            spec = spec_ident(da) == spec_ident(db)
            return {"violates": (a == b) != spec or ((a == b) and hash(a) != hash(b)), "eq": a == b, "spec": spec,
                    "hash_eq": hash(a) == hash(b), "a": repr(a), "b": repr(b)}
    except Exception as ex:  # pragma: no cover
        return {"violates": None, "note": "replay failed: %r" % ex}
    return {"violates": None, "note": "self-describing case; re-run ./check C20 quick"}
