"""C20 -- record identity: correspondence + oracle.

Every record / question is described by its *constructor arguments* (`Desc`); the object under test is built from
them, while the oracle (`spec_ident`) and the model driver line are computed from the arguments alone -- never from
attributes of the object -- so that what `__init__` does to them (masking the cache-flush bit off the class,
lower-casing keys, sorting NSEC types, storing the scope) is part of what is checked.

Two vocabularies: a *core* one over which **all ordered pairs** are evaluated (exhaustive, both tiers), and an
*extended* one (more names/hosts/classes/TTLs) from which pairs are sampled (near neighbours = one-field variants,
the twin of each record under every other owner name, and random partners).
"""
from __future__ import annotations

from . import common as C

TRUSTED = ["str.lower() is modelled as an uninterpreted function in the theorems and as ASCII lowering in the driver; "
           "the vocabulary has no upper-case non-ASCII letter, so the two agree on it (where str.lower() and DNS's "
           "ASCII-only case-insensitivity differ - 'É' vs 'é' - is a reading: the property says 'case-insensitively' "
           "and the library uses str.lower())",
           "sorted() of the NSEC type list (the translator checks that rdtypes is stored as sorted(rdtypes))"]
ASSUMPTIONS = ["CPython dict/set behave as maps for keys with congruent __eq__/__hash__ (the congruence is what C20 proves)"]

IN, UNIQUE, ANY = 1, 0x8000, 255
T_A, T_CNAME, T_PTR, T_HINFO, T_TXT, T_AAAA, T_SRV, T_NSEC, T_ANY = 1, 5, 12, 13, 16, 28, 33, 47, 255
V6 = b"\xfe\x80" + b"\x00" * 13 + b"\x01"


# ------------------------------------------------------------------------------------------------
# descriptions


def D(kind, name, type_, rawclass, ttl, created, *rd):
    return (kind, name, type_, rawclass, ttl, created, tuple(rd))


def build(d):
    from zeroconf import _dns as z

    kind, name, type_, c, ttl, cr, rd = d
    if kind == "a":
        return z.DNSAddress(name, type_, c, ttl, rd[0], scope_id=rd[1], created=cr)
    if kind == "h":
        return z.DNSHinfo(name, type_, c, ttl, rd[0], rd[1], created=cr)
    if kind == "p":
        return z.DNSPointer(name, type_, c, ttl, rd[0], created=cr)
    if kind == "t":
        return z.DNSText(name, type_, c, ttl, rd[0], created=cr)
    if kind == "s":
        return z.DNSService(name, type_, c, ttl, rd[0], rd[1], rd[2], rd[3], created=cr)
    if kind == "n":
        return z.DNSNsec(name, type_, c, ttl, rd[0], list(rd[1]), created=cr)
    raise TypeError(kind)


def spec_ident(d):
    """the property's sentence, on the constructor arguments: kind; owner name case-insensitively; type; class without
    the top (cache-flush) bit; rdata with PTR target / SRV host case-insensitively and the IPv6 scope.  TTL and creation
    time do not occur."""
    kind, name, type_, c, _ttl, _cr, rd = d
    if kind == "p":
        rdi = (rd[0].lower(),)
    elif kind == "s":
        rdi = (rd[0], rd[1], rd[2], rd[3].lower())
    elif kind == "n":
        rdi = (rd[0], tuple(sorted(rd[1])))
    else:
        rdi = rd
    return (kind, name.lower(), type_, c % 32768, rdi)


def line(d):
    """driver line (`Zc.Rec.parse`); the class token is the RAW constructor argument, the unique token is unused"""
    kind, name, type_, c, ttl, cr, rd = d
    head = "%s %d %d 0 %d %d" % (C.hs(name), type_, c, int(ttl), int(cr))
    if kind == "a":
        return "a %s %s %s" % (head, C.hx(rd[0]), "-" if rd[1] is None else str(rd[1]))
    if kind == "h":
        return "h %s %s %s" % (head, C.hs(rd[0]), C.hs(rd[1]))
    if kind == "p":
        return "p %s %s" % (head, C.hs(rd[0]))
    if kind == "t":
        return "t %s %s" % (head, C.hx(rd[0]))
    if kind == "s":
        return "s %s %d %d %d %s" % (head, rd[0], rd[1], rd[2], C.hs(rd[3]))
    return "n %s %s %s" % (head, C.hs(rd[0]), C.natlist(sorted(rd[1])))


def qline(q):
    name, type_, c = q
    return "%s %d %d 0" % (C.hs(name), type_, c)


def variants(name, c, ttl, cr, hosts):
    """every record kind under one owner name / class, rdata differing in one field at a time"""
    out = [
        D("a", name, T_A, c, ttl, cr, b"\x0a\x00\x00\x01", None),
        D("a", name, T_A, c, ttl, cr, b"\x0a\x00\x00\x02", None),
        D("a", name, T_AAAA, c, ttl, cr, V6, None),
        D("a", name, T_AAAA, c, ttl, cr, V6, 3),
        D("a", name, T_AAAA, c, ttl, cr, V6, 0),
        D("h", name, T_HINFO, c, ttl, cr, "cpu", "os"),
        D("h", name, T_HINFO, c, ttl, cr, "CPU", "os"),
        D("h", name, T_HINFO, c, ttl, cr, "cpu", "os2"),
    ]
    for h in hosts:
        out.append(D("p", name, T_PTR, c, ttl, cr, h))
        out.append(D("s", name, T_SRV, c, ttl, cr, 0, 0, 80, h))
    out += [
        D("p", name, T_CNAME, c, ttl, cr, hosts[0]),
        D("t", name, T_TXT, c, ttl, cr, b"\x03a=1"),
        D("t", name, T_TXT, c, ttl, cr, b"\x03A=1"),
        D("t", name, T_TXT, c, ttl, cr, b""),
        D("s", name, T_SRV, c, ttl, cr, 1, 0, 80, hosts[0]),
        D("s", name, T_SRV, c, ttl, cr, 0, 1, 80, hosts[0]),
        D("s", name, T_SRV, c, ttl, cr, 0, 0, 81, hosts[0]),
        D("n", name, T_NSEC, c, ttl, cr, name, (T_A, T_AAAA)),
        D("n", name, T_NSEC, c, ttl, cr, name, (T_AAAA, T_A)),
        D("n", name, T_NSEC, c, ttl, cr, name, (T_A,)),
        D("n", name, T_NSEC, c, ttl, cr, name.upper(), (T_A,)),
        # same payload carried by a different class of object
        D("t", name, T_A, c, ttl, cr, b"\x0a\x00\x00\x01"),
    ]
    return out


def vocab_core():
    """small enough for all ordered pairs: 5 owner names (two spellings of one name, an unrelated one, a pair that only
    full case folding merges), 4 raw classes (IN with and without the flush bit, ANY, and 0x0101 = IN plus a bit inside
    the 15-bit class), TTL/creation time varied per (name, class) so that identity-equal records differ in them"""
    names = ["foo._http._tcp.local.", "Foo._HTTP._tcp.local.", "bar._http._tcp.local.", "straße._x._udp.local.", "strasse._x._udp.local."]
    hosts = ["host.local.", "HOST.Local.", "other.local."]
    classes = [IN, IN | UNIQUE, ANY, 0x0101]
    recs = []
    for ni, n in enumerate(names):
        for ci, c in enumerate(classes):
            ttl = [0, 120, 4500, 1][(ni + ci) % 4]
            recs += variants(n, c, ttl, 1000.0 + 7 * ni + ci, hosts)
    qs = [(n, t, c) for n in names for t in (T_PTR, T_A, T_ANY) for c in classes]
    return recs, qs


def vocab_ext(tier):
    names = ["foo._http._tcp.local.", "Foo._HTTP._tcp.local.", "FOO._http._TCP.LOCAL.", "bar._http._tcp.local.", "日本._x._udp.local.",
             "straße._x._udp.local.", "strasse._x._udp.local.", "é._x._udp.local.", "ﬁsh._x._udp.local.", "fish._x._udp.local.", "STRASSE._x._udp.local."]
    hosts = ["host.local.", "HOST.Local.", "other.local.", "straße.local.", "strasse.local."]
    classes = [IN, IN | UNIQUE, ANY, 2 | UNIQUE, 0x0101, 0x7FFF, 0xFFFF]
    ttls = [0, 1, 120, 4500]
    if tier != "thorough":
        names = names[:7]
        classes = classes[:5]
        ttls = [0, 4500]
    recs = []
    for n in names:
        for c in classes:
            for ttl in ttls:
                recs += variants(n, c, ttl, 1000.0 + ttl, hosts)
    return recs, max(1, len(recs) // len(names))


# ------------------------------------------------------------------------------------------------


def check_pair(res, da, db, a, b, mline, case):
    res.evaluations += 1
    eq = a == b
    ne = a != b
    heq = hash(a) == hash(b)
    inset = b in {a}
    indict = {a: 1}.get(b) == 1
    sa, sb = spec_ident(da), spec_ident(db)
    spec = sa == sb
    diff = tuple(k for k, (x, y) in enumerate(zip(sa, sb)) if x != y)
    flush_differs = (da[3] >= 32768) != (db[3] >= 32768)
    sig = "%s/%s/%s/%s" % (da[0], db[0], diff, (da[4] != db[4], flush_differs))
    if eq or len(diff) <= 1:
        res.nontriv(sig)
    res.count("equal" if eq else "unequal")
    kn = type(a).__name__
    if eq != spec:
        res.violate("C20:eq-vs-spec:%s/%s:%s%s" % (kn, type(b).__name__, diff, ":flush-bit" if spec and flush_differs else ""),
                    "records compare %s but identity (kind, lower name, type, class without the flush bit, rdata) of the "
                    "constructor arguments says %s" % (eq, spec), case())
    if eq and not heq:
        res.violate("C20:equal-unequal-hash:%s" % kn, "equal records with different hashes", case())
    if eq == ne:
        res.violate("C20:ne-inconsistent:%s" % kn, "__ne__ inconsistent with __eq__", case())
    if (inset != eq or indict != eq) and not (heq and not eq):  # a hash collision without equality cannot make them members
        res.violate("C20:set-membership:%s" % kn, "set/dict membership disagrees with equality", case())
    if mline is not None:
        m = mline.split()
        if m == ["bad-op"]:
            res.disagree("c20r", case(), "parsed", "bad-op")
            return
        meq, mheq, mkeq, mseq = (x == "1" for x in m)
        if meq != eq or (mheq and not heq) or (mkeq and mseq) != spec:
            res.disagree("c20r", case(), {"eq": eq, "hash_eq": heq, "spec": spec}, {"eq": meq, "hash_eq": mheq, "kind_eq": mkeq, "spec_eq": mseq})


def run(ctx):
    res = C.Result("C20")
    rng = C.rng_for(ctx["seed"], "c20")
    core, qs = vocab_core()
    ext, group = vocab_ext(ctx["tier"])
    budget = C.Budget(ctx["tier"], 16000, 260000).n
    if ctx["widened"]:
        budget *= 4
    core_obj = [build(d) for d in core]
    ext_obj = [build(d) for d in ext]
    q_obj = None
    from zeroconf._dns import DNSQuestion

    q_obj = [DNSQuestion(*q) for q in qs]

    # (1) all ordered pairs of the core vocabulary
    n = len(core)
    core_pairs = [(i, j) for i in range(n) for j in range(n)]
    res.exhaustive = True
    # (2) sampled pairs of the extended vocabulary
    m = len(ext)
    per = max(1, budget // m)
    ext_pairs = []
    for i in range(m):
        js = set(rng.sample(range(m), min(m, per)))
        js.add(i)
        for j in range(max(0, i - 30), min(m, i + 30)):   # one-field-at-a-time variants are neighbours
            js.add(j)
        for j in range(i % group, m, group):              # the same record under every other owner name
            js.add(j)
        ext_pairs.extend((i, j) for j in sorted(js))
    qpairs = [(i, j) for i in range(len(qs)) for j in range(len(qs))]
    # (3) DNSRRSet over lists with identity-equal records of different TTL
    rr_cases = []
    for _ in range(400 if ctx["tier"] != "thorough" else 4000):
        k = rng.randint(1, 4)
        base = rng.randrange(n)
        idxs = []
        for _ in range(k):
            r = rng.random()
            if r < 0.6:  # an identity twin (other spelling / flush bit / TTL) or a near neighbour
                cand = [j for j in range(n) if spec_ident(core[j]) == spec_ident(core[base])] if r < 0.4 else list(range(max(0, base - 3), min(n, base + 4)))
                idxs.append(rng.choice(cand))
            else:
                idxs.append(rng.randrange(n))
        probe = rng.choice([base] + idxs)
        rr_cases.append((idxs, probe))

    lines = ["c20r %s %s" % (line(core[i]), line(core[j])) for i, j in core_pairs]
    lines += ["c20r %s %s" % (line(ext[i]), line(ext[j])) for i, j in ext_pairs]
    lines += ["c20q %s %s" % (qline(qs[i]), qline(qs[j])) for i, j in qpairs]
    lines += ["c20s %d %s %s" % (len(ix), " ".join(line(core[i]) for i in ix), line(core[p])) for ix, p in rr_cases]
    model = None
    if ctx["driver_ok"]:
        try:
            model = C.run_driver(lines)
        except C.DriverUnavailable as ex:
            res.notes.append("driver unavailable: %s" % ex)
    res.rule = ("ALL %d ordered pairs over a core vocabulary of %d records (5 owner names incl. two spellings and a pair only full case folding "
                "merges, 4 raw classes with/without the cache-flush bit, 7 kinds, rdata variants differing in one field, TTL/created "
                "varying between identity-equal records) + %d sampled pairs over an extended vocabulary of %d records + all %d pairs of %d "
                "questions + %d DNSRRSet look-ups over 1-4 stored records; oracle and model line are computed from the constructor arguments, "
                "never from the object; non-trivial = distinct (kind pair, which-fields-differ, ttl/flush differ) signature among pairs "
                "that are equal or differ in exactly one identity-relevant respect"
                % (len(core_pairs), n, len(ext_pairs), m, len(qpairs), len(qs), len(rr_cases)))
    off = 0
    for idx, (i, j) in enumerate(core_pairs):
        check_pair(res, core[i], core[j], core_obj[i], core_obj[j], model[off + idx] if model else None,
                   lambda i=i, j=j: {"a": list(map(repr, core[i])), "b": list(map(repr, core[j])), "vocab": "core", "i": i, "j": j})
    off += len(core_pairs)
    for idx, (i, j) in enumerate(ext_pairs):
        check_pair(res, ext[i], ext[j], ext_obj[i], ext_obj[j], model[off + idx] if model else None,
                   lambda i=i, j=j: {"a": list(map(repr, ext[i])), "b": list(map(repr, ext[j])), "vocab": "ext:" + ctx["tier"], "i": i, "j": j})
    off += len(ext_pairs)
    res.sample({"a": repr(core_obj[0]), "b": repr(core_obj[1]), "eq": core_obj[0] == core_obj[1]})

    for idx, (i, j) in enumerate(qpairs):
        a, b = q_obj[i], q_obj[j]
        res.evaluations += 1
        eq = a == b
        heq = hash(a) == hash(b)
        spec = (qs[i][0].lower(), qs[i][1], qs[i][2] % 32768) == (qs[j][0].lower(), qs[j][1], qs[j][2] % 32768)
        if eq or spec:
            res.nontriv("q/%s/%s" % (qs[i][0] != qs[j][0], (qs[i][2] >= 32768) != (qs[j][2] >= 32768)))
        case = {"qa": list(qs[i]), "qb": list(qs[j])}
        if eq != spec:
            res.violate("C20:question-eq-vs-spec", "questions compare %s, (lower name, type, class without the QU bit) says %s" % (eq, spec), case)
        if eq and not heq:
            res.violate("C20:question-hash", "equal questions with different hashes", case)
        if model is not None:
            mm = model[off + idx].split()
            if mm == ["bad-op"] or (mm[0] == "1") != eq or (mm[1] == "1" and not heq) or (mm[2] == "1") != spec:
                res.disagree("c20q", case, {"eq": eq, "hash_eq": heq, "spec": spec}, mm)
    off += len(qpairs)

    # "the same record for the cache, for known-answer suppression": the containers that rely on identity
    from zeroconf import DNSCache
    from zeroconf._dns import DNSRRSet, DNSNsec

    for idx, (ix, p) in enumerate(rr_cases):
        res.evaluations += 1
        sup = DNSRRSet([build(core[i]) for i in ix]).suppresses(build(core[p]))
        same = [i for i in ix if spec_ident(core[i]) == spec_ident(core[p])]
        # suppression = some stored record is the same record and has more than half the probe's TTL.  When several
        # identical stored records disagree on the TTL test, the property does not say which one counts (the code and the
        # model use the last one: that is compared through the driver only), so the oracle accepts either verdict there.
        verdicts = {core[i][4] > core[p][4] / 2 for i in same}
        case = {"stored": [list(map(repr, core[i])) for i in ix], "probe": list(map(repr, core[p]))}
        if same:
            res.nontriv("rrset/%d/%d/%s" % (len(ix), len(same), sorted(verdicts)))
        if (not same and sup) or (len(verdicts) == 1 and sup != next(iter(verdicts))):
            res.violate("C20:rrset-suppression:%s" % core[p][0], "known-answer suppression says %s, identity and TTLs say %s" % (sup, sorted(verdicts) or [False]), case)
        if model is not None:
            mm = model[off + idx].strip()
            if mm not in ("0", "1") or (mm == "1") != sup:
                res.disagree("c20s", case, sup, mm)
    off += len(rr_cases)

    sub = list(range(0, n, max(1, n // 160)))
    near = [(i, j) for i in sub for j in sub]
    for i in range(0, n - 1, 3):
        for j in range(i, min(n, i + 28)):
            near.append((i, j))
            near.append((j, i))
    for i, j in near:
        res.evaluations += 1
        da, db = core[i], core[j]
        a, b = build(da), build(db)
        same = spec_ident(da) == spec_ident(db)
        case = {"a": list(map(repr, da)), "b": list(map(repr, db))}
        cache = DNSCache()
        cache.async_add_records([a])
        found = cache.async_get_unique(b) is not None if not isinstance(b, DNSNsec) else cache.get(b) is not None
        found_get = cache.get(b) is not None
        kn = type(a).__name__
        if found != same or found_get != same:
            res.violate("C20:cache-lookup:%s" % kn,
                        "a cached record is %sfound through an %s probe (async_get_unique=%s, get=%s)" % ("" if same else "not ", "identical" if same else "different", found, found_get), case)
        cache.async_add_records([b])
        held = [r for r in cache.entries_with_name(da[1]) if type(r) is type(a) and r == a]
        if same and len(held) != 1:
            res.violate("C20:cache-duplicate:%s" % kn, "adding the same record twice leaves %d copies in the cache" % len(held), case)
        if same:
            res.nontriv("cache/%s/%s" % (kn, da[1] != db[1]))
    # questions are never equal to records
    for q in q_obj[:20]:
        for r in core_obj[:40]:
            res.evaluations += 1
            if q == r or r == q:
                res.violate("C20:question-equals-record", "a question compares equal to a record", {"q": repr(q), "r": repr(r)})
    return res


def replay(body):
    """re-evaluate a stored pair on the current tree"""
    case = body.get("case", body)
    try:
        if "vocab" in case:
            voc = vocab_core()[0] if case["vocab"] == "core" else vocab_ext(case["vocab"].split(":")[1])[0]
            da, db = voc[case["i"]], voc[case["j"]]
            a, b = build(da), build(db)
            spec = spec_ident(da) == spec_ident(db)
            return {"violates": (a == b) != spec or ((a == b) and hash(a) != hash(b)), "eq": a == b, "spec": spec,
                    "hash_eq": hash(a) == hash(b), "a": repr(a), "b": repr(b)}
    except Exception as ex:  # pragma: no cover
        return {"violates": None, "note": "replay failed: %r" % ex}
    return {"violates": None, "note": "self-describing case; re-run ./check C20 quick"}
