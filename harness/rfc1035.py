"""A third, independent strict parser for DNS messages, written from RFC 1035 §3.1, §4.1 (and RFC 4034
§4.1.2 for the NSEC bitmap, RFC 2782 for SRV) -- not from the Lean `Wire.Strict` and not from the library.

Used by harness/c02.py (stage O) for two things:
  * `decode(b, name_rule="strict")` (<= 255 wire octets AND <= 253 characters, as `Wire.Strict` demands) cross-checks
    Lean's `Strict.decode` (accept/reject and content), so that the "strict RFC 1035 parser" of the C02 theorem is
    not only judged by itself;
  * `decode(b, name_rule="rfc")` applies RFC 1035's own length rule alone -- a name is at most 255 octets on the wire,
    length octets and the root label included (§2.3.4, §3.1) -- and `name_rule="chars253"` the library's documented
    253-character rule alone, to *observe* where the two depart (in both directions).

Strictness shared with `Wire.Strict`: exact section counts, no trailing octets, labels 1..63 octets, compression
pointers only backwards to before the start of the current name segment and not into the header, at most 128
pointers per name, rdlength equal to the rdata consumed.
"""
from __future__ import annotations

import struct


class Reject(Exception):
    pass


def _name(b, off):
    """-> (labels, offset behind the name as written at `off`)"""
    labels = []
    cur, seg, hops, ret = off, off, 0, None
    n = len(b)
    while True:
        if cur >= n:
            raise Reject("name runs off the message")
        c = b[cur]
        if c == 0:
            if ret is None:
                ret = cur + 1
            return labels, ret
        if c < 0x40:
            if cur + 1 + c > n:
                raise Reject("label runs off the message")
            labels.append(bytes(b[cur + 1:cur + 1 + c]))
            cur += 1 + c
        elif c < 0xC0:
            raise Reject("reserved label type")
        else:
            if cur + 1 >= n:
                raise Reject("truncated pointer")
            tgt = ((c & 0x3F) << 8) | b[cur + 1]
            if tgt < 12 or tgt >= seg:
                raise Reject("pointer does not point backwards to a prior name")
            hops += 1
            if hops > 128:
                raise Reject("too many pointers")
            if ret is None:
                ret = cur + 2
            cur = seg = tgt


def wire_octets(labels):
    return sum(len(l) + 1 for l in labels) + 1


def text(labels):
    return ".".join(l.decode("utf-8", "replace") for l in labels) + "."


def decode(b, name_rule="rfc"):
    """-> dict(hdr, questions, records, supported, names) in the view harness/c02.py compares; raises Reject"""
    names = []

    def name(off):
        labels, e = _name(b, off)
        if name_rule in ("rfc", "strict") and wire_octets(labels) > 255:
            raise Reject("name longer than 255 octets")
        if name_rule in ("chars253", "strict") and len(text(labels)) > 253:
            raise Reject("name longer than 253 characters")
        names.append(labels)
        return labels, e

    n = len(b)
    if n < 12:
        raise Reject("short header")
    id_, flags, nq, nan, nau, nad = struct.unpack(">HHHHHH", b[:12])
    off = 12
    qs = []
    for _ in range(nq):
        nm, off = name(off)
        if off + 4 > n:
            raise Reject("short question")
        t, c = struct.unpack(">HH", b[off:off + 4])
        off += 4
        qs.append((text(nm), t, c))
    rs = []
    supported = True
    for _ in range(nan + nau + nad):
        nm, off = name(off)
        if off + 10 > n:
            raise Reject("short record")
        t, c, ttl, rl = struct.unpack(">HHIH", b[off:off + 10])
        off += 10
        end = off + rl
        if end > n:
            raise Reject("rdata runs off the message")
        if t == 1 or t == 28:
            if rl != (4 if t == 1 else 16):
                raise Reject("address length")
            rd = ("a", bytes(b[off:end]))
        elif t in (5, 12):
            tn, e = name(off)
            if e != end:
                raise Reject("rdlength")
            rd = ("p", text(tn))
        elif t == 16:
            rd = ("t", bytes(b[off:end]))
        elif t == 33:
            if rl < 7:
                raise Reject("short SRV")
            p, w, port = struct.unpack(">HHH", b[off:off + 6])
            tn, e = name(off + 6)
            if e != end:
                raise Reject("rdlength")
            rd = ("s", p, w, port, text(tn))
        elif t == 13:
            o = off
            ss = []
            for _i in range(2):
                if o >= end or o + 1 + b[o] > end:
                    raise Reject("HINFO")
                ss.append(bytes(b[o + 1:o + 1 + b[o]]).decode("utf-8", "replace"))
                o += 1 + b[o]
            if o != end:
                raise Reject("rdlength")
            rd = ("h", ss[0], ss[1])
        elif t == 47:
            tn, o = name(off)
            if o > end:
                raise Reject("rdlength")
            types = []
            while o < end:
                if o + 2 > end:
                    raise Reject("NSEC window")
                w, l = b[o], b[o + 1]
                if l < 1 or l > 32 or o + 2 + l > end:
                    raise Reject("NSEC bitmap length")
                for i in range(l):
                    by = b[o + 2 + i]
                    for bit in range(8):
                        if by & (0x80 >> bit):
                            types.append(w * 256 + i * 8 + bit)
                o += 2 + l
            rd = ("n", text(tn), tuple(sorted(types)))
        else:
            supported = False
            rd = ("o", bytes(b[off:end]))
        off = end
        rs.append((text(nm), t, c, ttl, rd))
    if off != n:
        raise Reject("trailing octets")
    return {"hdr": (id_, flags, nq, nan, nau, nad), "questions": tuple(qs), "records": tuple(rs), "supported": supported,
            "names": names}
