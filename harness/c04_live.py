"""C04, the `live` stream: the same kind of histories as the op-sequence streams, but on a whole real `Zeroconf` instance under the
virtual-time simulator (`vsim`) instead of the stub `zc`:

* browsers are real `AsyncServiceBrowser` objects (even ids: `__init__` -> `_async_start` -> the real `Zeroconf.async_add_listener`,
  query scheduler running) and real thread-based `ServiceBrowser` objects (odd ids: `__init__` starts the delivery thread and schedules
  `_async_start` on the loop; with a single type they are built by the sync API `Zeroconf.add_service_listener` and cancelled by
  `remove_service_listener`; every callback goes through `queue.SimpleQueue` and `ServiceBrowser.run` on that thread), cancelled with
  `async_cancel()` / `cancel()`;
* datagrams are bytes handed to the real `AsyncListener.datagram_received` of the instance's socket (duplicate guard, decode, record
  manager), at the virtual instant of the op;
* expiry is discovered by the instance's own 10 s cleanup timer (`X` ops of a history only let time pass).

No model is involved: stage O only (`c04.oracle`: alternation per (browser, type, instance), live set == cached pointer records at every
quiescent point, the lookup from inside add_service).  Quiescent = the loop has run the op to completion and every delivery thread
has handed over what was queued for it (the loop thread waits for that in real time; virtual time stands still meanwhile).
"""
from __future__ import annotations

import asyncio
import time
from unittest import mock

from . import cachecommon as CC
from . import common as C  # noqa: F401  (sys.path)
from . import vsim

import zeroconf._core as _zc_core  # noqa: E402
from zeroconf import const as K  # noqa: E402
from zeroconf._dns import DNSPointer  # noqa: E402
from zeroconf._services import ServiceListener  # noqa: E402
from zeroconf._services.browser import ServiceBrowser  # noqa: E402
from zeroconf.asyncio import AsyncServiceBrowser  # noqa: E402

THREAD_WAIT_S = 10.0    # real seconds the loop thread waits for a delivery thread before it calls the delivery stalled (never reached on
                        # a tree whose delivery thread works, however loaded the machine; a stalled history ends there)
STALLS = [0]            # delivery stalls seen in this process (the stream stops after a few: each costs THREAD_WAIT_S)
THREAD_GRACE_S = 0.003  # ... and after the expected number of callbacks arrived, for callbacks nobody queued


class _CountingThreadBrowser(ServiceBrowser):
    """the real thread-based browser; only counts what `async_update_records_complete` put on its queue, so that the harness knows how
    many callbacks the delivery thread owes"""

    n_put = 0

    def async_update_records_complete(self):
        self.n_put += len(self._pending_handlers)
        super().async_update_records_complete()


class _Listener(ServiceListener):
    def __init__(self, live, bid):
        self.live = live
        self.bid = bid

    def _cb(self, ch, zc, type_, name):
        seen = None
        if ch == "A":
            ent = [r for r in zc.cache.entries_with_name(type_) if isinstance(r, DNSPointer) and r.type == K._TYPE_PTR and r.alias == name]
            seen = bool(ent) and zc.cache.get_by_details(type_, K._TYPE_PTR, K._CLASS_IN) is not None
        self.live.cbs.append((self.bid, ch, type_, name, seen, None))
        self.live.delivered[self.bid] = self.live.delivered.get(self.bid, 0) + 1

    def add_service(self, zc, type_, name):
        self._cb("A", zc, type_, name)

    def remove_service(self, zc, type_, name):
        self._cb("R", zc, type_, name)

    def update_service(self, zc, type_, name):
        self._cb("U", zc, type_, name)


class Live:
    def __init__(self, seed):
        self.seed = seed
        self.cbs = []
        self.delivered = {}
        self.browsers = {}
        self.stalled = None

    def _ptr_view(self, zc):
        out = {}
        for k in zc.cache.names():
            al = sorted(r.alias.lower() for r in zc.cache.entries_with_name(k) if isinstance(r, DNSPointer) and r.type == K._TYPE_PTR)
            if al:
                out[k] = al
        return out

    def _drain(self):
        """wait (real time) until every delivery thread has delivered what was queued for it"""
        waited = False
        for bid, b in self.browsers.items():
            if not isinstance(b, _CountingThreadBrowser):
                continue
            end = time.perf_counter() + THREAD_WAIT_S
            while self.delivered.get(bid, 0) < b.n_put:
                waited = True
                if time.perf_counter() > end:
                    self.stalled = "browser %d: %d events queued for the delivery thread, %d delivered after %.0f s" % (
                        bid, b.n_put, self.delivered.get(bid, 0), THREAD_WAIT_S)
                    STALLS[0] += 1
                    b.n_put = self.delivered.get(bid, 0)   # reported once
                    break
                time.sleep(0.0002)
        if waited:
            time.sleep(THREAD_GRACE_S)

    def run(self, ops):
        sim = vsim.Sim(seed=self.seed, maxdelay=0)
        out = []
        if ops:
            ops = ops + [["X", max([CC.op_time(o) or CC.T0 for o in ops]) + 11000]]   # a last cleanup tick
        self.ops = ops

        async def main(sim):
            host = sim.make_host("L", "10.0.0.1")
            zc = host.zc
            await zc.async_wait_for_start()
            n_err = 0
            for op in ops:
                k = op[0]
                t = CC.op_time(op)
                self.cbs = []
                err = None
                try:
                    if t is not None:
                        await sim.sleep_until(t - vsim.T0)      # the cleanup timer and the query schedulers run in between
                    if k in ("D", "W"):
                        oo = CC.op_opts(op)
                        data = bytes(CC.payload_of(op[2], oo.get("sec")))
                        host.deliver(data, ("fe80::9", 5353, 0, 0) if oo.get("src6") else ("10.0.0.9", 5353))
                    elif k == "BA":
                        bid = op[1]
                        old = self.browsers.pop(bid, None)
                        if old is not None:
                            await self._cancel(old)
                        lst = _Listener(self, bid)
                        if bid % 2 == 0:
                            b = AsyncServiceBrowser(zc, list(op[3]), listener=lst)
                        elif len(op[3]) == 1:
                            # the sync convenience API: Zeroconf.add_service_listener(type, listener) builds the ServiceBrowser
                            with mock.patch.object(_zc_core, "ServiceBrowser", _CountingThreadBrowser):
                                zc.add_service_listener(op[3][0], lst)
                            b = zc.browsers[lst]
                            b.via_listener_api = lst
                        else:
                            b = _CountingThreadBrowser(zc, list(op[3]), listener=lst)
                        self.browsers[bid] = b
                        self.delivered[bid] = 0
                    elif k == "BR":
                        b = self.browsers.pop(op[1], None)
                        if b is not None:
                            await self._cancel(b)
                    for _ in range(3):
                        await asyncio.sleep(0)                 # call_soon_threadsafe(_async_start / _async_cancel) of the threaded flavour
                    self._drain()
                except Exception as ex:  # noqa: BLE001 -- an exception out of the library is an observation
                    err = type(ex).__name__
                    errmsg = repr(ex)[:200]
                if err is None and len(sim.errors) > n_err:
                    ctx = sim.errors[n_err]
                    ex = ctx.get("exception")
                    err = type(ex).__name__ if ex is not None else "LoopError"
                    errmsg = (repr(ex) if ex is not None else str(ctx.get("message")))[:200]
                n_err = len(sim.errors)
                if err is None and self.stalled:
                    err, errmsg, self.stalled = "DeliveryThreadStalled", self.stalled, None
                o = {"k": k, "err": err, "cb": list(self.cbs), "cb2": None, "P": self._ptr_view(zc), "S": None, "R": None}
                if err:
                    o["errmsg"] = errmsg
                out.append(o)
                if err:
                    break
            for b in list(self.browsers.values()):
                await self._cancel(b)
            self.browsers.clear()
            await vsim.close_host(host)

        sim.run(main)
        return out

    async def _cancel(self, b):
        if getattr(b, "via_listener_api", None) is not None:
            b.zc.remove_service_listener(b.via_listener_api)      # -> ServiceBrowser.cancel()
            await asyncio.sleep(0)
            await asyncio.sleep(0)
        elif isinstance(b, _CountingThreadBrowser):
            b.cancel()           # queue.put(None), call_soon_threadsafe(_async_cancel), join
            await asyncio.sleep(0)
            await asyncio.sleep(0)
        else:
            await b.async_cancel()


def run_live(seed, ops):
    """observations (one per op, plus one for the final 11 s of quiet) of a history on a real instance"""
    live = Live(seed)
    obs = live.run([list(o) for o in ops])
    return live.ops, obs
