"""Message generator and (de)serialisation shared by C01, C14 (and usable by C02/C13)."""
from __future__ import annotations

from . import common as C

LOCAL = "local."


def labels_of(name: str):
    """what write_name does with a text name: strip one trailing dot, split on dots"""
    if name.endswith("."):
        name = name[:-1]
    return [l.encode("utf-8") for l in name.split(".")]


def name_tok_labels(name: str) -> str:
    """label-list token: the harness splits and encodes (the old way; kept for names that are not text)"""
    ls = labels_of(name)
    return ".".join(C.hx(l) for l in ls)


def name_tok(name: str) -> str:
    """text token `=<hex of the UTF-8 of the str>`: the *model* strips the trailing dot, splits at dots and encodes each
    label (Zc.NameText.labelsOfText) -- the harness no longer does write_name's text work for the model"""
    try:
        return "=" + C.hx(name.encode("utf-8"))
    except UnicodeEncodeError:
        return name_tok_labels(name)  # a lone surrogate is not text; the builder raises on it anyway


def canonical(name: str) -> str:
    """the spelling _read_name gives back: exactly one trailing dot"""
    return (name[:-1] if name.endswith(".") else name) + "."


def text_of_tok(tok: str) -> str:
    """a `=<hex>` token of the driver back to a str"""
    assert tok.startswith("="), tok
    return C_unhex(tok[1:]).decode("utf-8")


def wname_tok(labels) -> str:
    return "." if not labels else ".".join(C.hx(l) for l in labels)


def parse_wname(tok):
    if tok == ".":
        return []
    return [b"" if t == "-" else bytes.fromhex(t) for t in tok.split(".")]


class Ent:
    """a generated question/record, independent of the library's classes"""

    def __init__(self, kind, name, type_, class_, unique, ttl=0, created=0, now=0, rd=None):
        self.kind, self.name, self.type, self.class_, self.unique = kind, name, type_, class_, unique
        self.ttl, self.created, self.now, self.rd = ttl, created, now, rd

    # --- the library object
    def to_lib(self):
        from zeroconf import _dns as d

        cls = self.class_ | (0x8000 if self.unique else 0)
        if self.kind == "q":
            return d.DNSQuestion(self.name, self.type, cls)
        cr = float(self.created)
        rd = self.rd
        if self.kind == "a":
            return d.DNSAddress(self.name, self.type, cls, self.ttl, rd[0], created=cr)
        if self.kind == "p":
            return d.DNSPointer(self.name, self.type, cls, self.ttl, rd[0], created=cr)
        if self.kind == "t":
            return d.DNSText(self.name, self.type, cls, self.ttl, rd[0], created=cr)
        if self.kind == "s":
            return d.DNSService(self.name, self.type, cls, self.ttl, rd[0], rd[1], rd[2], rd[3], created=cr)
        if self.kind == "h":
            return d.DNSHinfo(self.name, self.type, cls, self.ttl, rd[0], rd[1], created=cr)
        if self.kind == "n":
            return d.DNSNsec(self.name, self.type, cls, self.ttl, rd[0], list(rd[1]), created=cr)
        raise ValueError(self.kind)

    # --- model line (ERecord.parse / EQuestion.parse)
    def rd_tok(self):
        rd = self.rd
        if self.kind == "a":
            return "a %s" % C.hx(rd[0])
        if self.kind == "p":
            return "p %s" % name_tok(rd[0])
        if self.kind == "t":
            return "t %s" % C.hx(rd[0])
        if self.kind == "s":
            return "s %d %d %d %s" % (rd[0], rd[1], rd[2], name_tok(rd[3]))
        if self.kind == "h":
            return "h %s %s" % (C.hs(rd[0]), C.hs(rd[1]))
        if self.kind == "n":
            return "n %s %s" % (name_tok(rd[0]), C.natlist(sorted(rd[1])))
        raise ValueError(self.kind)

    def tok(self):
        if self.kind == "q":
            return "%s %d %d %s" % (name_tok(self.name), self.type, self.class_, C.b01(self.unique))
        return "%s %d %d %s %d %d %s" % (name_tok(self.name), self.type, self.class_, C.b01(self.unique), self.ttl, self.created, self.rd_tok())

    # --- what must come back (independent of both model and library): canonical tuples
    def expect(self, multicast):
        cls = self.class_ | (0x8000 if (self.unique and multicast) else 0)
        if self.kind == "q":
            return ("q", tuple(labels_of(self.name)), self.type, cls)
        if self.now == 0:
            ttl = self.ttl
        else:
            rem = self.created + 1000 * self.ttl - self.now
            ttl = 0 if rem < 0 else rem // 1000
        rd = self.rd
        k = self.kind
        if k == "a":
            w = ("a", rd[0])
        elif k == "p":
            w = ("p", tuple(labels_of(rd[0])))
        elif k == "t":
            w = ("t", rd[0])
        elif k == "s":
            w = ("s", rd[0], rd[1], rd[2], tuple(labels_of(rd[3])))
        elif k == "h":
            w = ("h", rd[0].encode(), rd[1].encode())
        else:
            w = ("n", tuple(labels_of(rd[0])), tuple(sorted(set(rd[1]))))
        return ("r", tuple(labels_of(self.name)), self.type, cls, ttl, w)

    def expect_text(self, multicast):
        """what must come back, names as the *strings* handed to the builder (with one trailing dot)"""
        e = self.expect(multicast)
        if self.kind == "q":
            return ("q", canonical(self.name), e[2], e[3])
        rd, k, w = self.rd, self.kind, e[5]
        if k == "p":
            w = ("p", canonical(rd[0]))
        elif k == "s":
            w = ("s", rd[0], rd[1], rd[2], canonical(rd[3]))
        elif k == "n":
            w = ("n", canonical(rd[0]), w[2])
        return ("r", canonical(self.name), e[2], e[3], e[4], w)

    def labels(self):
        out = list(labels_of(self.name))
        if self.kind == "p":
            out += labels_of(self.rd[0])
        elif self.kind == "s":
            out += labels_of(self.rd[3])
        elif self.kind == "n":
            out += labels_of(self.rd[0])
        return out

    def names(self):
        out = [self.name]
        if self.kind == "p":
            out.append(self.rd[0])
        elif self.kind == "s":
            out.append(self.rd[3])
        elif self.kind == "n":
            out.append(self.rd[0])
        return out

    def max_wire_len(self):
        """octets of the longest name written without compression (length bytes + label bytes + root): RFC 1035 allows 255"""
        return max(sum(len(l) + 1 for l in labels_of(n)) + 1 for n in self.names())

    def uncompressed_size(self):
        def nlen(n):
            return sum(len(l) + 1 for l in labels_of(n)) + 1

        if self.kind == "q":
            return nlen(self.name) + 4
        rd = self.rd
        k = self.kind
        if k in "at":
            r = len(rd[0])
        elif k == "p":
            r = nlen(rd[0])
        elif k == "s":
            r = 6 + nlen(rd[3])
        elif k == "h":
            r = 2 + len(rd[0].encode()) + len(rd[1].encode())
        else:
            r = nlen(rd[0]) + 2 + (max(rd[1]) // 8 + 1 if rd[1] else 0)
        return nlen(self.name) + 10 + r

    def in_quantifier(self, dotless_ok=False):
        """well-formedness of the property's quantifier, except label lengths.  `dotless_ok` (C14, whose quantifier says nothing
        about the spelling of names): a name handed over without its trailing dot is written like the same name with it"""
        names = [self.name]
        if self.kind == "p":
            names.append(self.rd[0])
        elif self.kind == "s":
            names.append(self.rd[3])
        elif self.kind == "n":
            names.append(self.rd[0])
        for n in names:
            if not n.endswith("."):
                if not dotless_ok or n == "":
                    return False
                n = n + "."
            if len(n) > 253 or n == "." or any(len(l) == 0 for l in labels_of(n)):
                return False
        if not (0 <= self.type < 65536 and 0 <= self.class_ < 32768):
            return False
        if self.kind == "q":
            return True
        if not (0 <= self.ttl < 2**32):
            return False
        if self.now != 0 and self.created + 1000 * self.ttl - self.now >= 1000 * 2**32:
            # the *remaining* TTL does not fit the 32-bit field: only when `now` lies before `created` (a record from the
            # future); outside the quantifier (reading named in DESIGN / `WFRec`), byte-exact differential only (struct.error)
            return False
        rd = self.rd
        k = self.kind
        if k == "a":
            ok = (self.type == 1 and len(rd[0]) == 4) or (self.type == 28 and len(rd[0]) == 16)
        elif k == "p":
            ok = self.type in (12, 5)
        elif k == "t":
            ok = self.type == 16
        elif k == "s":
            ok = self.type == 33 and all(0 <= x < 65536 for x in rd[:3])
        elif k == "h":
            ok = self.type == 13 and len(rd[0].encode()) <= 255 and len(rd[1].encode()) <= 255
        else:
            ok = self.type == 47 and len(rd[1]) > 0 and all(0 <= t <= 255 for t in rd[1]) and len(set(rd[1])) == len(rd[1])
        return ok and self.uncompressed_size() + 12 <= 8966


class BuilderDoesNotTerminate(Exception):
    pass


_EMPTY_QUERY = []


def empty_query():
    """a DNSIncoming of a query without questions or known answers (the `inp` of `DNSOutgoing.add_answer`)"""
    if not _EMPTY_QUERY:
        from zeroconf import DNSIncoming, DNSOutgoing

        _EMPTY_QUERY.append(DNSIncoming(DNSOutgoing(0).packets()[0]))
    return _EMPTY_QUERY[0]


class GenMsg:
    def __init__(self, flags, id_, multicast, qs, an, au, ad):
        self.flags, self.id, self.multicast = flags, id_, multicast
        self.qs, self.an, self.au, self.ad = qs, an, au, ad

    def to_lib(self):
        from zeroconf import DNSOutgoing

        limit = len(self.qs) + len(self.an) + len(self.au) + len(self.ad) + 4

        class Guarded(DNSOutgoing):
            """a builder that makes progress emits at most one datagram per entry (+1); a seeded defect made
            packets() loop forever, which must be an observation, not a hang of the check"""

            __slots__ = ("n_resets",)

            def _reset_for_next_packet(self):
                self.n_resets = getattr(self, "n_resets", 0) + 1
                if self.n_resets > limit:
                    raise BuilderDoesNotTerminate("packets() started datagram %d for %d entries" % (self.n_resets + 1, limit - 4))
                super()._reset_for_next_packet()

        # `objs` (set by the harness on a message and its "twin" in the other mode): the library's entry objects are made once
        # and handed to both builders -- as the library itself does with the records of its registry, which go out multicast and
        # unicast.  Whatever a builder leaves on an entry object must not show in the next message.
        objs = getattr(self, "objs", None)

        def lib(e):
            if objs is None:
                return e.to_lib()
            if id(e) not in objs:
                objs[id(e)] = e.to_lib()
            return objs[id(e)]

        out = Guarded(self.flags, self.multicast, self.id)
        for q in self.qs:
            out.add_question(lib(q))
        for r in self.an:
            if getattr(self, "via_add_answer", False) and not r.now:
                # `add_answer(inp, record)`: the answer is filed unless the query `inp` already knows it; `inp` here is a
                # query without known answers, so this is add_answer_at_time(record, 0) by another door
                out.add_answer(empty_query(), lib(r))
            else:
                out.add_answer_at_time(lib(r), float(r.now) if r.now else 0)
        for r in self.au:
            out.add_authorative_answer(lib(r))
        for r in self.ad:
            out.add_additional_answer(lib(r))
        return out

    def twin(self):
        """the same entries (the same `Ent` objects, hence -- with a shared `objs` -- the same library objects) in a message of
        the other mode: multicast <-> unicast, another id"""
        t = GenMsg(self.flags, (self.id + 1) % 65536 or 1, not self.multicast, self.qs, self.an, self.au, self.ad)
        t.objs = self.objs
        t.via_add_answer = getattr(self, "via_add_answer", False)
        return t

    def tok(self):
        parts = ["%d %d %s" % (self.flags, self.id, C.b01(self.multicast)), str(len(self.qs))] + [q.tok() for q in self.qs]
        parts.append(str(len(self.an)))
        parts += ["%s %d" % (r.tok(), r.now) for r in self.an]
        parts.append(str(len(self.au)))
        parts += [r.tok() for r in self.au]
        parts.append(str(len(self.ad)))
        parts += [r.tok() for r in self.ad]
        return " ".join(parts)

    def accepted_answers(self):
        return [r for r in self.an if r.now == 0 or not (r.created + 1000 * r.ttl <= r.now)]

    def expect(self):
        mc = self.multicast
        return ([q.expect(mc) for q in self.qs], [r.expect(mc) for r in self.accepted_answers()],
                [r.expect(mc) for r in self.au], [r.expect(mc) for r in self.ad])

    def expect_text(self):
        mc = self.multicast
        return ([q.expect_text(mc) for q in self.qs], [r.expect_text(mc) for r in self.accepted_answers()],
                [r.expect_text(mc) for r in self.au], [r.expect_text(mc) for r in self.ad])

    def entries(self):
        return self.qs + self.an + self.au + self.ad

    def in_quantifier(self, dotless_ok=False):
        return 0 <= self.flags < 65536 and 0 <= self.id < 65536 and all(e.in_quantifier(dotless_ok) for e in self.entries())

    def handed_to_builder(self):
        """an answer that is already expired at its `now` is dropped by add_answer_at_time: the builder never sees its names"""
        return self.qs + self.accepted_answers() + self.au + self.ad

    def max_label(self):
        return max((len(l) for e in self.handed_to_builder() for l in e.labels()), default=0)

    def max_wire_len(self):
        return max((e.max_wire_len() for e in self.handed_to_builder()), default=0)

    def describe(self):
        return {"flags": self.flags, "id": self.id, "multicast": self.multicast, "line": self.tok()}


def parse_wmsg(line, text=False):
    """parse `WMsg.toLine` into (id, flags, [q], [an], [au], [ad]) of canonical tuples; with `text`, the line is the
    driver's `stricttext` view: every name is the token `=<hex>` of the str the decoder shows, and stays a str"""
    t = line.split()
    pos = [0]
    wn = text_of_tok if text else (lambda tok: tuple(parse_wname(tok)))

    def nx():
        pos[0] += 1
        return t[pos[0] - 1]

    def rdata():
        k = nx()
        if k == "a":
            return ("a", C_unhex(nx()))
        if k == "p":
            return ("p", wn(nx()))
        if k == "t":
            return ("t", C_unhex(nx()))
        if k == "s":
            p, w, q = int(nx()), int(nx()), int(nx())
            return ("s", p, w, q, wn(nx()))
        if k == "h":
            return ("h", C_unhex(nx()), C_unhex(nx()))
        if k == "n":
            n = wn(nx())
            ts = nx()
            return ("n", n, tuple(int(x) for x in ts.split(",")) if ts != "-" else ())
        if k == "o":
            return ("o", C_unhex(nx()))
        raise ValueError(k)

    mid, flags = int(nx()), int(nx())
    qs = []
    for _ in range(int(nx())):
        n = wn(nx())
        qs.append(("q", n, int(nx()), int(nx())))
    secs = []
    for _ in range(3):
        s = []
        for _ in range(int(nx())):
            n = wn(nx())
            ty, cl, ttl = int(nx()), int(nx()), int(nx())
            s.append(("r", n, ty, cl, ttl, rdata()))
        secs.append(s)
    return mid, flags, qs, secs[0], secs[1], secs[2]


def C_unhex(s):
    return b"" if s == "-" else bytes.fromhex(s)


def lib_record_tuple(r):
    """canonical tuple of a record decoded by the library (names re-split into labels)"""
    from zeroconf import _dns as d

    cls = r.class_ | (0x8000 if r.unique else 0)
    if isinstance(r, d.DNSAddress):
        w = ("a", r.address)
    elif isinstance(r, d.DNSPointer):
        w = ("p", tuple(labels_of(r.alias)))
    elif isinstance(r, d.DNSText):
        w = ("t", r.text)
    elif isinstance(r, d.DNSService):
        w = ("s", r.priority, r.weight, r.port, tuple(labels_of(r.server)))
    elif isinstance(r, d.DNSHinfo):
        w = ("h", r.cpu.encode(), r.os.encode())
    elif isinstance(r, d.DNSNsec):
        w = ("n", tuple(labels_of(r.next_name)), tuple(sorted(set(r.rdtypes))))
    else:
        raise TypeError(type(r))
    return ("r", tuple(labels_of(r.name)), r.type, cls, int(r.ttl), w)


def lib_record_tuple_text(r):
    """canonical tuple of a record decoded by the library, names as the strs the library shows"""
    t = lib_record_tuple(r)
    from zeroconf import _dns as d

    w = t[5]
    if isinstance(r, d.DNSPointer):
        w = ("p", r.alias)
    elif isinstance(r, d.DNSService):
        w = ("s", r.priority, r.weight, r.port, r.server)
    elif isinstance(r, d.DNSNsec):
        w = ("n", r.next_name, w[2])
    return ("r", r.name, t[2], t[3], t[4], w)


def lib_question_tuple_text(q):
    return ("q", q.name, q.type, q.class_ | (0x8000 if q.unique else 0))


def lib_question_tuple(q):
    return ("q", tuple(labels_of(q.name)), q.type, q.class_ | (0x8000 if q.unique else 0))


# ------------------------------------------------------------------------------------------
# generation


class Gen:
    def __init__(self, rng, malformed=False):
        self.rng = rng
        self.malformed = malformed
        r = rng
        # a vocabulary of labels with shared suffixes, case variants, non-ASCII, boundary lengths
        # "_http._tcp.\U0001F600.local." / "h.\U0001F600home.local.": 4-byte UTF-8 (astral) characters in a label that is *not* the
        # first one, so that suffixes containing it are registered in the names table and pointed to
        self.types = ["_http._tcp.local.", "_HTTP._tcp.local.", "_x._udp.local.", "_printer._sub._http._tcp.local.", "local.",
                      "_http._tcp.\U0001F600.local."]
        # "\ufffd": text that contains U+FFFD (what 'replace' decoding leaves behind) is ordinary text for the encoder
        base = ["foo", "Foo", "FOO", "bar", "My Service", "é日本", "a", "x" * 62, "y" * 63, "é" * 31, "ü" * 31 + "z", "b-1", "7",
                "\ufffd", "a\ufffdb", "\ufffd" * 21, "\U0001f600x",
                "\U0001F600", "a\U0001F600b", "\U0001F600" * 15 + "abc", "\U00010000\U0010FFFF",
                # text that is not in Unicode normal form C (a normalising encoder changes the spelling): e + combining acute,
                # OHM SIGN / ANGSTROM SIGN (singletons), Hangul jamo, a ligature (NFKC only); white space at the ends of a label
                "cafe\u0301", "e\u0301", "\u2126hm", "\u212b", "\u1112\u1161\u11ab", "\ufb01n", " a ", "\ta", "a\u00a0",
                # label lengths between the short vocabulary and the 62/63 boundary, drawn per run
                "k" * r.randint(11, 61), "K" * r.randint(11, 61), "é" * r.randint(6, 30) + "m", "\U0001F600" * r.randint(3, 15)]
        if malformed:
            base += ["z" * 64, "w" * 65, "v" * 100, "u" * 300, "é" * 32, "", "\U0001F600" * 16]
        self.labels = base
        self.hosts = ["host.local.", "Host.local.", "other-host.local.", "h" * 63 + ".local.", "日本.local.", "h.\U0001F600home.local.",
                      "h.cafe\u0301.local."]
        # the stem of the many-label names of this run (they share long suffixes with each other)
        self.stem = r.choice(["a", "b7", "é"])
        self.d21 = False  # set per message: names of more than 255 wire octets (finding D21) only in a minority of messages
        # text-layer corner cases of write_name (outside the quantifier; byte-exact differential only): the empty string and
        # '.' (both the label list [''], written 00 00), empty labels in the middle / in front, two trailing dots (only one
        # is dropped), a name without trailing dot
        self.odd_names = ["", ".", "..", "a..b", ".a", "a.b..", "a.b", "local", "é..", "x." * 5]
        self.nodot = False  # set per message: some of its names are spelled without the trailing dot

    def name(self):
        n = self.name_()
        if self.nodot and n.endswith(".") and self.rng.random() < 0.3:
            return n[:-1]  # write_name treats 'a.local' like 'a.local.'; the decoder returns 'a.local.'
        return n

    def name_(self):
        r = self.rng
        k = r.random()
        if self.malformed and k > 0.93:
            return r.choice(self.odd_names)
        if k < 0.15:
            return r.choice(self.types)
        if k < 0.3:
            return r.choice(self.hosts)
        lab = r.choice(self.labels)
        if r.random() < 0.1:
            lab = lab + "." + r.choice(self.labels)  # a dot inside the instance label
        n = lab + "." + r.choice(self.types)
        if r.random() < 0.05:
            n = r.choice(self.labels) + "." + n
        if not self.malformed and len(n) > 253:
            return r.choice(self.types)
        return n

    def rdname(self):
        """a name inside rdata; the malformed stream also uses the root name '.', which the builder writes as 00 00
        (outside the quantifier: 'no empty labels'; byte-exact differential only)"""
        if self.malformed and self.rng.random() < 0.15:
            return "."
        return self.name()

    def long_name(self, d21=False):
        """a name close to the 253-character / 255-octet limits, labels of every length 1..63.  With `d21` the non-ASCII
        labels may push it beyond 255 wire octets (still <= 253 characters: inside the property's quantifier, finding D21)"""
        r = self.rng
        parts = []
        chars = len("local.")
        octets = 7  # 05 'local' 00
        while True:
            k = r.random()
            if k < 0.45:
                l = "a" * r.randint(1, 63)
            elif k < 0.75:
                l = r.choice("éü") * r.randint(1, 31)
            elif k < 0.85:
                l = "\U0001F600" * r.randint(1, 15)
            else:
                l = "q"
            if chars + len(l) + 1 > 253:
                break
            if not d21 and octets + len(l.encode("utf-8")) + 1 > 255:
                break
            parts.append(l)
            chars += len(l) + 1
            octets += len(l.encode("utf-8")) + 1
        return ".".join(parts + ["local."])

    def many_labels(self):
        """a name of 24..~120 short labels (<= 253 characters, <= 255 octets): the label-count dimension of the quantifier
        (`WFName` allows 128, the library's decoder MAX_DNS_LABELS).  Names of one run share their long suffix."""
        r = self.rng
        unit = len(self.stem) + 1
        kmax = (253 - len("local.") - 8) // unit
        if len(self.stem.encode("utf-8")) > len(self.stem):
            kmax = (255 - 7 - 10) // (len(self.stem.encode("utf-8")) + 1)
        k = r.choice([24, 62, 63, 64, 65, 100, kmax, r.randint(24, kmax)])
        k = min(k, kmax)
        head = r.choice(["", "x.", "y.z.", "Q."])
        return head + (self.stem + ".") * k + "local."

    def u16(self):
        r = self.rng
        return r.choice([0, 1, 255, 256, 257, 0x1234, 0xFF00, 65535, r.randint(0, 65535)])

    def ttl(self):
        return self.rng.choice([0, 1, 2, 120, 4500, 4500, 120, 2**32 - 1, self.rng.randint(0, 2**32 - 1), 1125])

    def cls(self):
        # 256 / 0x0101 / 0x7FFF: classes above 255, which a narrower class mask would lose
        return self.rng.choice([1, 1, 1, 1, 255, 3, 256, 0x0101, 0x7FFF, 0, 0x7F00, self.rng.randint(0, 0x7FFF)])

    def record(self, kind=None, txt_len=None):
        r = self.rng
        kind = kind or r.choice("aaapppttsssshn")
        k = r.random()
        # long_name: <= 255 wire octets (the D21 names are placed by message()); many_labels: up to ~120 labels
        name = self.name() if k > 0.04 else (self.long_name() if k > 0.012 else self.many_labels())
        unique = r.random() < 0.5
        ttl = self.ttl()
        created = r.choice([1000, 1_000_000, 123456])
        if kind == "a":
            if r.random() < 0.5:
                return Ent("a", name, 1, self.cls(), unique, ttl, created, 0, (bytes(r.randrange(256) for _ in range(4)),))
            return Ent("a", name, 28, self.cls(), unique, ttl, created, 0, (bytes(r.randrange(256) for _ in range(16)),))
        if kind == "p":
            return Ent("p", name, r.choice([12, 12, 12, 5]), self.cls(), unique, ttl, created, 0, (self.rdname(),))
        if kind == "t":
            n = txt_len if txt_len is not None else r.choice([0, 1, 5, 20, 100, 255, 256, 600, r.randint(0, 1500)])
            return Ent("t", name, 16, self.cls(), unique, ttl, created, 0, (r.randbytes(n),))
        if kind == "s":
            port = r.choice([0, 80, 127, 128, 65535, r.randint(0, 65535), self.u16()])
            return Ent("s", name, 33, self.cls(), unique, ttl, created, 0, (self.u16(), self.u16(), port, r.choice(self.hosts + [name, self.rdname()])))
        if kind == "h":
            mx = 300 if self.malformed else 255
            cpu = r.choice(["", "cpu", "é" * 20, "c" * r.choice([254, 255, mx])])
            os_ = r.choice(["", "os", "ö" * 20, "日本語", "o" * r.choice([1, 255, mx])])
            return Ent("h", name, 13, self.cls(), unique, ttl, created, 0, (cpu, os_))
        k = r.random()
        if k < 0.5:
            types = sorted(set(r.sample(range(0, 256), r.randint(1, 6))))
        elif k < 0.6:
            types = sorted(set([0] + r.sample(range(0, 256), r.randint(0, 4))))  # rdtype 0: the first bit of the bitmap
        elif k < 0.75:
            types = sorted(set(r.sample(range(0, 256), r.randint(31, 40))))  # more types than a bitmap has octets
        else:
            types = [1, 28]
        if self.malformed and r.random() < 0.3:
            types = r.choice([[], [256], [1, 300]])
        return Ent("n", name, 47, self.cls(), unique, ttl, created, 0, (r.choice([name, self.name()]), types))

    def question(self):
        r = self.rng
        qt = r.choice([12, 1, 28, 33, 16, 255, 47, 12, 1, 256, 0x010C, 0xFF01, 65535, 0, r.randint(0, 65535)])
        k = r.random()
        return Ent("q", self.name() if k > 0.03 else (self.long_name() if k > 0.01 else self.many_labels()), qt, self.cls(), r.random() < 0.4)

    def qsplit_message(self):
        """a query that has to split **inside its question section**: 100-160 questions whose names share no suffix (nothing to
        compress), most of them spelled without the trailing dot (write_name writes them like the dotted spelling, one octet more
        than the characters of the str).  `pad` (the length of the first label) is steered by `c01.qsplit_seek` so that the first
        datagram ends exactly on / one octet beyond the 1460 limit."""
        r = self.rng
        nq = r.randint(100, 160)
        tag = r.choice(["h", "q", "é"])
        qs = [Ent("q", "x" * r.randint(1, 20) + ".first" + r.choice(["", "."]), r.choice([1, 12, 28]), 1, r.random() < 0.3)]
        for i in range(nq):
            n = "%s%03d.n%03d" % (tag, i, i)
            qs.append(Ent("q", n if r.random() < 0.7 else n + ".", r.choice([1, 12, 28, 255]), 1, r.random() < 0.3))
        flags = r.choice([0, 0, 0x0100])
        an = [self.record() for _ in range(r.choice([0, 0, 2]))]
        return GenMsg(flags, r.choice([0, 1, 0xFFFF]), r.random() < 0.6, qs, an, [], [])

    def message(self, size_class=None):
        r = self.rng
        self.nodot = r.random() < (0.3 if self.malformed else 0.04)
        query = r.random() < 0.4
        # a TC bit given by the caller (0x0200) is transmitted as given
        # any 16-bit flags word: RD / RA / opcode / rcode bits given by the caller are transmitted as given
        flags = (r.choice([0, 0, 0x0400, 0x0200, 0x0100, 0x0110, 0x7DFF, r.randint(0, 0x7FFF)]) if query
                 else r.choice([0x8400, 0x8400, 0x8000, 0x8600, 0x8100, 0x8580, 0xFDFF, 0x8000 | r.randint(0, 0x7FFF)]))
        multicast = r.random() < 0.7
        mid = r.choice([0, 1, 0xFFFF, r.randint(0, 0xFFFF)])
        sc = size_class or r.choice(["tiny", "small", "small", "medium", "large", "oversize-entry"])

        def count(hi):
            return r.choice([0, 0, 1, 2, r.randint(0, hi)])

        if sc == "tiny":
            nq, nan, nau, nad = count(2), count(2), count(1), count(2)
        elif sc == "small":
            nq, nan, nau, nad = count(4), count(8), count(3), count(8)
        elif sc == "medium":
            nq, nan, nau, nad = count(40), count(60), count(10), count(60)
        elif sc == "large":
            nq, nan, nau, nad = count(300), count(400), count(300), count(300)
        else:
            nq, nan, nau, nad = count(2), count(3), count(1), count(3)
        qs = [self.question() for _ in range(nq)]
        an = [self.record() for _ in range(nan)]
        for a in an:
            if r.random() < 0.3:
                # remaining-TTL path: now > 0, around the expiry instant
                a.now = a.created + r.choice([0, 1, 999, 1000, 1001, 500 * a.ttl, 1000 * a.ttl - 1, 1000 * a.ttl, 1000 * a.ttl + 1, r.randint(0, 5_000_000),
                                              # `now` before `created`: the remaining TTL exceeds the TTL (and, for TTLs near 2^32, the field)
                                              -1, -999, -1000, -1001, -r.randint(1, 900)])
                if a.now <= 0:
                    a.now = 1
        au = [self.record(kind=r.choice("ppps") if r.random() < 0.5 else None) for _ in range(nau)]
        ad = [self.record() for _ in range(nad)]
        if sc == "oversize-entry" or r.random() < 0.15:
            # one big TXT: the single entry allowed over 1460, and the 8966 boundary
            tgt = r.choice([1400, 1460, 1470, 3000, 8000, 8900, 8966])
            big = self.record("t", txt_len=max(0, tgt - 40 + r.randint(-30, 30)))
            r.choice([an, ad])[:0] = [big] if r.random() < 0.5 else []
            if big not in an and big not in ad:
                ad.append(big)
        # names of more than 255 wire octets (finding D21): in a minority of the messages, rarer in the multi-datagram classes,
        # so that most large messages are inside the theorems' quantifier (they are judged either way, datagram by datagram)
        self.d21 = not self.malformed and r.random() < (0.02 if sc in ("medium", "large") else 0.07)
        if self.d21:
            pool = qs + an + au + ad
            for e in (r.sample(pool, min(len(pool), r.choice([1, 1, 2]))) if pool else []):
                e.name = self.long_name(d21=True)
        gm = GenMsg(flags, mid, multicast, qs, an, au, ad)
        gm.via_add_answer = r.random() < 0.15
        return gm
