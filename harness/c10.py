"""C10 -- browser refresh scheduling: correspondence (real QueryScheduler vs the Lean model, op by op,
under the virtual-time loop) + the property's own sentence evaluated on what the real browser sent.

Two streams, one instrumentation (`Recorder`, class-level wrappers, no source hooks):
  sched    a bare `QueryScheduler` driven directly (arbitrary TTLs/creation times, cancel, stop, closed instance)
  browser  a full `AsyncServiceBrowser` fed PTR responses through the record manager (learn, refresh,
           re-cased refresh, goodbye, expiry); the scheduler calls it makes are logged and replayed in the model
Stage C compares, after every block: sends (time, first flag, question type, types), the armed timer,
the start-up counter, the dict `_next_scheduled_for_alias` (key -> object) and every entry of `_query_heap` with its `cancelled` flag.  Stage O is `oracle()` below.
"""
from __future__ import annotations

import functools
from unittest import mock

from . import common as C
from . import vsim

TRACE = True
TRUSTED = [
    "C10: asyncio timer semantics are replaced by harness/vsim.py (a timer fires at exactly its due millisecond unless the case asks for "
    "seeded lateness; timers due at the same instant run in the order they were armed, as in asyncio)",
    "C10: sub-millisecond float effects (clock resolution 1e-6 ms, ttl*1000*0.1) are not modelled; the harness flags any non-integral schedule time",
    "C10: heapq is abstracted as an ascending list (pop a minimum); cancelled heap entries tied in `when` with an entry both sides hold may differ (heapq layout)",
    "C10: which reschedule/cancel call _ServiceBrowserBase.async_update_records makes for a record update (old is None / expired / else) is not modelled: "
    "the model replays the calls that were made, so that glue is judged by the oracle alone (datagrams and callbacks)",
    "C10: async_send is assumed not to raise inside a scheduler pass (the D8b input is repaired at the decoder, see C15)",
]
ASSUMPTIONS = ["loop axioms WFSched (DESIGN 4.7): time is monotone, no due timer is passed, a timer block runs at its due time "
               "(stage C and every theorem); cases with \"late\": n run the real code on a loop whose timers fire a seeded 0..n ms late and are "
               "judged by the oracle alone: lower bounds (20 ms, start-up steps, the inter-query delay) exactly, upper bounds plus n ms per timer involved",
               "a browser given a unicast destination address sets the unicast-response bit on every question unless QM is forced; the property fixes "
               "the first query and the forced case only, later unforced queries of such a browser are not judged"]
MDNS_GROUP = ("224.0.0.251", "ff02::fb")

T0 = vsim.T0
TYPES = ["_x._tcp.local.", "_y._tcp.local."]


# ------------------------------------------------------------------------------------------
# instrumentation


class Recorder:
    """logs the atomic blocks of ONE QueryScheduler: op line, sends, state after"""

    def __init__(self, sim):
        self.sim = sim
        self.target = None
        self.events = []
        self.cur = None
        self.flags = []
        self.fired = None  # the handle whose callback is running / has run
        self.asked = []    # (time, [(question name, question.unicast)]) of every query the target scheduler built
        self._saved = []

    def now(self):
        return self.sim.loop.ms

    def ival(self, x, what):
        r = round(x)
        if abs(x - r) > 1e-6:
            self.flags.append("non-integral %s=%r" % (what, x))
        return int(r)

    def snapshot(self, qs):
        h = qs._next_run
        armed = "-"
        if h is not None and not h._cancelled and h is not self.fired:
            kind = "s" if "startup" in getattr(h._callback, "__name__", "") else "r"
            armed = "%s%d" % (kind, round(h.when() * 1000))
        d = qs._next_scheduled_for_alias

        def objstr(q):
            return "%s,%s,%d,%d,%d,%s" % (C.hs(q.alias), C.hs(q.name), q.ttl, self.ival(q.expire_time_millis, "expire"),
                                          self.ival(q.when_millis, "when"), C.b01(q.cancelled))

        # the two containers as the code has them: dict (key -> the object stored under it) and every heap entry with its flag
        dct = sorted("%s=%s" % (C.hs(k), objstr(q)) for k, q in d.items())
        heap = sorted(objstr(q) for q in qs._query_heap)
        # identity-level facts the strings cannot show: dict values are heap members; live heap members are the dict values
        heap_live = [q for q in qs._query_heap if not q.cancelled]
        bij = (len(heap_live) == len(d) and all(d.get(q.alias) is q for q in heap_live)
               and all(any(v is q for q in qs._query_heap) for v in d.values()))
        return {"armed": armed, "sent": qs._startup_queries_sent, "dict": dct, "heap": heap, "bij": bij}

    def install(self):
        import zeroconf._services.browser as B

        rec = self
        cls = B.QueryScheduler

        def wrap(name, mkline):
            orig = getattr(cls, name)

            @functools.wraps(orig)
            def w(self_, *a, **k):
                if self_ is not rec.target or rec.cur is not None:
                    return orig(self_, *a, **k)
                ev = {"t": rec.now(), "sends": [], "exc": None}
                rec.cur = ev
                try:
                    pre = mkline(self_, *a, **k)
                    try:
                        return orig(self_, *a, **k)
                    except Exception as ex:  # recorded, re-raised
                        ev["exc"] = type(ex).__name__
                        raise
                    finally:
                        ev["line"] = pre() if callable(pre) else pre
                        ev["state"] = rec.snapshot(self_)
                        rec.events.append(ev)
                finally:
                    rec.cur = None

            setattr(cls, name, w)
            rec._saved.append((cls, name, orig))

        def ptr_line(self_, pointer):
            return "P %d %s %s %d %d" % (rec.now(), C.hs(pointer.alias), C.hs(pointer.name), int(pointer.ttl), rec.ival(pointer.created, "created"))

        def start_line(self_, loop):
            n = len(rec.sim.draws)
            return lambda: "S %d %d" % (rec.now(), rec.sim.draws[n][3])

        orig_init = cls.__init__

        @functools.wraps(orig_init)
        def init(self_, *a, **k):
            orig_init(self_, *a, **k)
            if rec.target is None:
                rec.target = self_

        cls.__init__ = init
        rec._saved.append((cls, "__init__", orig_init))
        wrap("start", start_line)
        wrap("stop", lambda self_: "X %d" % rec.now())
        wrap("reschedule_ptr_first_refresh", ptr_line)
        wrap("cancel_ptr_refresh", lambda self_, pointer: "C %d %s" % (rec.now(), C.hs(pointer.alias)))
        def fire_line(self_):
            rec.fired = self_._next_run
            return "F %d %s" % (rec.now(), C.b01(self_._zc.done))

        wrap("_process_startup_queries", fire_line)
        wrap("_process_ready_types", fire_line)

        orig_send = cls.async_send_ready_queries

        @functools.wraps(orig_send)
        def send(self_, first_request, now_millis, ready_types):
            if self_ is rec.target and rec.cur is not None:
                rec.cur["_first"] = bool(first_request)
            return orig_send(self_, first_request, now_millis, ready_types)

        cls.async_send_ready_queries = send
        rec._saved.append((cls, "async_send_ready_queries", orig_send))

        orig_gen = B.generate_service_query

        def gen(zc, now_millis, types_, multicast, question_type):
            if rec.cur is not None and "_first" in rec.cur:
                qt = "-" if question_type is None else ("1" if question_type is B.QU_QUESTION else "0")
                rec.cur["sends"].append("%d,%s,%s,%s" % (rec.ival(now_millis, "now"), C.b01(rec.cur.pop("_first")), qt,
                                                         "+".join(sorted(C.hs(t) for t in types_))))
            outs = orig_gen(zc, now_millis, types_, multicast, question_type)
            if rec.cur is not None:
                # the question objects handed to the sender: their `unicast` flag is what "asks QU" means; the encoder writes the bit only
                # into datagrams sent to the multicast group (C01/C14), so for a unicast destination the wire cannot show it
                rec.asked.append((rec.now(), [(q.name, bool(q.unicast)) for o in outs for q in o.questions]))
            return outs

        B.generate_service_query = gen
        rec._saved.append((B, "generate_service_query", orig_gen))

    def uninstall(self):
        for obj, name, orig in reversed(self._saved):
            setattr(obj, name, orig)
        self._saved = []


def bulk_records(case):
    """`bulk` young cached pointer records per type with long instance names: the known-answer list of every query then exceeds one
    packet per question, so a pass sends several datagrams"""
    out = []
    for ty in case["types"]:
        for i in range(case.get("bulk", 0)):
            out.append(("bulk%03d-%s.%s" % (i, "x" * 40, ty), ty, 4500, 1000))
    return out


def resp_packet(records):
    from zeroconf import DNSOutgoing, const

    out = DNSOutgoing(const._FLAGS_QR_RESPONSE | const._FLAGS_AA)
    for r in records:
        out.add_answer_at_time(r, 0)
    return out.packets()[0]


# ------------------------------------------------------------------------------------------
# running a case on the real code
#
# case = {"kind": "sched"|"browser", "delay": ms, "qtype": None|"QU"|"QM", "types": [...], "simseed": n,
#         "horizon": ms, "script": [[t_ms, action, args...], ...]}      (times relative to the simulation start)
#   sched   actions: start | ptr alias type ttl age | cancel alias | stop | close
#   browser actions: rec alias type ttl            (ttl 0 = goodbye)  | cancel (browser) | close
#   optional (browser): "addr": destination handed to the browser (None / the mDNS group address / a unicast address),
#       "threaded": the synchronous `ServiceBrowser` (own thread, same scheduler) instead of `AsyncServiceBrowser`,
#       "bulk": n  -> n further cached pointer records per type (young, long names) so that every query needs several packets,
#       "late": n  -> timers fire a seeded 0..n ms late (oracle only, see ASSUMPTIONS)


def run_case(case):
    from zeroconf import DNSIncoming, DNSPointer, DNSQuestion, DNSQuestionType, ServiceListener, const
    import zeroconf._services.browser as B
    from zeroconf import ServiceBrowser
    from zeroconf.asyncio import AsyncServiceBrowser

    sim = vsim.Sim(case["simseed"], maxdelay=0, max_late=case.get("late", 0))
    rec = Recorder(sim)
    qt = {None: None, "QU": DNSQuestionType.QU, "QM": DNSQuestionType.QM}[case["qtype"]]
    obs = {"callbacks": [], "alive_at_end": None, "active_at_end": True, "t_start": None}

    class L(ServiceListener):
        def add_service(self, zc, t, n):
            obs["callbacks"].append([sim.loop.ms, "add", t, n])

        def remove_service(self, zc, t, n):
            obs["callbacks"].append([sim.loop.ms, "rem", t, n])

        def update_service(self, zc, t, n):
            pass

    async def main(sim):
        import asyncio

        host = sim.make_host("B", "10.0.0.2")
        zc = host.zc
        await zc.async_wait_for_start()
        rec.install()
        try:
            br = None
            if case["kind"] == "sched":
                qs = B.QueryScheduler(zc, set(case["types"]), None, 5353, True, case["delay"], B._FIRST_QUERY_DELAY_RANDOM_INTERVAL, qt)
                rec.target = qs
            else:
                # a warm cache: pointer records learned before the browser exists are replayed to it by async_add_listener,
                # with their original creation time, before the scheduler is started
                now0 = float(sim.loop.ms)
                zc.cache.async_add_records([DNSPointer(ty, const._TYPE_PTR, const._CLASS_IN, ttl, alias, created=now0 - age)
                                            for (alias, ty, ttl, age) in case.get("warm", []) + bulk_records(case)])
                obs["t_create"] = sim.loop.ms
                kw = dict(listener=L(), delay=case["delay"], question_type=qt)
                if case.get("addr") is not None:
                    kw["addr"] = case["addr"]
                if case.get("threaded"):
                    # the synchronous API: own thread for the callbacks, `_async_start` posted to the loop
                    br = ServiceBrowser(zc, list(case["types"]), **kw)
                    await asyncio.sleep(0)
                else:
                    br = AsyncServiceBrowser(zc, list(case["types"]), **kw)
                qs = br.query_scheduler
                rec.target = qs
                obs["t_start"] = sim.loop.ms
            for act in case["script"]:
                await sim.sleep_until(act[0])
                a = act[1]
                now = float(sim.loop.ms)
                obs.setdefault("act_t", []).append(sim.loop.ms - T0)  # when the action really happened (differs from act[0] on a late loop)
                if a == "start":
                    qs.start(sim.loop)
                    obs["t_start"] = sim.loop.ms
                elif a == "ptr":
                    _, _, alias, ty, ttl, age = act
                    qs.reschedule_ptr_first_refresh(DNSPointer(ty, const._TYPE_PTR, const._CLASS_IN, ttl, alias, created=now - age))
                elif a == "cancel" and case["kind"] == "sched":
                    qs.cancel_ptr_refresh(DNSPointer(TYPES[0], const._TYPE_PTR, const._CLASS_IN, 0, act[2], created=now))
                elif a == "stop":
                    qs.stop()
                    obs["active_at_end"] = False
                elif a == "rec":
                    _, _, alias, ty, ttl = act
                    pkt = resp_packet([DNSPointer(ty, const._TYPE_PTR, const._CLASS_IN, ttl, alias)])
                    zc.record_manager.async_updates_from_response(DNSIncoming(pkt, now=now))
                elif a == "heard":
                    # another host asked the same PTR question just now (QM, no known answers): what QueryHandler records for a question
                    # this instance can answer.  QU questions of the browser must go out regardless; only QM ones may be suppressed
                    zc.question_history.add_question_at_time(DNSQuestion(act[2], const._TYPE_PTR, const._CLASS_IN), now, set())
                elif a == "cancel":
                    if case.get("threaded"):
                        br.cancel()
                    else:
                        await br.async_cancel()
                    br = None
                    obs["active_at_end"] = False
                elif a == "close":
                    zc._close()
                    obs["active_at_end"] = False
            await sim.sleep_until(case["horizon"])
            h = qs._next_run
            obs["alive_at_end"] = bool(h is not None and not h._cancelled and h is not rec.fired)
            if br is not None:
                if case.get("threaded"):
                    br.cancel()
                else:
                    await br.async_cancel()
            elif case["kind"] == "sched":
                qs.stop()
        finally:
            rec.uninstall()
        await vsim.close_host(host)

    sim.run(main)
    queries = []
    for (t, src, ip, port, data) in sim.net.log:
        m = DNSIncoming(data)
        if m.is_query():
            queries.append([t + T0, sorted(q.name for q in m.questions), [bool(q.unique) for q in m.questions]])
            obs.setdefault("packets", []).append(t + T0)
    merged = []
    for q in queries:  # several packets of one pass (known answers split) are one query event
        if merged and merged[-1][0] == q[0]:
            merged[-1][1] = sorted(set(merged[-1][1]) | set(q[1]))
            merged[-1][2] = merged[-1][2] + q[2]
        else:
            merged.append(q)
    obs["queries"] = merged
    obs["errors"] = [str(e.get("exception") or e.get("message")) for e in sim.errors]
    obs["events"] = rec.events
    obs["flags"] = rec.flags
    obs["asked"] = rec.asked
    return obs


def model_line(case, events):
    qt = {None: "-", "QU": "1", "QM": "0"}[case["qtype"]]
    types = sorted(case["types"])
    return "c10run %d %s 20 120 %d %s %d %s" % (case["delay"], qt, len(types), " ".join(C.hs(t) for t in types),
                                                len(events), " ".join(e["line"] for e in events))


def impl_chunks(events):
    out = []
    for e in events:
        st = e["state"]
        out.append("ok ; %s ; %s ; %d ; %s ; %s" % (" ".join(e["sends"]) if e["sends"] else "-", st["armed"], st["sent"],
                                                   " ".join(st["dict"]) if st["dict"] else "-", " ".join(st["heap"]) if st["heap"] else "-"))
    return out


def heaps_agree(impl_heap, model_heap):
    """The heaps must hold the same entries (flags included).  heapq is modelled as "pop a minimum": when a pass stops at a live
    entry, which of the *cancelled* entries with the very same `when` have already surfaced depends on heapq's array layout.
    So a difference is tolerated iff it consists of cancelled entries whose `when` equals that of an entry present on both sides."""
    from collections import Counter

    a, b = Counter(impl_heap.split()) if impl_heap != "-" else Counter(), Counter(model_heap.split()) if model_heap != "-" else Counter()
    if a == b:
        return True
    common_whens = {x.split(",")[4] for x in (a & b)}
    for x in list((a - b).elements()) + list((b - a).elements()):
        f = x.split(",")
        if f[5] != "1" or f[4] not in common_whens:
            return False
    return True


# ------------------------------------------------------------------------------------------
# stage O: the property's sentence on the implementation's observations (browser stream)


def kept_schedule(obs, alias, created):
    """The time `k` of the scheduler's entry for `alias` (lower-cased instance name) if the pointer update for the record created at
    `created` left that entry where it was (churn rule); None if the update scheduled a new entry, or cannot be found.
    Read from the block log (dict `_next_scheduled_for_alias` before and after the `reschedule_ptr_first_refresh` block): used only to
    recognise the input class of the known finding `C10:refresh-late-kept-schedule`, never to widen a bound."""
    def entry(state):
        for item in state["dict"]:
            key, val = item.split("=", 1)
            if bytes.fromhex(key).decode("utf-8", "surrogatepass").split("\0")[0] == alias:  # (a key may carry more than the instance name)
                f = val.split(",")
                return int(f[4]), f[5]
        return None

    evs = obs.get("events") or []
    for i, e in enumerate(evs):
        tok = e["line"].split()
        if tok[0] != "P" or i == 0:
            continue
        if bytes.fromhex(tok[2]).decode("utf-8", "surrogatepass").lower() != alias or int(tok[5]) != created:
            continue
        before, after = entry(evs[i - 1]["state"]), entry(e["state"])
        if before is not None and after is not None and before == after and after[1] == "0":
            return after[0]
        return None
    return None


def oracle(case, obs):
    """-> list of (sig, what)"""
    bad = []
    delay = case["delay"]
    late = case.get("late", 0)            # timers may fire up to `late` ms late in this run: upper bounds get that slack, lower bounds none
    addr = case.get("addr")
    unicast_dest = addr is not None and addr not in MDNS_GROUP
    threaded = bool(case.get("threaded"))
    horizon = case["horizon"] + T0
    t_start = obs["t_start"]
    queries = obs["queries"]
    qt = [q[0] for q in queries]
    floor_ttl = 1125
    # when does the browser stop being active
    t_end = horizon
    for act in case["script"]:
        if act[1] in ("cancel", "close", "stop") and (case["kind"] == "browser" or act[1] != "cancel"):
            t_end = min(t_end, act[0] + T0)
    if obs["errors"]:
        bad.append(("C10:exception-in-scheduler", "exception reached the loop: %s" % obs["errors"][0][:120]))
    # "asks QU": the `unicast` flag of the question objects the scheduler hands to the sender.  For a browser that multicasts the flag must
    # also be the bit on the wire; for a unicast destination the encoder leaves the bit out by design, so the objects are judged
    asked = {}
    for (t, qs) in obs.get("asked", []):
        asked.setdefault(t, []).extend(qs)

    def qu_of(q):
        flags = [u for (_n, u) in asked.get(q[0], [])]
        if unicast_dest:
            return flags
        if sorted(flags) != sorted(q[2]) and "C10:qu-bit-wire" not in [b_[0] for b_ in bad]:
            bad.append(("C10:qu-bit-wire", "query at %d ms: question objects have unicast flags %s, the datagrams carry %s" % (q[0] - T0, flags, q[2])))
        return q[2]

    # ---- start-up
    sched = [0, 1000, 5000, 14000]
    expect = [k for k in sched if t_start is not None and t_start + 120 + k + 5 * late < t_end]
    if expect:
        if len(qt) < len(expect):
            bad.append(("C10:startup-missing", "only %d of the %d start-up queries were sent" % (len(qt), len(expect))))
        else:
            d = qt[0] - t_start
            if not (20 <= d <= 120 + late):
                bad.append(("C10:startup-first-delay", "first query %d ms after start (20..120 expected)" % d))
            gaps = [qt[i] - qt[0] for i in range(len(expect))]
            steps = [b - a for a, b in zip(gaps, gaps[1:])]
            want_steps = [b - a for a, b in zip(sched, sched[1:])][:len(steps)]
            if any(not (w_ <= g <= w_ + late) for g, w_ in zip(steps, want_steps)):
                bad.append(("C10:startup-spacing", "start-up queries at +%s ms (expected +%s)" % (gaps, sched[:len(expect)])))
            for i in range(len(expect)):
                names, qu = queries[i][1], qu_of(queries[i])
                if names != sorted(case["types"]):
                    bad.append(("C10:startup-types", "start-up query %d asks %s (browsed types: %s)" % (i, names, sorted(case["types"]))))
                # "the first QU unless a question type is forced": forced type on every question; unforced: the first query QU and -- for a
                # browser that multicasts (no address given, or the mDNS group address itself) -- the later ones QM.  Later unforced
                # queries of a browser with a unicast destination are not judged (ASSUMPTIONS)
                if case["qtype"] is None and i > 0 and unicast_dest:
                    continue
                want_qu = (case["qtype"] == "QU") or (case["qtype"] is None and i == 0)
                if any(b != want_qu for b in qu):
                    bad.append(("C10:startup-qu", "start-up query %d has QU bits %s (forced type %s, destination %s)" % (i, qu, case["qtype"], addr or "default (multicast)")))
        n_start = sum(1 for t in qt if t <= t_start + 120 + 14000 + 4 * late)
        if len(expect) == 4 and n_start != 4:
            bad.append(("C10:startup-count", "%d queries on the wire during the start-up phase (four expected: at d, +1 s, +5 s, +14 s)" % n_start))
    # ---- rate limit after the four start-up queries
    for a, b in zip(qt[3:], qt[4:]):
        if b - a < delay:
            bad.append(("C10:rate-limit", "queries %d ms apart after start-up (delay %d)" % (b - a, delay)))
            break
    if case["kind"] != "browser":
        return bad
    # ---- per-record history (key: lower-cased alias, RFC/C20 identity)
    def browsed(ty):
        """the pointer record concerns this browser: its owner name is a browsed type or a subtype of one (`_printer._sub._http._tcp.local.`
        for a browser of `_http._tcp.local.`).  Such a record is reported (Added under the parent type) and must be kept alive like any
        other: "queried for" = a question for the record's OWN name"""
        return ty in case["types"] or any(ty.endswith("._sub." + T) for T in case["types"])

    hist = {}
    act_t = obs.get("act_t") or []
    for k_, act in enumerate(case["script"]):
        if act[1] == "rec":
            t, _, alias, ty, ttl = act
            if k_ < len(act_t):
                t = act_t[k_]
            if browsed(ty) and t + T0 < t_end:
                hist.setdefault((ty, alias.lower()), []).append((t + T0, ttl if ttl == 0 else max(ttl, floor_ttl)))
    warm = set()
    for (alias, ty, ttl, age) in case.get("warm", []):
        if browsed(ty):
            hist.setdefault((ty, alias.lower()), []).insert(0, (obs["t_create"] - age, ttl))
            warm.add((ty, alias.lower()))
    post = [q for q in queries[4:]] if len(queries) >= 4 else []
    # refresh passes ask QM unless QU is forced (multicasting browsers; see the start-up clause for unicast destinations)
    for q in post:
        if case["qtype"] is None and unicast_dest:
            break
        if any(b != (case["qtype"] == "QU") for b in qu_of(q)):
            bad.append(("C10:refresh-qu", "refresh query at %d ms has QU bits %s (forced type %s)" % (q[0] - T0, qu_of(q), case["qtype"])))
            break

    def hits(ty, lo, hi):
        return [q[0] for q in queries if ty in q[1] and lo <= q[0] <= hi]

    # live intervals of each record: (c, T, end) where end = next event of the alias or expiry
    lives = {}
    for key, evs in hist.items():
        cur = None
        ivs = []
        for (t, ttl) in evs:
            if cur is not None and t >= cur[0] + 1000 * cur[1]:
                ivs.append((cur[0], cur[1], cur[0] + 1000 * cur[1], cur[2], "expired"))
                cur = None
            if ttl == 0:
                if cur is not None:
                    ivs.append((cur[0], cur[1], t, cur[2], "withdrawn"))
                cur = None
            else:
                if cur is not None:
                    ivs.append((cur[0], cur[1], t, cur[2], "refreshed"))
                    cur = (t, ttl, cur[2] + 1)
                else:
                    cur = (t, ttl, 1)
        if cur is not None:
            ivs.append((cur[0], cur[1], min(cur[0] + 1000 * cur[1], t_end), cur[2], "final"))
        lives[key] = ivs
    solo = sum(1 for act in case["script"] if act[1] == "rec") == 1

    def shared_alias(ty, alias, lo_t, hi_t):
        """FINDING C10:alias-shared-by-two-types: the same instance name is held under two owner names at once (its type and a subtype of
        it, both concerning this browser).  The scheduler keys its entries by the instance name alone, so the two records share ONE
        entry: one of them is never asked for, and the expiry / withdrawal of either cancels the other's schedule.  Recognised only for
        exactly that input: another record with the same instance name and a different owner name, alive some time in [lo_t, hi_t]"""
        for (ty2, al2), ivs2 in lives.items():
            if al2 == alias and ty2 != ty and any(c2 <= hi_t and lo_t <= c2 + 1000 * T2 for (c2, T2, _e, _n, _h) in ivs2):
                return ty2
        return None

    def sig_for(sig, ty, alias, c, expire):
        other = shared_alias(ty, alias, c, expire)
        if other is None:
            return sig, ""
        return "C10:alias-shared-by-two-types", " [the instance is also held under %s: one scheduler entry for both records; would be %s]" % (other, sig)
    # ---- refresh liveness for records left unrefreshed
    for (ty, alias), ivs in lives.items():
        for (c, T, end, nlearn, how) in ivs:
            if how not in ("final", "expired"):
                continue
            expire = c + 1000 * T
            w = c + 750 * T
            # The English: "queried for at about 75 percent of its TTL ... at most the configured inter-query delay late".  A record
            # seen once: [w, w + delay].  A refreshed record may keep the schedule of the earlier sighting (churn rule); "about" is read
            # as admitting a query up to `delay` EARLY then, the lateness bound stays one delay: [w - delay, w + delay]  (reading stated
            # in Props/C10.lean and the manifest; the bound the code actually meets is w + 2*delay, `C10_refreshed_chain`).
            lo, hi = (w, w + delay + late) if nlearn == 1 else (w - delay, w + delay + late)
            if (ty, alias) in warm and ivs[0][0] == c and w <= t_start + 120 + 14000 + 4 * late:
                # a cached record whose 75% time is already past (or falls into the start-up phase) when the browser is created: its
                # entry is due at the first running-phase pass, one delay after the fourth start-up query; the +10% steps follow
                lo, hi = t_start + 20 + 14000 + delay, t_start + 120 + 14000 + delay + 5 * late
            if hi >= min(t_end, expire):
                continue
            cand = hits(ty, lo, hi)
            if not cand and nlearn > 1:
                # FINDING (second review): the entry kept from the earlier sighting lies at k in (w, w + delay] and a pass for another
                # type inside (k - delay, k) pushes the query to (k, k + delay] -- up to 2*delay after w.  Recognised only for exactly
                # that input class: the scheduler's own entry for the alias was left where it was by this refresh, at such a k, and
                # the query comes no later than k + delay (`C10_refreshed_one_delay_partial` has the complementary hypothesis).
                k = kept_schedule(obs, alias, c)
                lateq = hits(ty, w + delay + late + 1, k + delay + late) if (k is not None and w < k <= w + delay and k + delay + late < min(t_end, expire)) else []
                if lateq:
                    bad.append(("C10:refresh-late-kept-schedule",
                                "refreshed record %s (TTL %d, refreshed at %d ms, 75%% at %d ms): the schedule of the earlier sighting (%d ms, %d ms after the new "
                                "75%% time) was kept and another pass delayed it: first query for %s at %d ms, %d ms late (delay %d)"
                                % (alias, T, c - T0, w - T0, k - T0, k - w, ty, lateq[0] - T0, lateq[0] - w, delay)))
                    cand = lateq
            if not cand:
                sg, extra = sig_for("C10:no-refresh-query", ty, alias, c, expire)
                bad.append((sg, "record %s (TTL %d learned at %d ms) got no query for %s in [%d, %d]%s"
                            % (alias, T, c - T0, ty, lo - T0, hi - T0, extra)))
                continue
            ok_chain = False
            why = None
            for q1 in (cand[:1] if nlearn == 1 else cand):
                nxt = q1 + 100 * T
                good = True
                # a follow-up due before the expiry must be sent; when other records' passes (or silent ones after cancellations) can
                # hold it back by up to `delay`, only those whose whole window precedes the expiry are demanded -- with a single
                # record in the scenario nothing can hold it back
                while nxt < expire and (nxt + delay + late < min(t_end, expire) or (solo and nxt + delay + late < t_end)):
                    h2 = hits(ty, nxt, nxt + delay + late)
                    if not h2:
                        good = False
                        why = nxt
                        break
                    nxt = h2[0] + 100 * T
                if good:
                    ok_chain = True
                    break
            if not ok_chain:
                sg, extra = sig_for("C10:no-rescue-query", ty, alias, c, expire)
                bad.append((sg, "record %s (TTL %d learned at %d ms): no follow-up query for %s in [%d, %d]%s"
                            % (alias, T, c - T0, ty, why - T0, why + delay - T0, extra)))
    # ---- Removed by expiry only after refresh attempts
    for (t, kind, ty, name) in obs["callbacks"]:
        if kind != "rem" or threaded:  # (the synchronous browser calls back from its own thread: no virtual time stamp)
            continue
        # (the callback names the browsed type; the record that expired may be a subtype pointer, refreshed under its own name)
        for (rty, (c, T, end, nlearn, how)) in [(ty2, iv) for (ty2, al2), ivs2 in lives.items()
                                                if al2 == name.lower() and (ty2 == ty or ty2.endswith("._sub." + ty)) for iv in ivs2]:
            if how in ("final", "expired") and c + 1000 * T <= t <= c + 1000 * T + 11000 and c + 1000 * T < t_end:
                if not hits(rty, c + 750 * T - delay, c + 1000 * T):
                    sg, extra = sig_for("C10:removed-without-refresh", rty, name.lower(), c, c + 1000 * T)
                    bad.append((sg, "%s reported Removed at %d ms by expiry, no refresh query for %s had been sent%s"
                                % (name, t - T0, rty, extra)))
    # ---- no query on the old schedule of a refreshed / withdrawn record: every query after start-up is
    # justified by a record that is live then and inside its refresh phase
    for q in post:
        t = q[0]
        for ty in q[1]:
            just = False
            for (ty2, alias), ivs in lives.items():
                if ty2 != ty:
                    continue
                for (c, T, end, nlearn, how) in ivs:
                    upper = end if how in ("refreshed", "withdrawn") else c + 1000 * T + delay + 10000
                    # a refresh that keeps the schedule (churn rule) continues the old one
                    if c + 750 * T - delay <= t and c <= t <= upper:
                        just = True
            if not just:
                bad.append(("C10:stale-schedule-query", "query for %s at %d ms: no live record of that type is in its refresh phase then"
                            % (ty, t - T0)))
    # ---- the scheduler keeps running while the browser is active
    if obs["active_at_end"] and obs["alive_at_end"] is False:
        bad.append(("C10:scheduler-dead", "no wake-up armed at %d ms although the browser is active" % (horizon - T0)))
    return bad


# ------------------------------------------------------------------------------------------
# generators


def gen_browser_case(rng, i):
    delay = rng.choice([1000, 5000, 10000, 10000, 60000])
    types = TYPES[: rng.choice([1, 1, 2])]
    qtype = rng.choice([None, None, None, "QU", "QM"])
    script = []
    n = rng.randint(1, 5)
    maxexp = 0
    for k in range(n):
        ty = rng.choice(types)
        base = "i%d" % k
        alias = "%s.%s" % (rng.choice([base, base.upper(), "Svc%d" % k]), ty)
        if rng.random() < 0.18:
            # a SUBTYPE pointer (RFC 6763 7.1) of a browsed type, heard as the answer to somebody else's subtype query: its owner name
            # ends in the browsed type, the browser reports the instance and has to keep THIS record alive under its own name
            ty = "_printer._sub." + ty
        ttl = rng.choice([60, 1125, 1126, 1200, 2000, 4500, 4500, 9000])
        T = max(ttl, 1125)
        c = rng.choice([0, 10, 20, 119, 120, 1100, 5000, 14200, 20000, 60000, 300000, rng.randint(0, 3_000_000)])
        script.append([c, "rec", alias, ty, ttl])
        exp = c + 1000 * T
        fate = rng.choice(["expire", "expire", "refresh", "refresh", "recase", "goodbye", "recase-goodbye", "answer", "goodbye-relearn"])
        if fate in ("refresh", "recase", "answer"):
            t2 = {"refresh": rng.choice([c + 1, c + delay, c + delay + 1, c + 500 * T, c + 750 * T - 1, c + 750 * T, c + 750 * T + 1, c + 800 * T,
                                         c + 850 * T + 3, c + 999 * T]),
                  "recase": rng.choice([c + 1000, c + 400 * T, c + 760 * T]),
                  "answer": c + 750 * T + rng.choice([0, 1, 15, delay, delay + 15])}[fate]
            ttl2 = rng.choice([ttl, ttl, 1125, 4500, T + delay // 1000, max(1125, T - delay // 1000)])
            a2 = alias.swapcase() if fate == "recase" else alias
            script.append([t2, "rec", a2, ty, ttl2])
            exp = max(exp, t2 + 1000 * max(ttl2, 1125))
        elif fate in ("goodbye", "recase-goodbye"):
            t2 = rng.choice([c + 1, c + 5000, c + 700 * T, c + 751 * T, c + 900 * T])
            script.append([t2, "rec", alias.swapcase() if fate == "recase-goodbye" else alias, ty, 0])
        elif fate == "goodbye-relearn":
            # withdrawn and announced again shortly afterwards: the new 75% time lies within `delay` of the withdrawn schedule
            t2 = rng.choice([c + 1, c + 1000, c + 5000])
            t3 = t2 + rng.choice([1, 1000, delay])
            script.append([t2, "rec", alias, ty, 0])
            script.append([t3, "rec", rng.choice([alias, alias.swapcase()]), ty, ttl])
            exp = max(exp, t3 + 1000 * T)
        maxexp = max(maxexp, exp)
    # another asker on the link: its question is in our history (a) right before the first start-up query (QU unless QM is forced),
    # (b) for a browser forced to QU, half a second before the 75% instant of records left to expire.  QU questions are never held back.
    if qtype != "QM" and rng.random() < 0.35:
        for ty in types:
            script.append([0, "heard", ty])
    if qtype == "QU" and rng.random() < 0.6:
        for act in list(script):
            if act[1] == "rec" and act[4] != 0:
                script.append([act[0] + 750 * max(act[4], 1125) - 500, "heard", act[3]])
    warm = []
    if rng.random() < 0.3:
        for k in range(rng.randint(1, 2)):
            ty = rng.choice(types)
            ttl = rng.choice([1125, 4500])
            age = rng.choice([1000, 60000, 700 * ttl, 749 * ttl, 750 * ttl, 760 * ttl, 900 * ttl])
            warm.append(["Warm%d.%s" % (k, ty), ty, ttl, age])
            maxexp = max(maxexp, 1000 * ttl - age)
    horizon = min(maxexp + 40000, 12_000_000)
    r = rng.random()
    if r < 0.06:
        script.append([rng.randint(0, horizon), "cancel"])
    elif r < 0.12:
        script.append([rng.randint(0, horizon), "close"])
    script.sort(key=lambda a: a[0])
    case = {"kind": "browser", "delay": delay, "qtype": qtype, "types": types, "simseed": rng.randint(0, 10**6), "horizon": horizon, "script": script}
    if warm:
        case["warm"] = warm
    # the other ways a browser can be created / run (second review, escapes 1-4): an explicit destination (the mDNS group itself, or a
    # unicast address), the synchronous `ServiceBrowser`, queries that need several packets, a loop whose timers fire late
    r = rng.random()
    if r < 0.10:
        case["addr"] = "224.0.0.251"
    elif r < 0.22:
        case["addr"] = "10.0.0.77"
    if rng.random() < 0.12:
        case["threaded"] = True
    if rng.random() < 0.15:
        case["late"] = 3
    return case


def gen_special_cases(rng):
    """small fixed families run on every check (cheap, start-up phase only unless said otherwise)"""
    out = []
    # every destination x forced type, asynchronous and synchronous browser
    for addr in (None, "224.0.0.251", "10.0.0.77"):
        for qtype in (None, "QU", "QM"):
            for threaded in (False, True):
                c = {"kind": "browser", "delay": rng.choice([1000, 10000, 60000]), "qtype": qtype, "types": TYPES[: rng.choice([1, 2])],
                     "simseed": rng.randint(0, 10**6), "horizon": 16000, "script": []}
                if addr:
                    c["addr"] = addr
                if threaded:
                    c["threaded"] = True
                out.append(("dest", c))
    # every query needs several packets (one question with its known answers per packet)
    for qtype in (None, "QM"):
        out.append(("bulk", {"kind": "browser", "delay": 10000, "qtype": qtype, "types": list(TYPES), "simseed": rng.randint(0, 10**6),
                             "horizon": 16000, "script": [], "bulk": 32}))
    # subtype pointers of a browsed type: alone (must be kept alive under their own name), and next to the parent-type pointer of the
    # same instance (FINDING C10:alias-shared-by-two-types)
    ty = TYPES[0]
    sub = "_printer._sub." + ty
    for script in ([[20000, "rec", "i0." + ty, sub, 1125]],
                   [[20000, "rec", "i0." + ty, sub, 1125], [30000, "rec", "i1." + ty, ty, 1125]],
                   [[20000, "rec", "i0." + ty, ty, 1125], [25000, "rec", "i0." + ty, sub, 1125]]):
        out.append(("subtype", {"kind": "browser", "delay": rng.choice([1000, 10000]), "qtype": rng.choice([None, "QM"]), "types": [ty],
                                "simseed": rng.randint(0, 10**6), "horizon": 1200000, "script": script}))
    # the configured delay really is the scheduler's: two records of one type whose 75% instants lie closer than the delay, synchronous and
    # asynchronous browser, on an exact and on a late loop (the second query is rate-limited: exactly one delay after the first)
    for threaded in (False, True):
        for late_ in (0, 3, 3):
            delay = rng.choice([1000, 5000, 60000])
            c0 = rng.choice([20000, 60000])
            gap = rng.choice([1, delay // 3, delay // 2, delay - 1])
            ty = TYPES[0]
            c = {"kind": "browser", "delay": delay, "qtype": None, "types": [ty], "simseed": rng.randint(0, 10**6),
                 "horizon": c0 + 1125 * 750 + 3 * delay + 20000,
                 "script": [[c0, "rec", "a." + ty, ty, 1125], [c0 + gap, "rec", "b." + ty, ty, 1125]]}
            if threaded:
                c["threaded"] = True
            if late_:
                c["late"] = late_
            out.append(("spacing", c))
    return out


def gen_sched_case(rng, i):
    delay = rng.choice([1000, 2000, 10000, 60000])
    types = TYPES[: rng.choice([1, 2])]
    qtype = rng.choice([None, None, "QU", "QM"])
    script = []
    t0s = rng.choice([0, 7, 100])
    if rng.random() < 0.3:
        for k in range(rng.randint(1, 2)):
            ty = rng.choice(types)
            ttl = rng.choice([1, 10, 60, 1125])
            script.append([0, "ptr", "%s.%s" % (rng.choice(["a", "w", "A"]), ty), ty, ttl, rng.choice([0, 1, 500 * ttl, 750 * ttl, 760 * ttl, 999 * ttl])])
    script.append([t0s, "start"])
    t = t0s
    aliases = ["a", "b", "c", "A"]
    n = rng.randint(1, 8)
    for k in range(n):
        t += rng.choice([0, 1, 50, 999, 1000, 1001, delay - 1, delay, delay + 1, 4000, 9000, rng.randint(0, 40000), rng.randint(0, 400000)])
        a = rng.random()
        ty = rng.choice(types)
        alias = "%s.%s" % (rng.choice(aliases), ty)
        if a < 0.7:
            ttl = rng.choice([1, 2, 5, 10, 13, 20, 40, 60, 120, 1125, 4500])
            age = rng.choice([0, 0, 0, 1, min(500, 750 * ttl), 750 * ttl - 1, 750 * ttl])  # refresh time never in the past (browser: created = now)
            script.append([t, "ptr", alias, ty, ttl, age])
        elif a < 0.9:
            script.append([t, "cancel", alias])
        elif a < 0.95:
            script.append([t, "close"])
        else:
            script.append([t, "stop"])
    horizon = t + rng.choice([1000, 30000, 200000, 1_500_000])
    return {"kind": "sched", "delay": delay, "qtype": qtype, "types": types, "simseed": rng.randint(0, 10**6), "horizon": horizon, "script": script}


D7_CASES = [
    {"kind": "browser", "delay": 10000, "qtype": None, "types": [TYPES[0]], "simseed": 0, "horizon": 1_300_000,
     "script": [[20000, "rec", "a." + TYPES[0], TYPES[0], 4500], [60000, "rec", "b." + TYPES[0], TYPES[0], 1200]]},
]


# ------------------------------------------------------------------------------------------


def evaluate(case, want_model=True):
    """run one case: (obs, oracle verdicts, model line)"""
    obs = run_case(case)
    verdicts = oracle(case, obs)
    return obs, verdicts, model_line(case, obs["events"])


def shrink(case, sig, budget=40):
    """drop script actions while the same violation signature persists"""
    cur = case
    i = 0
    while i < len(cur["script"]) and budget > 0:
        if cur["script"][i][1] == "start":
            i += 1
            continue
        cand = dict(cur, script=cur["script"][:i] + cur["script"][i + 1:])
        budget -= 1
        try:
            obs = run_case(cand)
            if any(s == sig for s, _ in oracle(cand, obs)):
                cur = cand
                continue
        except Exception:
            pass
        i += 1
    return cur


def compare(res, case, obs, model_out):
    chunks = model_out.split(" | ")
    impl = impl_chunks(obs["events"])
    if model_out == "bad-op" or len(chunks) != len(impl) + 1:
        res.disagree("c10run", case, {"blocks": len(impl)}, model_out[:200])
        return False
    ok = True
    for k, (a, b) in enumerate(zip(impl, chunks[1:])):
        if a == b:
            continue
        fa, fb = a.split(" ; "), b.split(" ; ")
        if len(fa) == 6 and len(fb) == 6 and fa[:5] == fb[:5] and heaps_agree(fa[5], fb[5]):
            res.count("heap-tie-tolerated")
            continue
        res.disagree("c10run", {"case": case, "block": k, "op": obs["events"][k]["line"]}, a, b)
        ok = False
        break
    if ok and not chunks[0].startswith("exec-ok"):
        res.disagree("c10run-exec", case, "trace accepted block by block", chunks[0])
        ok = False
    for k, e in enumerate(obs["events"]):
        if not e["state"]["bij"]:
            res.disagree("c10-bijection", {"case": case, "block": k}, "dict values / live heap members differ by identity", "Inv2 (proved of the model): dict values = live heap members")
            ok = False
            break
    return ok


def run(ctx):
    res = C.Result("C10")
    rng = C.rng_for(ctx["seed"], "c10")
    nb = C.Budget(ctx["tier"], 170, 2600).n
    ns = C.Budget(ctx["tier"], 220, 3000).n
    if ctx["widened"]:
        nb *= 3
        ns *= 2
    cases = [("corpus:" + name, body.get("case", body)) for name, body in C.load_corpus("C10")]
    cases += gen_special_cases(rng)
    cases += [("browser", gen_browser_case(rng, i)) for i in range(nb)]
    cases += [("sched", gen_sched_case(rng, i)) for i in range(ns)]
    res.rule = ("op histories for one QueryScheduler: (a) full AsyncServiceBrowser fed 1-5 PTR records (TTL 60..9000 s, floor 1125) learned at "
                "boundary-biased instants relative to the start-up queries and to each other, then refreshed / re-cased / answered at the 75% query / "
                "withdrawn / left to expire, delays 1-60 s, 1-2 types, forced QU/QM; (b) a bare scheduler driven with arbitrary TTLs, ages, cancels, stop, "
                "closed instance. non-trivial = distinct (kind, delay, forced type, multiset of block kinds, number of refresh passes that sent, "
                "re-armed-earlier seen) signature")
    runs = []
    for label, case in cases:
        try:
            obs, verdicts, line = evaluate(case)
        except Exception as ex:  # harness problem: surface as a note, never as a violation
            res.notes.append("case crashed in the harness: %s %r" % (label, ex))
            continue
        res.evaluations += 1
        res.count(label.split(":")[0])
        for f in obs["flags"][:1]:
            res.count("flag:non-integral-time")
        kinds = sorted(e["line"].split()[0] for e in obs["events"])
        passes = sum(1 for e in obs["events"] if e["line"].startswith("F") and e["sends"] and e["state"]["sent"] >= 4)
        res.nontriv("%s/%s/%s/%s/%d" % (case["kind"], case["delay"], case["qtype"], "".join(kinds)[:40], passes))
        res.count("blocks", len(obs["events"]))
        res.count("queries", len(obs["queries"]))
        if len(res.samples) < 3:
            res.sample({"case": case, "queries_ms": [q[0] - T0 for q in obs["queries"]][:12], "callbacks": obs["callbacks"][:6]})
        runs.append((label, case, obs, verdicts, line))
    model = None
    if ctx["driver_ok"] and runs:
        try:
            model = C.run_driver([r[4] for r in runs])
        except C.DriverUnavailable as ex:
            res.notes.append("driver unavailable: %s" % ex)
    seen = set()
    for k, (label, case, obs, verdicts, line) in enumerate(runs):
        for opt in ("addr", "threaded", "bulk", "late"):
            if case.get(opt):
                res.count("opt:" + opt)
        if model is not None and not case.get("late"):  # (a late loop is outside the model's loop axioms: oracle only)
            compare(res, case, obs, model[k])
        for sig, what in verdicts:
            if sig in seen:
                res.count("violations")
                continue
            seen.add(sig)
            small = shrink(case, sig) if not label.startswith("corpus") else case
            res.violate(sig, what, small)
    return res


def replay(body):
    case = body.get("case", body)
    obs, verdicts, line = evaluate(case)
    out = {"queries_ms": [[q[0] - T0, q[1], q[2]] for q in obs["queries"]], "callbacks": [[c[0] - T0] + c[1:] for c in obs["callbacks"]],
           "oracle": verdicts, "violates": bool(verdicts)}
    try:
        m = C.run_driver([line])[0]
        res = C.Result("C10")
        agree = compare(res, case, obs, m)
        out["model_agrees"] = agree
        if not agree:
            out["first_disagreement"] = res.disagreements[:1]
    except C.DriverUnavailable as ex:
        out["model"] = "unavailable: %s" % ex
    return out
