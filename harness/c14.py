"""C14 -- size limits and accounting: same model, generator and predicates as C01, with the
size sweep emphasised (more multi-packet and boundary-size messages)."""
from __future__ import annotations

from . import c01

TRUSTED = c01.TRUSTED
ASSUMPTIONS = c01.ASSUMPTIONS


def run(ctx):
    return c01.run_prop(ctx, "C14", size_bias=["small", "medium", "medium", "large", "oversize-entry", "oversize-entry"])


def replay(body):
    return c01.replay(body)
