"""C06 -- response ingestion and the record-update listener contract.

Stage C: the shared `crun` correspondence (pairs, both snapshots, listener ids per phase, readers).
Stage O: per datagram, the post-state per identity and the flush marks against `cachecommon.Ref`, and what every
recording listener was told (call counts, pairs in datagram order with `old` rendered live, cache snapshots taken
inside both callbacks), with listeners added/removed between datagrams and from inside callbacks."""
from __future__ import annotations

import itertools
import time

from . import c04 as C04
from . import c05 as C05
from . import cachecommon as CC
from . import common as C

TRUSTED = CC.TRUSTED_COMMON + [
    "C06: 'the cache at call time' is what names() + entries_with_name() show from inside the callback (plus async_get_unique after the op)",
    "C06: the listeners are the harness's recording listeners; their scripted reactions add/remove listeners, without a question (never touches "
    "the cache) or with one (async_add_listener purges the expired records at its own clock reading, runs the purge's two listener rounds nested "
    "inside the callback, and replays the cache to the new listener); reactions are scripted per nesting depth",
]
ASSUMPTIONS = [
    "the `now` handed to async_update_records is read as part of 'called with the pairs': it has to be the datagram's arrival time, the instant "
    "the new records are stamped with (C06:update-now) -- listeners such as the browser classify Removed by is_expired(now)",
    "D ops reach RecordManager.async_updates_from_response directly (with the wall clock moving on after the decode); W ops go as bytes through "
    "the real AsyncListener. Reading of 'for every response datagram' where the duplicate guard (C16's subject) is in front: every datagram that "
    "is not byte-identical to the last *processed* datagram of the socket or arrives 1000 ms or more after it; 'arrival time' = the one clock "
    "reading of datagram_received",
    "the harness's listeners hash to their id, so the listener set iterates in ascending id order (the model iterates the sorted list); "
    "reactions may hit one target twice and may remove listeners that are not registered",
    "a zero-TTL copy of a record that was not cached before the datagram produces no pair (the statement's 'previous is the cached copy iff one existed' "
    "is read over the records the datagram changes or refreshes)",
    "a callback that registers a listener WITH a question purges the records whose TTL has fully elapsed at its clock reading (D23): the cache a later "
    "callback of the same datagram sees, and the post-state, are the statement's minus exactly those records; 'exactly once' is read over the two rounds "
    "of the datagram itself (the purge's own rounds and the replay are nested calls, checked separately)",
]


def _listener_sets(l1, events):
    """(listener set when the datagram's complete round starts, listener set after the datagram), from the reactions executed, in the
    order in which they take effect.  `add with a question` registers its target after the purge's own rounds and before the replay:
    reactions executed inside those rounds take effect before it, reactions executed inside the replay's callbacks after it."""
    s = set(l1)
    l2 = None
    pending = []                      # (depth of the acting callback, target) of `add with a question` acts whose add is still to come
    for e in events:
        kind, depth = e[0], e[5]
        # the span of a pending act ends with the next callback / act at its own depth or above; its replay starts with the update call,
        # one level down, of its target with (record, None) pairs
        while pending:
            d, t = pending[-1]
            ended = depth <= d
            replay = kind == "u" and depth == d + 1 and e[1] == t and e[3] and all(o is None for _, o in e[3])
            if ended or replay:
                s.add(t)
                pending.pop()
                if replay:
                    break
            else:
                break
        if kind == "c" and depth == 0 and l2 is None:
            l2 = set(s)
        if kind == "a":
            act = e[3]
            if act[2] == 2:
                pending.append((depth, act[3]))
            elif act[2]:
                s.add(act[3])
            else:
                s.discard(act[3])
    while pending:
        s.add(pending.pop()[1])
    return (set(s) if l2 is None else l2), s


def _expired_at(d, t):
    return [i for i, e in d.items() if e[0] + 1000 * e[1] <= t]


def _reentrant(ref, info, o, now):
    """what the purges of `add a listener with a question` reactions must do, computed from the reference alone.
    Returns (seen, nested, purged1): `seen[k]` = identities purged before the k-th event of o["events"]; `nested` = per executed reaction
    of kind 2 the identities its purge must remove; purged1 = identities purged while round 1 was running.  Removes the purged identities from ref.d."""
    cur = {i: list(e) for i, e in info["phase1"].items()}     # the cache during round 1: pre-state + refreshes + flush marks
    purged = set()
    purged1 = set()
    seen = []
    nested = []
    in_round2 = False
    for k, ev in enumerate(o["events"]):
        seen.append(set(purged))
        if ev[0] == "c" and ev[5] == 0 and not in_round2:
            in_round2 = True
            cur = {i: list(e) for i, e in ref.d.items() if i not in purged}    # the post-state, minus what round 1 purged
        if (ev[0] == "a" and ev[3][2] == 2) or ev[0] == "b":
            # `add a listener with a question` (a scripted reaction with its scripted clock reading, or a browser created by a service
            # handler: the clock reading that creation made -- the arrival time plus the readings made since, 1 ms each)
            t = ev[2] if ev[2] is not None else now
            ex = _expired_at(cur, t)
            nested.append((k, ex, {i: CC.spec_line(cur[i][2], cur[i][0], cur[i][1]) for i in ex}))
            for i in ex:
                del cur[i]
                purged.add(i)
                if not in_round2:
                    purged1.add(i)
    for i in purged:
        ref.d.pop(i, None)
        ref.guard.pop(i, None)
    return seen, nested, purged1


def oracle(probes, ops, obs, res):
    ref = CC.Ref()
    wire = CC.WireRef()
    found = []
    prev_ids = []
    prev_t = None
    for idx, (op, o) in enumerate(zip(ops, obs)):
        k = op[0]
        if o["err"]:
            if k == "LR" and o["err"] == "KeyError":
                # (only on a tree without the D18 repair) removing a listener that is not registered, outside any datagram: the call
                # raises, nothing else happens.  Inside the quantifier ("listeners added or removed at any point"); reported, the
                # history ends here
                found.append((idx, "C06:remove-absent-listener-raises", "async_remove_listener of a listener that is not registered raised KeyError"))
                break
            if k in ("D", "W") and o["err"] == "KeyError" and o.get("failed") and o["failed"][0][2] == 0:
                ph, lid, _, tg = o["failed"][0][:4]
                lost = "before the cache was updated: no record of the datagram was added or removed, " if o["failed"][0][4] == 1 else ""
                found.append((idx, "C06:remove-absent-listener-aborts-ingestion",
                              "listener %d's %s callback removed listener %d, which was not registered (any more); async_remove_listener let the "
                              "KeyError of set.remove escape and async_updates_from_response raised %s%d update and %d complete calls were made "
                              "for %d registered listeners" % (lid, "update" if ph % 10 == 1 else "complete", tg, lost, len(o["c1"]), len(o["c2"]), len(prev_ids))))
                break
            if k == "D" and o["err"] == "RuntimeError" and any(e[0] == "b" for e in (o.get("events") or [])):
                ev = [e for e in o["events"] if e[0] == "b"][0]
                found.append((idx, "C06:reentrant-browser-creation-aborts-completion-round",
                              "inside async_update_records_complete browser %d's handler created browser %d: async_add_listener purged an expired record and "
                              "ran nested async_updates + async_updates_complete(False), which re-entered browser %d's completion loop; %s escaped "
                              "async_updates_from_response for the datagram at %d: the listeners after it got no complete call"
                              % (ev[3][0], ev[3][1], ev[3][0], o.get("errmsg"), op[1])))
                break
            if k == "D" and o["err"] == "KeyError" and not o.get("failed"):
                # D24: a first-round callback registered a listener with a question; its purge removed an expired record the datagram withdraws
                info = ref.datagram(op[1], op[2])
                _, nested, purged1 = _reentrant(ref, info, o, op[1])
                hit = [i for i in info["removed"] if i in purged1]
                if hit:
                    ev = o["events"][[n[0] for n in nested if hit[0] in n[1]][0]]
                    found.append((idx, "C06:reentrant-add-listener-purge-aborts-ingestion",
                                  "listener %d's update callback called async_add_listener(listener %d, question) at clock %d; its purge of expired records "
                                  "removed %s, which the datagram at %d withdraws (zero-TTL copy); async_remove_records(removes) then raised %s out of "
                                  "async_updates_from_response: the datagram's new records were added, %d of %d registered listeners got the complete call"
                                  % (ev[1], ev[3][3], ev[2], CC.ident_str(hit[0]), op[1], o.get("errmsg"), len(o["c2"]), len(prev_ids))))
                    break
            found.append((idx, "C06:exception:%s" % o["err"], "op %r raised %s" % (op[:2], o.get("errmsg"))))
            break
        if k in ("X", "BA"):
            # the purge (periodic, or of a browser's creation) is C05's / C04's subject: follow what the implementation reports
            for n, _ in (o["u"] or []):
                ref.d.pop(CC.parse_line(n)[0], None)
            for e in (o.get("events") or []):
                if e[0] == "u" and e[1] is None and e[5] >= 1:
                    for n, _ in e[3]:
                        ref.d.pop(CC.parse_line(n)[0], None)
        elif k == "W" and not C05.wire_step(found, idx, "C06", wire, op, o, res):
            # suppressed by the duplicate guard (and rightly so): no listener may have been called
            if o["calls"] or o["spy_u"] or o["spy_c"]:
                found.append((idx, "C06:listener:called-for-suppressed-duplicate", "the datagram at %d was dropped by the duplicate guard, yet listeners were called (%r)" % (op[1], o["order"])))
        elif k in ("D", "W"):
            now, recs = op[1], op[2]
            pre_lines = ref.lines()
            info = ref.datagram(now, recs)
            post0 = ref.lines()                       # the statement's post-state ...
            seen, nested, _ = _reentrant(ref, info, o, now)
            post = ref.lines()                        # ... minus what re-entrant purges removed (expired at their clock readings)
            if res is not None:
                _stats(res, op, info, prev_t, prev_ids, o)
            _check_post_state(found, idx, now, o, info, pre_lines, post, probes)
            _check_calls(found, idx, now, o, info, post0, prev_ids, seen)
            _check_nested(found, idx, o, nested, prev_ids)
        prev_ids = o["ids"]
        t = CC.op_time(op)
        if t is not None:
            prev_t = t
        if len(found) > 12:
            break
    return found


def _check_post_state(found, idx, now, o, info, pre, post, probes):
    try:
        got = CC.parse_snapshot(o["S"])
    except ValueError as ex:
        found.append((idx, "C06:post-state:duplicate-identity", str(ex)))
        return
    for i in post:
        if i not in got:
            sig = "C06:post-state:new-record-missing" if i in info["added"] else "C06:post-state:missing"
            found.append((idx, sig, "after the datagram at %d the cache lacks %s" % (now, post[i])))
    for i, line in got.items():
        if i not in post:
            if i in info["removed"]:
                found.append((idx, "C06:post-state:goodbye-not-removed", "zero-TTL copy of the cached %s arrived at %d but it is still cached" % (line, now)))
            else:
                found.append((idx, "C06:post-state:extra", "after the datagram at %d the cache holds %s, the reference does not" % (now, line)))
            continue
        if line == post[i]:
            continue
        a, b = CC.parse_line(line), CC.parse_line(post[i])
        if (a[2], a[3]) == (b[2], b[3]):
            found.append((idx, "C06:post-state:spelling", "cached %s, reference %s" % (line, post[i])))
        elif i in info["added"]:
            found.append((idx, "C06:post-state:lifetime-new", "new record cached as %s, should be (created, ttl) = (%d, %d)" % (line, b[2], b[3])))
        elif i in info["refreshed"]:
            found.append((idx, "C06:post-state:lifetime-refreshed", "refreshed record shows %s, should be (created, ttl) = (%d, %d)" % (line, b[2], b[3])))
        elif i in info["flushed"]:
            found.append((idx, "C06:flush:missed", "%s is older than 1 s, shares name/type/class with a cache-flush record and is not in the datagram, "
                          "but was not marked (%d, 1)" % (line, now)))
        elif (a[2], a[3]) == (now, 1) and pre.get(i) == post[i]:
            found.append((idx, "C06:flush:overreach", "%s was marked to expire by the datagram at %d although the flush rule does not cover it (reference keeps %s)"
                          % (line, now, post[i])))
        else:
            found.append((idx, "C06:post-state:lifetime-untouched", "record not addressed by the datagram changed: %s, reference %s" % (line, post[i])))
    # the path the record manager itself uses
    if o["R"] is not None:
        for r, gotu in zip(probes.recs, o["R"]["U"]):
            i = CC.ident_of(r)
            if gotu != post.get(i):
                found.append((idx, "C06:post-state:get-unique-path", "async_get_unique(%s) = %s, reference %s" % (CC.ident_str(i), gotu, post.get(i))))


def _snap_diff(snap, want):
    """first difference between a snapshot string and {ident: line}"""
    try:
        got = CC.parse_snapshot(snap)
    except ValueError as ex:
        return "dup", str(ex)
    for i in want:
        if i not in got:
            return "lacks", want[i]
    for i, line in got.items():
        if i not in want:
            return "has", line
        if line != want[i]:
            return "differs", "%s instead of %s" % (line, want[i])
    return None


def _minus(lines, gone):
    return {i: x for i, x in lines.items() if i not in gone} if gone else lines


def _check_calls(found, idx, now, o, info, post, l1, seen):
    pairs = info["pairs"]
    calls = o["calls"]                      # the datagram's own two rounds (depth 0)
    ucalls = {}
    ccalls = {}
    for c in calls:
        (ucalls if c[0] == "u" else ccalls).setdefault(c[1], []).append(c)
    if not pairs:
        # every record of the datagram is a goodbye of something that is not cached: nothing to tell.  The literal sentence ("every
        # registered update listener is called exactly once ...") would have the listeners called with an empty list; the code does not
        # call them at all (`if updates:`), which is the reading of `C06_calls` (named `C06_called_iff_effective` in Props/C06.lean).  The
        # oracle accepts both: no call, or one update call with an empty list + one complete call per listener -- anything else is wrong
        told = ([o["u"]] if o["u"] is not None else []) + [c[2] for c in calls if c[0] == "u"]
        if any(t for t in told):
            found.append((idx, "C06:called-without-updates", "no record of the datagram at %d is live or was cached, yet listeners were handed updates: %r" % (now, told[:3])))
        elif o["spy_u"] > 1 or o["spy_c"] > 1 or any(len(v) > 1 for v in ucalls.values()) or any(len(v) > 1 for v in ccalls.values()):
            found.append((idx, "C06:called-twice", "a listener was called more than once for the datagram at %d (%r)" % (now, o["order"])))
        return
    if o.get("legacy") is not None and o["legacy"] != [n for n, _ in (o["u"] or [])]:
        found.append((idx, "C06:legacy-update_record-shim", "a listener that only implements update_record got %r, the update list has %r"
                      % (o["legacy"][:4], [n for n, _ in (o["u"] or [])][:4])))
    if o["spy_u"] != 1 or o["spy_c"] != 1:
        found.append((idx, "C06:call-count", "a listener registered throughout got %d update calls and %d complete calls" % (o["spy_u"], o["spy_c"])))
    # every update call precedes every complete call
    kinds = [x[0] for x in o["order"]]
    if "c" in kinds and "u" in kinds[kinds.index("c"):]:
        found.append((idx, "C06:call-order", "an update call after a complete call: %r" % (o["order"],)))
    phase1 = {i: CC.spec_line(e[2], e[0], e[1]) for i, e in info["phase1"].items()}
    l2, l3 = _listener_sets(l1, o["events"])
    if sorted(l3) != o["ids"]:
        found.append((idx, "C06:listener-set", "listener set after the datagram is %r, expected %r" % (o["ids"], sorted(l3))))
    touched = {x[3] for x in o["executed"]} | {x[1] for x in o["executed"]}
    everyone = set(l1) | set(l2) | set(ucalls) | set(ccalls)
    for lid in sorted(everyone):
        nu, nc = len(ucalls.get(lid, [])), len(ccalls.get(lid, []))
        if nu > 1 or nc > 1:
            found.append((idx, "C06:called-twice", "listener %d got %d update and %d complete calls for one datagram" % (lid, nu, nc)))
        if lid in l1 and nu != 1:
            found.append((idx, "C06:update-call-count", "listener %d was registered when the datagram arrived and got %d update calls" % (lid, nu)))
        if lid in l2 and nc != 1:
            found.append((idx, "C06:complete-call-count", "listener %d was registered after the update phase and got %d complete calls" % (lid, nc)))
        if lid not in l1 and lid not in l2 and lid not in touched and (nu or nc):
            found.append((idx, "C06:unregistered-listener-called", "listener %d is not registered but was called" % lid))
    # what they were told: every depth-0 call, with the identities that re-entrant purges had removed before it
    for k, ev in enumerate(o["events"]):
        if ev[5] != 0 or ev[0] not in "uc":
            continue
        lid, gone = ev[1], seen[k]
        who = "listener %s" % ("(registered throughout)" if lid is None else lid)
        if ev[0] == "u":
            got_pairs, snap, tnow = ev[3], ev[4], ev[2]
            if tnow != now:
                found.append((idx, "C06:update-now", "%s was called with now=%r for the datagram at %d" % (who, tnow, now)))
            gp = [tuple(p) for p in got_pairs]
            if gp != pairs:
                if sorted(p[0] for p in gp) == sorted(p[0] for p in pairs) and [p[0] for p in gp] != [p[0] for p in pairs]:
                    sig = "C06:update-pairs:order"
                elif [p[0] for p in gp] != [p[0] for p in pairs]:
                    sig = "C06:update-pairs:records"
                elif [p[1] is None for p in gp] != [p[1] is None for p in pairs]:
                    sig = "C06:update-pairs:previous-presence"
                else:
                    sig = "C06:update-pairs:previous-not-live"
                found.append((idx, sig, "%s was given %r, expected %r" % (who, gp, pairs)))
            d = _snap_diff(snap, _minus(phase1, gone))
            if d is not None:
                what, line = d
                li = None
                try:
                    li = CC.parse_line(line.split(" instead of ")[0])[0]
                except Exception:  # noqa: BLE001
                    pass
                if what == "has" and li in info["added"]:
                    sig = "C06:update-snapshot:sees-new-record"
                elif what == "lacks" and li in info["removed"]:
                    sig = "C06:update-snapshot:misses-withdrawn"
                elif what == "differs":
                    sig = "C06:update-snapshot:lifetime"
                else:
                    sig = "C06:update-snapshot:%s" % what
                found.append((idx, sig, "inside async_update_records %s sees a cache that %s %s" % (who, what, line)))
        else:
            d = _snap_diff(ev[4], _minus(post, gone))
            if d is not None:
                found.append((idx, "C06:complete-snapshot", "inside async_update_records_complete %s sees a cache that %s %s" % (who, d[0], d[1])))


def _check_nested(found, idx, o, nested, l1):
    """the purge of every `add a listener with a question` reaction: it removes exactly the records whose TTL has fully elapsed at the
    reaction's clock reading, and reports them -- once, as (record, record) -- to the listener registered throughout"""
    evs = o["events"]
    for k, ex, lines in nested:
        ev = evs[k]
        if ev[0] == "b":
            ev = ["a", ev[1], ev[2] if ev[2] is not None else (o.get("unow") or 0), [None, ev[1], 2, ev[3][1]], None, ev[5]]
        depth = ev[5] + 1
        # the nested update calls of the listener registered throughout that belong to this reaction: up to the next act at the same depth
        told = []
        for e in evs[k + 1:]:
            if e[0] == "a" and e[5] <= ev[5]:
                break
            if e[5] < depth and e[0] in "uc":
                break
            if e[0] == "u" and e[1] is None and e[5] == depth:
                told.append(e)
        want = sorted(lines.values())
        got = sorted(n for e in told for n, _ in e[3])
        if got != want:
            found.append((idx, "C06:reentrant-purge:records", "async_add_listener(listener %d, question) at clock %d from listener %d's callback reported %r as "
                          "purged, the records whose TTL has fully elapsed are %r" % (ev[3][3], ev[2], ev[1], got, want)))
        elif len(told) > 1:
            found.append((idx, "C06:reentrant-purge:round", "one purge was reported in %d update calls to the same listener" % len(told)))
        elif told and any(n != o_ for n, o_ in told[0][3]):
            found.append((idx, "C06:reentrant-purge:pairs", "a purged record was not reported as (record, record): %r" % (told[0][3],)))


def _stats(res, op, info, prev_t, l1, o):
    C05._stats_d(res, op, info, prev_t)
    res.count("listeners-at-arrival:%d" % len(l1))
    res.count("reactions-executed", len(o["executed"]))
    ex = sorted("%d%s" % (x[0], {0: "-", 1: "+", 2: "?"}[x[2]]) + ("s" if x[1] == x[3] else "") for x in o["executed"])
    for x in o["executed"]:
        if x[2] == 2:
            res.count("reaction:add-with-question:depth%d:round%d" % (x[0] // 10, x[4]))
    for e in o["events"]:
        if e[0] == "u" and e[1] is None and e[5] >= 1:
            res.count("reentrant-purge-nonempty")
            if any(CC.parse_line(n)[0] in info["removed"] for n, _ in e[3]):
                res.count("reentrant-purge-hits-withdrawn-record")
    if ex or l1:
        res.nontriv("L/%d/%s/%s" % (len(l1), ",".join(ex), "upd" if info["pairs"] else "none"))
    res.count("datagram-without-updates" if not info["pairs"] else "datagram-with-updates")


# ------------------------------------------------------------------------------------------
# generators

REACT_SCRIPTS = [
    [],
    [[1, 1, 0, 2]],                    # 1 removes 2 during the update phase (2 is still called: the set was copied)
    [[1, 1, 1, 3]],                    # 1 adds 3 during the update phase (3 gets the complete call only)
    [[2, 2, 0, 2]],                    # 2 removes itself during the complete phase
    [[1, 1, 0, 1], [2, 2, 1, 3]],      # 1 removes itself in phase 1 (no complete call), 2 adds 3 in phase 2 (3 gets nothing)
    [[1, 2, 1, 3], [2, 3, 0, 1]],      # 2 adds 3 in phase 1; 3, called in phase 2, removes 1
    # a listener registered WITH a question from inside a callback: async_add_listener purges the expired records first (D23) --
    # in phase 1 that is between the computation of the datagram's work lists and their application (D24)
    [[1, 1, 2, 3, 0, "a._x._tcp.local.", 255, 1]],                      # 1 adds 3 with a question in phase 1 (3: replay + complete call)
    [[2, 2, 2, 3, 1, "a._x._tcp.local.", 255, 1]],                      # 2 adds 3 with a question in phase 2, the clock 1 ms later
    [[1, 2, 2, 3, 0, "absent.local.", 12, 1], [11, 1, 0, 2]],           # 2 adds 3 in phase 1; inside the purge's nested round 1 removes 2
]


def exh_react_histories(actions, gaps, depth):
    """listeners 1 and 2 registered; every history of length <= depth over actions x reaction scripts x gaps"""
    dact = [a for a in actions]
    variants = []
    for a in dact:
        if a[0] == "X":
            variants.append((a, None))
        else:
            for s in REACT_SCRIPTS:
                variants.append((a, s))
    for n in range(1, depth + 1):
        for vs in itertools.product(variants, repeat=n):
            for gs in itertools.product(gaps, repeat=n - 1):
                now = CC.T0
                ops = [["LA", 1], ["LA", 2]]
                for j, (a, s) in enumerate(vs):
                    if j:
                        now += gs[j - 1]
                    ops.append(["X", now] if a[0] == "X" else ["D", now, [list(r) for r in a[1]], [list(x) for x in s]])
                yield ops


def flush_window_histories():
    """systematic: a cached record, optionally refreshed, then a cache-flush sibling at 999 / 1000 / 1001 ms (+ variants)"""
    sib = [(CC.VOCAB[10], CC.VOCAB[12]), (CC.VOCAB[8], CC.VOCAB[9]), (CC.VOCAB[4], CC.VOCAB[6]), (CC.VOCAB[0], CC.VOCAB[3]),
           (CC.VOCAB[11], CC.VOCAB[12]), (CC.VOCAB[5], CC.VOCAB[6])]
    for a, b in sib:
        for gap in (999, 1000, 1001):
            for refresh_at in (None, 1, 500):
                for variant in ("plain", "victim-in-datagram", "flush-goodbye", "victim-goodbye", "no-flush-bit", "recased-flush"):
                    t = CC.T0
                    ops = [["LA", 1], ["D", t, [CC.inst(a, 120, 0)], []]]
                    base = t
                    if refresh_at is not None:
                        base = t + refresh_at
                        ops.append(["D", base, [CC.inst(a, 4500, 0)], []])
                    tf = base + gap
                    fl = CC.inst(b, 120, 1)
                    if variant == "plain":
                        recs = [fl]
                    elif variant == "victim-in-datagram":
                        recs = [fl, CC.inst(a, 120, 0)]
                    elif variant == "flush-goodbye":
                        recs = [CC.inst(b, 0, 1)]
                    elif variant == "victim-goodbye":
                        recs = [CC.inst(a, 0, 0), fl]
                    elif variant == "no-flush-bit":
                        recs = [CC.inst(b, 120, 0)]
                    else:
                        rb = list(b)
                        rb[1] = rb[1].upper()
                        recs = [CC.inst(rb, 120, 1)]
                    ops.append(["D", tf, recs, []])
                    ops.append(["X", tf + 999])
                    ops.append(["X", tf + 1000])
                    yield ops


def reentrant_histories():
    """systematic: a short-lived record is cached, runs out (or not: 999 / 1000 / 1001 ms for TTL 1) without being purged, and a datagram that
    withdraws / refreshes / ignores it arrives while listener 2 of {1, 2, 3} registers listener 4 WITH a question from inside its callback --
    in the update round or the complete round, the clock inside the call reading the arrival time or 1001 ms later, the question matching
    a cached type or nothing"""
    V = CC.VOCAB
    other = CC.inst(V[13], 120, 0)                                     # an unrelated AAAA record
    for tpl in (V[0], V[4], V[10], V[8]):                              # PTR, SRV, A, TXT
        for gap in (999, 1000, 1001, 3000):
            for variant in ("goodbye", "goodbye+new", "refresh", "unrelated", "goodbye+live", "goodbye-twice"):
                for ph in (1, 2):
                    for dt in (0, 1001):
                        for q in ((CC.TX, 12, 1), ("absent.local.", 12, 1)):
                            t = CC.T0
                            ops = [["LA", 1], ["LA", 2], ["LA", 3], ["D", t, [CC.inst(tpl, 1, 0), CC.inst(V[3], 4500, 0)], []]]
                            bye, live = CC.inst(tpl, 0, 0), CC.inst(tpl, 120, 0)
                            recs = {"goodbye": [bye], "goodbye+new": [bye, other], "refresh": [live], "unrelated": [other],
                                    "goodbye+live": [bye, live], "goodbye-twice": [bye, other, bye]}[variant]
                            ops.append(["D", t + gap, recs, [[ph, 2, 2, 4, dt, q[0], q[1], q[2]]]])
                            ops.append(["D", t + gap + 5000, [other], []])
                            yield ops


def run(ctx):
    res = C.Result("C06")
    t0 = time.time()
    tier, seed = ctx["tier"], ctx["seed"]
    wide = 4 if ctx.get("widened") else 1
    n_random = C.Budget(tier, 550, 4500).n * wide
    deadline = t0 + (420 if tier == "thorough" else 70) * (1.5 if wide > 1 else 1)
    run_ = CC.Runner(res, "C06", ctx, oracle)

    for name, probes, ops, _ in CC.corpus_histories("C06"):
        run_.add("corpus", probes, ops)
        res.count("corpus-files")

    probes_r = CC.vocab_probes()
    n_sys = 0
    for ops in flush_window_histories():
        run_.add("flush-window", probes_r, ops)
        n_sys += 1

    # datagrams as bytes through the real AsyncListener (duplicate guard, decode with the arrival time, hand-over)
    n_wire = 0
    for ops in CC.wire_window_histories(listeners=(1, 2)):
        run_.add("listener-window", probes_r, ops)
        n_wire += 1
    rngw = C.rng_for(seed, "c06", "listener")
    for h in range(max(20, n_random // 6)):
        opts = {"wire": True, "listeners": [1, 2, 3], "initial_listeners": rngw.choice([1, 2]), "reacts": True, "p_repeat": rngw.choice([0.0, 0.3]),
                "p_purge": rngw.choice([0.05, 0.15]), "p_same_payload": rngw.choice([0.3, 0.6]), "p_flush": rngw.choice([0.3, 0.6])}
        run_.add("listener-random", probes_r, CC.gen_history(rngw, rngw.choice([6, 12, 25]), opts))
        n_wire += 1

    n_re = 0
    for ops in reentrant_histories():
        run_.add("reentrant", probes_r, ops)
        n_re += 1

    # D24b: browsers (real _ServiceBrowserBase listeners) whose service handlers create browsers from inside the completion round
    probes_b = CC.vocab_probes(C04.VOCAB, [C04.TX, C04.TY, C04.TZ])
    n_br = 0
    for k, ops in enumerate(C04.d25_histories()):
        if k % 3 == 0 or tier == "thorough":
            run_.add("browser-created-in-handler", probes_b, ops)
            n_br += 1
    res.count("browser-reentrant-histories", n_br)

    probes_e = CC.vocab_probes(C05.EXH_VOCAB)
    plans = [("react", C05.EXH_SMALL, [0, 1001], 2), ("plain", C05.EXH_SMALL, C05.EXH_SMALL_GAPS, 3)]
    if tier == "thorough":
        plans = [("react", C05.EXH_SMALL, C05.EXH_SMALL_GAPS, 2), ("plain", C05.EXH_WIDE, C05.EXH_WIDE_GAPS, 2), ("plain", C05.EXH_SMALL, C05.EXH_SMALL_GAPS, 3),
                 ("plain", C05.EXH_SMALL, [0, 1000, 1001], 4)]
    complete = True
    n_exh = 0
    for kind, actions, gaps, depth in plans:
        gen = exh_react_histories(actions, gaps, depth) if kind == "react" else C05.exh_histories(actions, gaps, depth)
        for ops in gen:
            run_.add("exhaustive-" + kind, probes_e, ops, last_only=True)
            n_exh += 1
            if n_exh % 500 == 0 and time.time() > deadline - (150 if tier == "thorough" else 12):
                complete = False
                break
        if not complete:
            res.notes.append("bounded enumeration cut short by the time budget after %d histories" % n_exh)
            break
    res.exhaustive = complete

    rng = C.rng_for(seed, "c06", "random")
    done = 0
    for h in range(n_random):
        depth = rng.choice([6, 12, 25, 40, 60])
        opts = {"listeners": [1, 2, 3, 4], "initial_listeners": rng.choice([0, 1, 2, 3]), "p_listener": rng.choice([0.05, 0.15]), "reacts": True, "p_remove_absent": rng.choice([0.0, 0.04, 0.1]),
                "p_question": rng.choice([0.0, 0.2, 0.5]),
                "p_repeat": rng.choice([0.0, 0.3, 0.5]), "p_purge": rng.choice([0.05, 0.15]), "p_flush": rng.choice([0.3, 0.6])}
        ops = CC.gen_history(rng, depth, opts)
        run_.add("random", probes_r, ops)
        done += 1
        if h % 20 == 0 and time.time() > deadline:
            res.notes.append("random stream cut short by the time budget after %d of %d histories" % (done, n_random))
            break
    run_.finish()
    res.rule = ("one evaluation = one op of a history; for every datagram: post-state per identity and flush marks vs the flat reference, and for every "
                "recording listener (registered before, between, or from inside callbacks) the number of update/complete calls, the pairs in datagram "
                "order with `old` rendered live, and the cache snapshots taken inside both callbacks; all of it also diffed against the Lean model. "
                "Streams: corpus; @NWIRE@ histories fed as bytes through the real AsyncListener (one payload 3-4 times at gaps around the 1 s "
                "duplicate guard, and random); %d systematic flush-window scenarios (sibling pairs x gap 999/1000/1001 x refresh x 6 variants); %d systematic "
                "re-entrancy scenarios (a record runs out unpurged x goodbye/refresh/unrelated datagram x a listener registered WITH a question from "
                "inside the update or the complete callback x clock reading x question); every history of the "
                "bounded plans %s (%d histories, %s); %d seeded random histories of depth 6-60 with 4 listeners and scripted reactions. "
                "non-trivial = distinct datagram signatures (as C05) plus distinct (listeners at arrival, reactions executed, updates?)"
                % (n_sys, n_re, [(p[0], len(p[1]), len(p[2]), p[3]) for p in plans], n_exh, "complete" if complete else "cut short", done))
    res.rule = res.rule.replace("@NWIRE@", str(n_wire))
    res.sample({"reaction_scripts": REACT_SCRIPTS})
    if any("cut short" in n or "stopped after" in n for n in res.notes):
        # a stream was cut by the wall-clock budget (a loaded machine): the run is not the complete plan; the note says which stream
        res.exhaustive = False
    res.count("wall_s", int(time.time() - t0))
    return res


def replay(body):
    case = body.get("case", body)
    if "ops" not in case:
        return {"violates": None, "note": "no replayable history in this file"}
    return CC.replay_case(case, oracle)
